# C07 — price conversion applies the documented rate, and only that rate
import json, os, copy, datetime
from common import *
import journal as J

IMPORTS = ("From TkModel Require Import Base Dec Acct Txn Price.\nFrom TkSpec Require Import Price_spec.\n"
           "From TkCorr Require Import C07_corr.\n")

POOL = ["EUR", "USD", "ACME", "XAU", "He·bar", "€"]
LT_COQ = {"none": "LtNone", "last-price": "LtLastPrice", "txn-time": "LtTxnTime", "given-time": "LtGivenTime"}
DAY = 86400 * 10 ** 9
TS_MAX = 253402207200999999999   # jiff Timestamp::MAX (corpus 01/02: regression of the fixed finding F19)


# ---------------------------------------------------------------- time stamps
# the journal zone of the case being generated: kernel.timestamp.timezone offset (minutes) and default-time
# (seconds of the day). A stamp without zone denotes civil time in that zone; a date alone is completed with
# the default time. So the instant of a zone-less stamp = civil time - offset (date only: + default time).
ZONE = {"off": 0, "def": 0}
ZONES = [120, -300, 330, -210, 60, 765, -600, 840]
DEFTIMES = [12 * 3600 + 34 * 60 + 56, 6 * 3600, 23 * 3600 + 59 * 60 + 59, 1]


def fmt_ts(r, ns, allow_date=True, zoneless=None):
    """an ISO-8601 text (one of the accepted forms, chosen at random) denoting the instant ns, given the journal
    zone ZONE. zoneless=True forces a form without zone (date / local), False an explicit zone."""
    secs, frac = divmod(ns, 10 ** 9)
    zl = ["local", "local"]
    if frac == 0 and (secs + ZONE["off"] * 60 - ZONE["def"]) % 86400 == 0 and allow_date:
        zl += ["date", "date", "date"]
    styles = zl + ["Z", "off"]
    if zoneless is True:
        styles = zl
    elif zoneless is False:
        styles = ["Z", "off"]
    st = r.choice(styles)
    off = ZONE["off"] if st in ("local", "date") else 0
    if st == "off":
        off = r.choice([0, 60, -300, 330, 345, -570, 840, -720, 1])
    dt = datetime.datetime(1970, 1, 1) + datetime.timedelta(seconds=secs + off * 60)
    if st == "date":
        return dt.strftime("%Y-%m-%d")
    s = dt.strftime("%Y-%m-%dT%H:%M:%S")
    if frac:
        d = "%09d" % frac
        if r.random() < 0.5:
            d = d.rstrip("0")
        s += "." + d
    elif r.random() < 0.1:
        s += "." + "0" * r.randint(1, 9)
    if st == "Z":
        s += "Z"
    elif st == "off":
        s += ("+" if off >= 0 else "-") + "%02d:%02d" % (abs(off) // 60, abs(off) % 60)
    return s


def anchors(r):
    # the first anchors are instants which a date alone denotes in the journal zone (civil midnight + default time)
    base = (datetime.datetime(r.choice([2023, 2024, 2024, 2025]), r.randint(1, 12), r.randint(1, 28)) -
            datetime.datetime(1970, 1, 1)).days * DAY + (ZONE["def"] - ZONE["off"] * 60) * 10 ** 9
    out = [base]
    for _ in range(r.randint(1, 4)):
        k = r.random()
        if k < 0.5:
            out.append(base + r.randint(1, 40) * DAY)
        elif k < 0.8:
            out.append(base + r.randint(0, 40) * DAY + r.randint(0, 86399) * 10 ** 9)
        else:
            out.append(base + r.randint(0, 40) * DAY + r.randint(0, 86399) * 10 ** 9 + r.randint(1, 999999999))
    return sorted(set(out))


def around(r, anc):
    """an instant equal to an anchor, 1 ns around it, or well before / after all of them"""
    k = r.random()
    a = r.choice(anc)
    if k < 0.41:
        return a
    if k < 0.54:
        return a - 1
    if k < 0.67:
        return a + 1
    if k < 0.71:
        return a - 10 ** 9
    if k < 0.75:
        return a + 10 ** 9
    if k < 0.85:
        return min(anc) - r.randint(1, 400) * DAY
    if k < 0.95:
        return max(anc) + r.randint(1, 400) * DAY
    return a + r.randint(-3, 3) * DAY // 2


# ---------------------------------------------------------------- generators
def gen_rate(r):
    k = r.random()
    if k < 0.04:
        return (0, r.choice([0, 2]))
    if k < 0.08:
        return (-r.randint(1, 5000), r.randint(0, 3))
    if k < 0.7:
        return (r.randint(1, 50000), r.randint(0, 4))
    if k < 0.98:
        return (r.randint(1, 10 ** 9), r.randint(0, 9))
    return (r.randint(10 ** 20, 10 ** 27), r.randint(0, 20))


def gen_amount(r):
    k = r.random()
    if k < 0.6:
        return (r.choice([1, -1]) * r.randint(1, 5000), r.choice([0, 0, 1, 2]))
    if k < 0.97:
        return (r.choice([1, -1]) * r.randint(1, 10 ** 8), r.randint(0, 6))
    return (r.choice([1, -1]) * r.randint(10 ** 12, 10 ** 18), r.randint(0, 8))


def gen_journal(r, comms, anc):
    """transactions whose every posting has its own top-level account, so that register running totals and
    balance sums are the converted postings themselves"""
    txns, n = [], 0
    for _ in range(r.randint(1, 4)):
        c = r.choice(comms + [""]) if comms else ""
        ns = around(r, anc)
        posts, total = [], (0, 0)
        for _ in range(r.randint(1, 3)):
            amt = gen_amount(r)
            if c and len(comms) > 1 and r.random() < 0.5:
                f = r.choice([x for x in comms if x != c])
                pr = (r.randint(1, 900), r.randint(0, 2))
                posts.append({"acc": "p%d" % n, "amount": amt, "comm": f, "closing": ("@", pr, c), "opening": None, "comment": None})
                total = J.add(total, (amt[0] * pr[0], amt[1] + pr[1]))
            else:
                posts.append({"acc": "p%d" % n, "amount": amt, "comm": c, "closing": None, "opening": None, "comment": None})
                total = J.add(total, amt)
            n += 1
        if total[0] == 0:
            posts.append({"acc": "p%d" % n, "amount": (7, 0), "comm": c, "closing": None, "opening": None, "comment": None})
            total = J.add(total, (7, 0)); n += 1
        last = None
        if r.random() < 0.3:
            last = {"acc": "p%d" % n, "comment": None}
        else:
            posts.append({"acc": "p%d" % n, "amount": J.neg(total), "comm": c, "closing": None, "opening": None, "comment": None})
        n += 1
        txns.append({"ts": fmt_ts(r, ns), "ns": ns, "code": None, "desc": None, "uuid": None, "loc": None, "tags": None,
                     "comments": [], "posts": posts, "last": last})
    return txns


def gen_entries(r, comms, tgt, anc, self_pair=False, dups=False):
    pairs = []
    others = [c for c in POOL if c != tgt]
    for b in comms:
        if b == tgt:
            continue
        if r.random() < 0.75:
            pairs.append((b, tgt))
        if r.random() < 0.3:
            pairs.append((tgt, b))                      # inverse
        if r.random() < 0.3:
            o = r.choice(others)
            if o != b:
                pairs.append((b, o))                    # first leg of a chain
                if r.random() < 0.6:
                    pairs.append((o, tgt))              # second leg
    if r.random() < 0.2:
        pairs.append((r.choice(POOL), r.choice(others)))    # unrelated
    if self_pair:
        pairs.append((tgt, tgt))
    ents, seen = [], set()
    for (b, q) in dict.fromkeys(pairs):
        for _ in range(r.randint(0, 6) if not (self_pair and b == q) else r.randint(1, 3)):
            ns = around(r, anc)
            if (ns, b, q) in seen:
                if not dups:
                    continue
            seen.add((ns, b, q))
            ents.append({"ns": ns, "base": b, "rate": gen_rate(r), "eq": q})
    if not ents:
        # a price file needs at least one line (an empty one is a configuration error, generated separately)
        b = r.choice([c for c in comms if c != tgt] or others)
        ents.append({"ns": around(r, anc), "base": b, "rate": gen_rate(r), "eq": r.choice([tgt, tgt, r.choice(others)])})
    if dups and ents:
        for _ in range(r.randint(1, 3)):
            e = dict(r.choice(ents)); e["rate"] = gen_rate(r); ents.append(e)
    r.shuffle(ents)
    for e in ents:
        e["ts"] = fmt_ts(r, e["ns"])
        e["tail"] = r.choice(["", "", "", " ; note", "; x", " ;", "  "])
        e["sp"] = [r.choice([" ", "  ", "\t", "   "]) for _ in range(4)]
    return ents


def file_text(r, ents):
    if not ents:
        return ""
    out = r.choice(["", "", "\n", " \t\n\n"]) if r else ""
    for e in ents:
        sp = e.get("sp") or [" "] * 4
        out += "P" + sp[0] + e["ts"] + sp[1] + e["base"] + sp[2] + J.dec_str(*e["rate"]) + sp[3] + e["eq"] + e.get("tail", "") + "\n"
        if r and r.random() < 0.15:
            out += r.choice(["\n", "  \n", "\t\n\n"])
    return out


def gen_case(r):
    ZONE["off"] = r.choice(ZONES) if r.random() < 0.5 else 0
    ZONE["def"] = r.choice(DEFTIMES) if r.random() < 0.35 else 0
    anc = anchors(r)
    comms = r.sample(POOL, r.choice([0, 1, 2, 2, 3, 3, 4]))
    k = r.random()
    tgt = "EUR" if k < 0.6 else (r.choice(comms) if comms and k < 0.9 else r.choice(POOL))
    lt = r.choice(["txn-time"] * 8 + ["last-price"] * 5 + ["given-time"] * 5 + ["none"] * 2)
    tags = []
    self_pair = r.random() < 0.06
    dups = r.random() < 0.05
    if self_pair:
        tags.append("self-pair")
        if tgt not in comms:
            comms.append(tgt)
    if dups:
        tags.append("duplicate-keys")
    ents = gen_entries(r, comms, tgt, anc, self_pair, dups)
    c = {"lt": lt, "rc": tgt, "before": None, "before_ns": None, "entries": ents,
         "txns": gen_journal(r, comms, anc), "tags": tags, "src": "gen", "tz_off": ZONE["off"], "deftime": ZONE["def"]}
    if lt == "given-time":
        # the cut-off: mostly written without zone (date only / local date-time), i.e. to be read in the journal zone
        c["before_ns"] = around(r, sorted(set(anc + [e["ns"] for e in ents])))
        c["before"] = fmt_ts(r, c["before_ns"], zoneless=(True if r.random() < 0.65 else None))
    k = r.random()
    if k < 0.02:
        c["rc"] = None; tags.append("no-report-commodity")
    elif k < 0.04 and lt != "given-time":
        c["before_ns"] = r.choice(anc); c["before"] = fmt_ts(r, c["before_ns"]); tags.append("before-not-allowed")
    elif k < 0.05 and lt == "given-time":
        c["before"] = None; c["before_ns"] = None; tags.append("given-time-without-time")
    elif k < 0.08:
        c["entries"] = []; tags.append("empty-price-file")
    return c


def finish_case(r, c):
    """derive the texts"""
    c["journal"] = c.get("journal") or J.print_journal(c["txns"])
    c["file_text"] = c.get("file_text") or file_text(r, c["entries"])
    keys = [(e["ns"], e["base"], e["eq"]) for e in c["entries"]]
    c["distinct"] = len(set(keys)) == len(keys)
    if c["distinct"] and len(c["entries"]) > 1 and r is not None:
        p = list(c["entries"]); r.shuffle(p)
        if r.random() < 0.3:
            p.sort(key=lambda e: (-e["ns"], e["base"]))       # latest line first
        c["file_text_perm"] = file_text(None, p)
    return c


# ---------------------------------------------------------------- requests and terms
def request(c, text):
    price = '[price]\ndb-path = "prices.db"\nlookup-type = "%s"' % c["lt"]
    rcomm = 'commodity = "%s"' % c["rc"] if c["rc"] is not None else ""
    ov = {}
    if c["before"] is not None:
        ov["before_time"] = c["before"]
    smin, smax = J.scale_for(text + str(c.get("journal") or c.get("text") or ""))
    off, dft = c.get("tz_off") or 0, c.get("deftime") or 0
    tz = 'name = "UTC"' if off == 0 else 'offset = "%s%02d:%02d"' % ("+" if off >= 0 else "-", abs(off) // 60, abs(off) % 60)
    deftime = "%02d:%02d:%02d" % (dft // 3600, dft // 60 % 60, dft % 60)
    return {"conf": {"toml": J.make_toml(price=price, rcomm=rcomm, smin=smin, smax=smax, tz=tz, deftime=deftime), "pricedb": text},
            "overlaps": ov,
            "inputs": [{"text": c["journal"]}],
            "ops": [{"op": "txns"}, {"op": "register"}, {"op": "balance"}, {"op": "pricectx"}, {"op": "pricedb"}]}


def g_pe(ns, base, rate, eq):
    return "(mkPE %s %s %s %s)" % (g_Z(ns), g_str(base), g_dec(rate), g_str(eq))


def parse_dec_text(s):
    neg = s.startswith("-")
    s = s.lstrip("-")
    if "." in s:
        i, f = s.split(".")
        m, sc = int(i + f), len(f)
    else:
        m, sc = int(s), 0
    return (-m if neg else m, sc)


def g_conv(acc, comm, amount, rate):
    return "(mkConv %s %s %s %s)" % (g_acct(acc), g_str(comm), g_dec(amount), "None" if rate is None else "(Some %s)" % g_dec(rate))


BAD = '(mkConv [] [63]%N (mkDec 0 0) None)'   # marks an observation that does not fit the expected shape


def observe(c, rr):
    """implementation result -> (Gallina txns, Gallina impl_out or None, summary for evidence)"""
    res = rr["results"]
    if any("ok" not in x for x in res):
        return None
    txns, reg, bal, meta, db = [x["ok"] for x in res]
    balmap = {}
    for row in bal["rows"]:
        balmap.setdefault(row["acc"], []).append(row)
    g_txns, g_reg, g_bal, summ = [], [], [], []
    n_conv = 0
    for i, t in enumerate(txns):
        ps = ["(mk_p %s %s %s)" % (g_acct(p["acc"]), g_str(p["comm"]), g_dec(p["amount"])) for p in t["posts"]]
        g_txns.append("(mk_t %s %s)" % (g_Z(int(t["ts"]["ns"])), g_list(ps)))
        rows = {}
        if i < len(reg) and reg[i]["txn"]["ts"] == t["ts"] and len(reg[i]["rows"]) == len(t["posts"]):
            for row in reg[i]["rows"]:
                rows.setdefault(row["acc"], []).append(row)
        rl, bl, sl = [], [], []
        for p in t["posts"]:
            rw = rows.get(p["acc"], [])
            if len(rw) == 1:
                rl.append(g_conv(p["acc"], rw[0]["target"], rw[0]["total"], rw[0]["rate"]))
                sl.append((p["acc"], p["comm"], dec_parts(p["amount"]), rw[0]["target"], dec_parts(rw[0]["total"]),
                           dec_parts(rw[0]["rate"]) if rw[0]["rate"] else None))
                if rw[0]["target"] != p["comm"] or rw[0]["total"] != p["amount"]:
                    n_conv += 1
            else:
                rl.append(BAD)
            bw = balmap.get(p["acc"], [])
            bl.append(g_conv(p["acc"], bw[0]["comm"], bw[0]["own"], None) if len(bw) == 1 else BAD)
        g_reg.append(g_list(rl)); g_bal.append(g_list(bl)); summ.append(sl)
    g_meta = []
    for m in meta:
        used = "None" if m["ts"] is None or m["rate"] is None else \
            "(Some (%s, %s))" % (g_Z(int(m["ts"]["ns"])), g_dec(parse_dec_text(m["rate"])))
        g_meta.append("(mkPrec %s %s %s)" % (g_str(m["source"]), g_str(m["target"]), used))
    g_db = [g_pe(int(e["ts"]["ns"]), e["base"], e["rate"], e["eq"]) for e in db]
    out = "(Some (mkOut %s %s %s %s))" % (g_list(g_db), g_list(g_reg), g_list(g_bal), g_list(g_meta))
    return g_list(g_txns), out, {"converted": summ, "metadata": meta, "n_converted": n_conv,
                                 "intended_ts_ok": [int(t["ts"]["ns"]) for t in txns] == sorted(x["ns"] for x in c["txns"]) if c.get("txns") else None}


def term(c, g_txns, g_impl):
    rc = "None" if c["rc"] is None else "(Some %s)" % g_str(c["rc"])
    bf = "None" if c["before_ns"] is None else "(Some %s)" % g_Z(c["before_ns"])
    f = g_list([g_pe(e["ns"], e["base"], e["rate"], e["eq"]) for e in c["entries"]])
    return "c07_case %s %s %s %s %s %s" % (LT_COQ[c["lt"]], rc, bf, f, g_txns, g_impl)


def load_corpus():
    cases = []
    cdir = os.path.join(VERIF, "corpus", "C07")
    if os.path.isdir(cdir):
        for f in sorted(os.listdir(cdir)):
            if f.endswith(".json"):
                c = json.load(open(os.path.join(cdir, f)))
                c["src"] = "corpus/" + f
                c.setdefault("tags", []); c.setdefault("tz_off", 0); c.setdefault("deftime", 0)
                for e in c["entries"]:
                    e["rate"] = tuple(e["rate"])
                cases.append(c)
    return cases


def replay_obj(c, what_impl):
    return {"lookup_type": c["lt"], "report_commodity": c["rc"], "before_time": c["before"], "price_file": c["file_text"],
            "journal": c["journal"], "tags": c["tags"], "source": c["src"], "implementation_output": what_impl,
            "journal_timezone_offset_minutes": c.get("tz_off", 0), "default_time_seconds": c.get("deftime", 0),
            "case": {k: c.get(k) for k in ("lt", "rc", "before", "before_ns", "entries", "journal", "file_text", "tags", "tz_off", "deftime")},
            "replay_hint": "tackler.toml: [price] db-path=prices.db lookup-type=<lookup_type>, [report] commodity=<report_commodity>; "
                           "kernel.timestamp timezone offset / default-time as given; --price.before <before_time>; reports register/balance; ./check C07 --replay <this file>"}


def evaluate(run, cases):
    """runs the cases; returns per case dict with bits etc."""
    reqs, owner = [], []
    for i, c in enumerate(cases):
        reqs.append(request(c, c["file_text"])); owner.append((i, "main"))
        if c.get("file_text_perm"):
            reqs.append(request(c, c["file_text_perm"])); owner.append((i, "perm"))
    res = harness_run(reqs)
    terms, idx = [], []
    for (i, kind), rr in zip(owner, res):
        c = cases[i]
        if kind == "perm":
            c["perm_res"] = rr
            continue
        st = rr.get("stage") if rr else "none"
        c["stage"] = st
        c["res"] = rr
        if st == "settings":
            c["impl"] = {"settings_error": rr.get("err", "")[:160]}
            # the journal is not parsed in this case: its transactions are irrelevant for the model's verdict
            terms.append(term(c, "[]", "None")); idx.append(i)
        elif st == "done":
            ob = observe(c, rr)
            if ob is None:
                c["impl"] = {"op_failed": [x for x in rr["results"] if "ok" not in x][:1]}
                c["stage"] = "op-error"
                continue
            g_txns, g_impl, summ = ob
            c["impl"] = summ
            terms.append(term(c, g_txns, g_impl)); idx.append(i)
        else:
            c["impl"] = {"stage": st, "err": (rr or {}).get("err", "")[:160]}
    vals, errs = coq_eval("C07", IMPORTS, terms)
    if errs:
        raise Infra("coq evaluation failed: " + errs[0])
    for j, v in zip(idx, vals):
        b = as_N(v)
        if b is None:
            raise Infra("no result for case %d" % j)
        cases[j]["bits"] = b
    return cases


def judge(run, c, findings):
    """verdict for one evaluated case; returns a short class name for the statistics"""
    if "bits" not in c:
        return "not-evaluated:" + c.get("stage", "?")
    bits = c["bits"]
    if not (bits & 4):
        return "outside-exact-domain"
    if not (bits & 8):
        # duplicate (instant, base, eq): outside the quantifier of the property; statistics only
        return "duplicate-keys:" + ("model-agrees" if bits & 1 else "model-differs")
    if not (bits & 2):
        # F12 / F21 (self pair) and F19 (line stamped Timestamp::MAX) are fixed: such inputs are ordinary cases now
        run.violation("price conversion contradicts the specification (rate = latest applicable entry of the pair into the report "
                      "commodity; postings without commodity / in the report commodity / without applicable rate unchanged; "
                      "metadata = exactly the rates applied: used commodities other than the report commodity with an applicable entry)",
                      replay_obj(c, c["impl"]))
        return "violation"
    if not (bits & 1):
        run.cov["disagreements_checked"] += 1
        run.violation("correspondence broken: model Price (settings_price / load_db / make_ctx / convert_prices / metadata) differs from "
                      "the implementation (spec oracle clean on this input)",
                      dict(replay_obj(c, c["impl"]), correspondence="C07_corr.c07_case"), found_input=False)
        return "model-differs"
    # C07_file_order on the implementation: the same lines in another order give the same results
    if c.get("perm_res") is not None:
        a, b = c["res"], c["perm_res"]
        if a.get("stage") != b.get("stage") or (a.get("stage") == "done" and a["results"][1:] != b["results"][1:]):
            run.violation("the result depends on the order of the lines of the price file",
                          dict(replay_obj(c, c["impl"]), price_file_permuted=c["file_text_perm"],
                               implementation_output_permuted=b.get("results", b)))
            return "violation"
    return "ok"


def overflow_probe(run, f):
    """F25 (repaired): the witness of the finding f (journal + price file, report commodity EUR, last-price)"""
    price = '[price]\ndb-path = "prices.db"\nlookup-type = "last-price"'
    rq = {"conf": {"toml": J.make_toml(price=price, rcomm='commodity = "EUR"'), "pricedb": f["witness_pricedb"]},
          "inputs": [{"text": f["witness_journal"]}], "ops": [{"op": "txns"}, {"op": "balance"}, {"op": "register"},
                                                             {"op": "text_balance"}, {"op": "text_register"}, {"op": "text_balgrp"}]}
    rr = harness_run([rq])[0] or {}
    res = rr.get("results") or []
    run.cov["evaluations"] += 1
    bad = None
    if rr.get("stage") in ("panic", "abort") or any(x.get("panic") for x in res[1:]):
        bad = "the reports panic"
    elif rr.get("stage") == "done" and any("ok" in x for x in res[1:]):
        bad = "a report is produced although amount x rate is not representable"
    if f.get("status") == "open":
        if bad == "the reports panic":
            run.known_finding(f["what"])
        else:
            run.violation("known finding %s no longer reproduces: model of the finding and implementation disagree" % f["id"],
                          {"finding": f, "outcome": rr}, found_input=False)
    elif bad:
        run.violation("price conversion of an amount whose value exceeds the 96-bit number type: %s (expected: an error)" % bad,
                      {"journal": f["witness_journal"], "price_file": f["witness_pricedb"], "report_commodity": "EUR",
                       "lookup_type": "last-price", "outcome": rr})
    return rr


def main(run):
    info = proof_stage(run, "C07", extra_targets=["corr/C07_corr.vo"])
    harness_build()
    r = run.rng
    n = 220 if run.tier == "quick" else 6000
    cases = [finish_case(r, c) for c in load_corpus()]
    cases += [finish_case(r, gen_case(r)) for _ in range(n)]
    evaluate(run, cases)
    findings = load_findings("C07")
    verdicts, stages, tagc, lts = {}, {}, {}, {}
    distinct = set()
    n_conv = n_posts = n_perm = n_self = n_listed_unapplied = 0
    for c in cases:
        v = judge(run, c, findings)
        verdicts[v] = verdicts.get(v, 0) + 1
        stages[c.get("stage")] = stages.get(c.get("stage"), 0) + 1
        lts[c["lt"]] = lts.get(c["lt"], 0) + 1
        for t in c["tags"] or ["plain"]:
            tagc[t] = tagc.get(t, 0) + 1
        if "bits" in c:
            run.cov["evaluations"] += 1
            if isinstance(c["impl"], dict) and c["impl"].get("n_converted"):
                distinct.add(json.dumps(c["impl"]["converted"], sort_keys=True))
                n_conv += c["impl"]["n_converted"]
            if isinstance(c["impl"], dict) and "converted" in c["impl"]:
                n_posts += sum(len(t) for t in c["impl"]["converted"])
            if c.get("perm_res") is not None:
                n_perm += 1
            if c["bits"] & 16:
                n_self += 1
            if isinstance(c["impl"], dict) and c["rc"] is not None:
                # F21 (fixed): a record target -> target must not be listed (the metadata oracle rejects it); expected 0
                n_listed_unapplied += sum(1 for m in c["impl"].get("metadata", []) if m["source"] == c["rc"])
            if len(run.cov["samples"]) < 3 and c["src"] == "gen" and c.get("stage") == "done":
                run.cov["samples"].append({"lookup_type": c["lt"], "report_commodity": c["rc"], "before_time": c["before"],
                                           "price_file": c["file_text"], "journal": c["journal"],
                                           "implementation": c["impl"], "bits": c["bits"]})
    run.cov["distinct_nontrivial"] = len(distinct)
    run.cov["rule"] = ("corpus + seeded cases: 0-4 commodities, pairs into the report commodity plus inverse / chained / unrelated pairs, "
                       "0-6 lines per pair in shuffled order with date-only / local / Z / offset / fractional time stamps, comments and blank lines; "
                       "journal zone UTC or an offset (+02:00, -05:00, +05:30, -03:30, +12:45, ...) and default-time 00:00:00 or not, zone-less stamps "
                       "(entries, transactions and mostly the given-time cut-off) denoting civil time in that zone, anchors on the instants a bare date denotes, "
                       "1 ns / 1 s around them; "
                       "transaction and given-time instants equal to, 1 ns around, before and after the entries; every posting on its own account so that "
                       "register totals and balance sums are the converted postings; all three lookups and none; each distinct-key file is run a second "
                       "time with its lines permuted; separate streams: self pair of the report commodity (F12/F21, fixed), duplicate keys (statistics only), configuration errors. "
                       "non-trivial = at least one posting converted; distinct = distinct converted outputs")
    run.violations.sort(key=lambda v: not v[2])      # violations with a concrete failing input first
    run.notes["journal_zones"] = {
        "non_utc_offset": sum(1 for c in cases if c.get("tz_off")), "non_midnight_default_time": sum(1 for c in cases if c.get("deftime")),
        "given_time_cutoff_without_zone": sum(1 for c in cases if c["lt"] == "given-time" and c["before"] and not (c["before"].endswith("Z") or "+" in c["before"][10:] or "-" in c["before"][10:])),
        "given_time_cutoff_without_zone_in_non_default_zone": sum(1 for c in cases if c["lt"] == "given-time" and c["before"] and (c.get("tz_off") or c.get("deftime")) and not (c["before"].endswith("Z") or "+" in c["before"][10:] or "-" in c["before"][10:]))}
    run.notes.update({"stages": stages, "verdict_classes": verdicts, "tags": tagc, "lookup_types": lts,
                      "postings_observed": n_posts, "postings_converted": n_conv, "permuted_file_runs": n_perm,
                      "files_with_self_pair": n_self, "metadata_records_target_to_target": n_listed_unapplied})
    # ---- F25 (repaired): a converted amount beyond the number type must end in an error — no panic, no figure
    for f in findings:
        if f.get("class") == "conversion_overflow_panic":
            overflow_probe(run, f)
    import t03_text   # extra stage (extension T03, DESIGN section 12): the price-file TEXT against PriceText.parse_pricedb + load_db
    t03_text.run_text_stage(run, n=(90 if run.tier == "quick" else 1500))
    import t05_text   # extra stage (extension T05): register / balance / balance-group TEXT of these cases under conversion and rounding
    t05_text.run_c07_stage(run, cases)
    # ... and T05's own worlds (accounts shared between transactions and commodities, so that running totals and
    # account sums really add converted amounts of different source commodities)
    t05_text.run_text_stage(run, n=(40 if run.tier == "quick" else 600))
    return run.finish(info)


def replay(run, path):
    """the stored case (price file entries, journal, lookup, zone) through harness + c07_case + judge; the overflow witness
    (F25) through overflow_probe; replays of the T03 / T05 text stages go to t03.replay / t05.replay (common.replay_begin)"""
    j0 = json.load(open(path))
    if isinstance(j0, dict) and isinstance(j0.get("replay"), dict):
        j, rp, rc = replay_begin(run, path)
        if rc is not None:
            return rc
        if "case" not in rp and isinstance(rp.get("finding"), dict) and "witness_journal" in rp["finding"]:
            f = rp["finding"]                                  # 'known finding no longer reproduces'
        elif "case" not in rp and "outcome" in rp and isinstance(rp.get("journal"), str) and isinstance(rp.get("price_file"), str):
            f = {"witness_journal": rp["journal"], "witness_pricedb": rp["price_file"], "status": "fixed", "id": "F25"}
        else:
            f = None
        if f is not None:
            print(j.get("what"))
            print("journal:\n%s\nprice file:\n%s" % (f["witness_journal"], f["witness_pricedb"]))
            harness_build()
            rr = overflow_probe(run, f)
            print("now: stage %s, %s" % (rr.get("stage"), json.dumps(rr.get("results"), ensure_ascii=False)[:1500]))
            return replay_verdict(run, path, j, "conversion beyond the number type ends in an error now (no panic, no figure)")
    else:
        j = j0 if isinstance(j0, dict) else {}
    c = j.get("replay", j).get("case") or j.get("case") or j         # a replay file, or a bare case (corpus format)
    if not (isinstance(c, dict) and "entries" in c and "journal" in c and "lt" in c):
        return replay_print(j0)
    print(j.get("what"))
    c = copy.deepcopy(c)
    c.setdefault("tags", []); c["src"] = "replay:" + os.path.basename(path)
    for e in c["entries"]:
        e["rate"] = tuple(e["rate"])
    harness_build()
    ok, log = coq_make(["corr/C07_corr.vo"])
    if not ok:
        raise Infra("coq build failed:\n" + log[-2000:])
    finish_case(None, c)
    if isinstance(j.get("replay", {}).get("price_file_permuted"), str):
        c["file_text_perm"] = j["replay"]["price_file_permuted"]      # 'the result depends on the order of the lines': the second order
    evaluate(run, [c])
    v = judge(run, c, load_findings("C07"))
    print(json.dumps({"lookup_type": c["lt"], "report_commodity": c["rc"], "before_time": c["before"], "price_file": c["file_text"],
                      "journal": c["journal"], "implementation": c.get("impl"), "bits": c.get("bits"), "verdict": v},
                     indent=1, ensure_ascii=False)[:8000])
    return replay_verdict(run, path, j, "verdict of the stored case now: %s (stage %s)" % (v, c.get("stage")))
