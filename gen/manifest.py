#!/usr/bin/env python3
# regenerates MANIFEST.json from the table below (keeps it valid at all times)
import json, os
V = os.path.dirname(os.path.dirname(os.path.abspath(__file__)))
BASELINE = "cd /repo && cargo nextest run --workspace --no-fail-fast --test-threads 8 --offline || cargo test --workspace --no-fail-fast --offline"
props = [json.loads(l) for l in open(os.path.join(V, "properties.jsonl"))]
CLAIMS = json.load(open(os.path.join(V, "gen", "claims.json")))
checks, na = [], []
for p in props:
    pid = p["id"]
    c = CLAIMS.get(pid)
    if not c or not c.get("claimed"):
        na.append({"property_id": pid, "reason": (c or {}).get("reason", "check not built yet (work in progress; see DESIGN.md section 10)")})
        continue
    checks.append({
        "property_id": pid,
        "quick_cmd": "./check %s --tier quick" % pid,
        "thorough_cmd": "./check %s --tier thorough" % pid,
        "evidence_file": "evidence/%s.json" % pid,
        "replay_cmd_template": "./check %s --replay {path}" % pid,
        "engine": "coq+correspondence",
        "level_claimed": {"category": "proof", "text": c["text"], "design_ref": c.get("design_ref", "DESIGN.md section 7, " + pid)},
        "level_note": c["note"],
        "technique": c.get("technique", "Coq 8.16 theorems about a hand-written Gallina model + behavioural correspondence check (model vs Rust on generated inputs, spec oracle as failing-input search)"),
    })
m = {
    "version": 1,
    "setup_cmd": "./setup",
    "hooks": {
        "guard": "tackler_verif",
        "enable": "RUSTFLAGS=\"--cfg tackler_verif\" (set in harness/.cargo/config.toml; the harness crate has path dependencies on /repo's crates)",
        "baseline_off_cmd": BASELINE,
        "source_commits": json.load(open(os.path.join(V, "gen", "hook_commits.json"))),
        "add_only": True,
    },
    "engines": [{"name": "coq+correspondence", "path": "check", "serves_properties": [c["property_id"] for c in checks],
                 "kind_free_text": "Coq 8.16.1 development (coq/model, coq/spec, coq/proofs, coq/props) + Rust harness (harness/) + Python generators (gen/)"}],
    "checks": checks,
    "not_applicable": na,
    "notes": "Exit codes: 0 held / only known findings; 1 VIOLATION; 2 infrastructure failure. See DESIGN.md.",
}
json.dump(m, open(os.path.join(V, "MANIFEST.json"), "w"), indent=1)
print("checks:", [c["property_id"] for c in checks], "na:", len(na))
