# T06 (extension) — a WHOLE RUN of the tackler binary against ONE function of the model.
#   console worlds:  tackler --config c --input.file j [--api-filter-def f] [--price.before t]        -> standard output
#   file worlds:     ... --output.dir out --output.prefix p                                            -> the files of out/, standard output
# are compared byte for byte with T06_run.run_console / run_files (coq/model/T06_run.v), evaluated by vm_compute
# on the journal TEXT, the price file TEXT and the run configuration (coq/corr/T06_corr.v); exit status 0 <=> model Ok.
# Nothing the binary printed is fed to the model; the digests of audit mode are computed here with hashlib and
# passed as the model's hash table (pre-image -> digest), as gen/t04_text.py does.
# Additionally the figure oracles of T05 / T01 are evaluated on every report embedded in the binary's output
# (console frames, report files), with the transactions parsed from the journal text by the model's grammar.
#   run_stage(run, n=None)   used by ./check T06 (gen/t06.py) and as a stage of ./check C19
# A text difference is a broken correspondence (no-failing-input-found) with both texts in the replay; an oracle
# failure on the binary's output is a violation with the concrete world.
import datetime, hashlib, json, os, re, shutil
from concurrent.futures import ThreadPoolExecutor
from common import *
import journal as J
import c11 as RX

IMPORTS = ("From TkModel Require Import Base Dec Acct Txn Journal Round Price Time Regex T06_run T07_run T08_filter.\n"
           "From TkModel Require Filter MetaText Store Codec.\n"
           "From TkCorr Require Import T06_corr T07_corr T08_corr.\n")

HASHES = {"SHA-256": "sha256", "SHA-512": "sha512", "SHA-512/256": "sha512_256", "SHA3-256": "sha3_256", "SHA3-512": "sha3_512"}
# report zones with a fixed offset (POSIX sign: Etc/GMT-3 = +03:00); the offsets are stated here, not read from the tz database
ZONES = {"UTC": 0, "Etc/GMT-3": 3 * 3600, "Etc/GMT+5": -5 * 3600, "Etc/GMT-14": 14 * 3600, "Etc/GMT+11": -11 * 3600, "Etc/UTC": 0}
SCALES = [(0, 0), (2, 2), (2, 7), (0, 28), (0, 3), (1, 4), (2, 3), (0, 1)]
GROUP_BYS = {"year": "GbYear", "month": "GbMonth", "date": "GbDate", "iso-week": "GbIsoWeek", "iso-week-date": "GbIsoWeekDate"}
STYLES = {"date": "TsDate", "seconds": "TsSeconds", "full": "TsFull"}
KINDS = {"balance": "MetaText.RBalance", "balance-group": "MetaText.RBalGroup", "register": "MetaText.RRegister"}
KIND_FILE = {"balance": "bal.txt", "balance-group": "balgrp.txt", "register": "reg.txt"}
EXPORTS = {"equity": "XEquity", "identity": "XIdentity"}
LOOKUPS = {"none": "LtNone", "last-price": "LtLastPrice", "txn-time": "LtTxnTime", "given-time": "LtGivenTime"}
ACCOUNTS = ["a", "a:b", "a:b:c", "e", "e:c", "x", "b:d", "a:é", "e2:k-1"]
COMMS = ["", "", "EUR", "ACME", "USD", "€"]
TITLES = [("BAL", "BALGRP", "REG"), ("Balance Report", "Groups", "Register"), ("B", "G g", "R·é")]

RULE = ("corpus/T06 + seeded worlds (config file + journal file + optional price file, <= 6 transactions): report targets = every order of "
        "every subset of balance / balance-group / register (empty in a few), 55% console / 45% --output.dir with exports (equity, identity, "
        "both orders); account selectors global / per report / none (literal names, also names that select nothing); 8 scales; 6 fixed-offset "
        "report zones; 5 group-by keys; 3 time-stamp styles; journal zone offset and default time; audit mode in 40% (5 algorithms, digests "
        "from hashlib); price conversion in 50% (last-price / txn-time / given-time with --price.before, lookup none with a commodity); "
        "--api-filter-def in 30% (depth<=2 trees: and/or/not, regex leaves on description/code/account/commodity/comments/tags, amount "
        "comparisons, uuid, time-stamp leaves under every report zone, bounding box); journal layout varied (indentation, blank lines, CRLF, order of "
        "metadata lines); ~15% failing worlds (syntax error, unbalanced transaction, missing / duplicate uuid in audit mode, empty "
        "selection, broken price file, lookup without report commodity). Compared: exit status 0 <=> model Ok; standard output (console) "
        "resp. every file of the output directory and the announcements byte for byte; failing runs print nothing and write no file; "
        "oracles: T05 balance/register figure oracles and T01 balance-group reading oracle on every embedded report, identity export "
        "re-loaded by the model grammar; model-independent oracles in files mode (plain violations): every report file of a run begins with "
        "the metadata block of the set = the block console mode prints for the same inputs, Txn Set Checksum = hashlib digest of a "
        "selection of the shown size; the equity export re-loaded through the harness = rows of the harness's unconverted equity "
        "balance of the same journal (profile worlds: the first four generated worlds and a quarter of the rest); non-trivial = successful run with at least one report or export; distinct = distinct outputs")


# ---------------------------------------------------------------- small helpers
def digest(name, data):
    return hashlib.new(HASHES[name], data).digest()


def g_bytes(b):
    return "[" + "; ".join("%d" % x for x in b) + "]%N" if b else "(@nil N)"


def g_strs(l):
    return g_list([g_str(x) for x in l]) if l else "(@nil (list N))"


def g_names(l):
    return g_list([g_acct(a) for a in l]) if l else "(@nil (list (list N)))"


def g_sel(o):
    return "None" if o is None else "(Some %s)" % g_names(o)


def parse_str(v):
    return "".join(chr(int(x)) for x in re.findall(r"\d+", v or ""))


def parse_lists(v):
    """the innermost lists of numbers of a printed Gallina value, in order"""
    return ["".join(chr(int(x)) for x in re.findall(r"\d+", m)) for m in re.findall(r"\[([\d;%N \n]*)\]", v or "")]


def ns_of(text):
    """instant (ns) of a time stamp written as the journal grammar allows, zone Z / +hh:mm / absent (= UTC here)"""
    m = re.match(r"^(\d{4})-(\d\d)-(\d\d)(?:T(\d\d):(\d\d):(\d\d)(?:\.(\d{1,9}))?)?(Z|[+-]\d\d:\d\d)?$", text)
    y, mo, d, h, mi, s, fr, z = m.groups()
    base = datetime.datetime(int(y), int(mo), int(d), int(h or 0), int(mi or 0), int(s or 0), tzinfo=datetime.timezone.utc)
    off = 0
    if z and z != "Z":
        off = (1 if z[0] == "+" else -1) * (int(z[1:3]) * 3600 + int(z[4:6]) * 60)
    return (int(base.timestamp()) - off) * 10 ** 9 + (int(fr.ljust(9, "0")) if fr else 0)


# ---------------------------------------------------------------- filters
REGEXES = [RX.lit("a:b"), RX.seq(RX.lit("a"), ("Star", ("Any",))), ("Star", ("Any",)), ("Alt", RX.lit("x"), RX.lit("e:c")),
           RX.lit("keep"), RX.seq(("Star", ("Any",)), RX.lit("keep")), RX.lit("EUR"), ("Alt", RX.lit("EUR"), RX.lit("")),
           ("Plus", ("Class", False, [(97, 101)])), RX.seq(RX.lit("e"), ("Opt", RX.lit(":c"))), RX.lit("c1"), RX.lit("t1"),
           RX.seq(("Class", True, [(58, 58)]), ("Star", ("Any",)), RX.lit(":c")), RX.lit("note")]
ONE = {"desc": ("TxnFilterTxnDescription", "FDesc"), "code": ("TxnFilterTxnCode", "FCode"), "tags": ("TxnFilterTxnTags", "FTags"),
       "comments": ("TxnFilterTxnComments", "FComments"), "pacc": ("TxnFilterPostingAccount", "FPAccount"),
       "pcomment": ("TxnFilterPostingComment", "FPComment"), "pcomm": ("TxnFilterPostingCommodity", "FPCommodity")}
AMT = {"eq": ("Equal", "FPAmountEq"), "lt": ("Less", "FPAmountLt"), "gt": ("Greater", "FPAmountGt")}


def gen_tree(r, depth, allow_ts, uuids):
    """a JSON-serialisable filter tree; regex leaves carry the regex AST (c11 tuples as lists)"""
    k = r.random()
    if depth > 0 and k < 0.3:
        return [r.choice(["and", "or"]), [gen_tree(r, depth - 1, allow_ts, uuids) for _ in range(r.choice([0, 1, 2, 2, 3]))]]
    if depth > 0 and k < 0.42:
        return ["not", gen_tree(r, depth - 1, allow_ts, uuids)]
    leaf = r.choice(["true", "false", "desc", "desc", "code", "tags", "comments", "uuid", "begin", "end", "begin", "end", "pacc", "pacc", "pcomment", "pcomm",
                     "amount", "amount", "bbox"])
    if leaf in ("begin", "end") and not allow_ts:
        leaf = "desc"
    if leaf == "uuid" and not uuids:
        leaf = "true"
    if leaf in ("true", "false"):
        return [leaf]
    if leaf in ONE:
        return [leaf, r.choice(REGEXES)]
    if leaf == "uuid":
        return ["uuid", r.choice(uuids).lower()]
    if leaf in ("begin", "end"):
        return [leaf, r.choice(["2024-01-01T00:00:00Z", "2024-02-10T12:30:45Z", "2023-12-31T23:59:59Z", "2024-03-01T00:00:00.5Z", "2023-01-01T00:00:00Z",
                               "2024-02-29T20:15:00.123456789Z", "2025-01-01T00:00:00Z"])]
    if leaf == "amount":
        return ["amount", r.choice(["eq", "lt", "gt"]), r.choice(REGEXES), list(r.choice([(1, 0), (1250, 2), (-5, 1), (0, 0), (100, 1), (25, 1)]))]
    return ["bbox"] + list(r.choice([(59, 24, 61, 26), (-10, -20, 10, 20), (0, 0, 0, 0), (-90, -180, 90, 180)]))


def tup(x):
    return RX.to_tuple(x) if isinstance(x, list) else x


def tree_json(t):
    k = t[0]
    if k in ("and", "or"):
        return {"TxnFilter" + k.upper(): {"txnFilters": [tree_json(s) for s in t[1]]}}
    if k == "not":
        return {"TxnFilterNOT": {"txnFilter": tree_json(t[1])}}
    if k == "true":
        return {"NullaryTRUE": {}}
    if k == "false":
        return {"NullaryFALSE": {}}
    if k in ONE:
        return {ONE[k][0]: {"regex": RX.pp(tup(t[1]))}}
    if k == "uuid":
        return {"TxnFilterTxnUUID": {"uuid": t[1]}}
    if k == "begin":
        return {"TxnFilterTxnTSBegin": {"begin": t[1]}}
    if k == "end":
        return {"TxnFilterTxnTSEnd": {"end": t[1]}}
    if k == "amount":
        return {"TxnFilterPostingAmount" + AMT[t[1]][0]: {"regex": RX.pp(tup(t[2])), "amount": J.dec_str(*t[3])}}
    s, w, n, e = t[1:]
    return {"TxnFilterBBoxLatLon": {"south": s, "west": w, "north": n, "east": e}}


def tree_term(t, pats):
    """Gallina term of type Filter.tfilter; regex leaves are numbered into pats"""
    def idx(ast):
        pats.append(tup(ast))
        return g_N(len(pats) - 1)
    k = t[0]
    if k in ("and", "or"):
        subs = [tree_term(s, pats) for s in t[1]]
        return "(Filter.F%s %s)" % ("And" if k == "and" else "Or", g_list(subs) if subs else "(@nil Filter.tfilter)")
    if k == "not":
        return "(Filter.FNot %s)" % tree_term(t[1], pats)
    if k == "true":
        return "Filter.FTrue"
    if k == "false":
        return "Filter.FFalse"
    if k in ONE:
        return "(Filter.%s %s)" % (ONE[k][1], idx(t[1]))
    if k == "uuid":
        return "(Filter.FUuid %s)" % g_str(t[1])
    if k == "begin":
        return "(Filter.FTsBegin %s)" % g_Z(ns_of(t[1]))
    if k == "end":
        return "(Filter.FTsEnd %s)" % g_Z(ns_of(t[1]))
    if k == "amount":
        return "(Filter.%s %s %s)" % (AMT[t[1]][1], idx(t[2]), g_dec(tuple(t[3])))
    return "(Filter.FBBox %s %s %s %s)" % tuple(g_dec((v, 0)) for v in t[1:])


def filter_arg(w):
    """the value of --api-filter-def: the JSON text of the FilterDefinition"""
    return json.dumps({"txnFilter": tree_json(w["filter"])}, ensure_ascii=False)


# T08: how the definition reaches the binary.  w["fenc"]: None = the plain JSON text (as always), "armor" = `base64:` + standard base64 of
# the UTF-8 of that text (must run exactly like the plain text), or a MALFORMED definition (exit status 1, nothing printed, no file)
FENC_BAD = ["bad-b64", "double-prefix", "bad-json", "unknown-variant"]


def filter_cli_text(w):
    """the value of --api-filter-def as given to the binary"""
    import base64
    text = filter_arg(w)
    armored = "base64:" + base64.b64encode(text.encode("utf-8")).decode("ascii")
    fe = w.get("fenc")
    if fe == "armor":
        return armored
    if fe == "bad-b64":          # not canonical base64: a length that is no multiple of 4 / a character outside the alphabet
        return armored[:-1] if len(text) % 2 else armored[:9] + "*" + armored[10:]
    if fe == "double-prefix":
        return "base64:" + armored
    if fe == "bad-json":
        return text[:-1]
    if fe == "unknown-variant":
        return json.dumps({"txnFilter": {"TxnFilterBogus": {"regex": "x"}}})
    return text


def filter_leaf_asts(t, out):
    if t[0] in ("and", "or"):
        for x in t[1]:
            filter_leaf_asts(x, out)
    elif t[0] == "not":
        filter_leaf_asts(t[1], out)
    elif t[0] in ONE:
        out.append(tup(t[1]))
    elif t[0] == "amount":
        out.append(tup(t[2]))
    return out


def ft_tables(w):
    """the library tables of coq/corr/T08_corr.v for the world: pattern texts Regex::new accepts, JSON text -> tree (Python's json module
    reads the text layer, as in gen/c18.py), pattern text -> AST"""
    import base64, binascii
    from c18 import tree_of, g_jv, NOT_JSON
    asts = filter_leaf_asts(w["filter"], [])
    texts = sorted(set(RX.pp(a) for a in asts))
    oks = [x for p in texts for x in (p, "^(?:" + p + ")$")]
    rtab = {}
    for a in asts:
        rtab.setdefault(RX.pp(a), RX.g_re(a))
    jtexts = [filter_arg(w)]
    cli = filter_cli_text(w)
    if not cli.startswith("base64:"):
        jtexts.append(cli)
    jtab = []
    for jt in sorted(set(jtexts)):
        tr = tree_of(jt)
        if tr is not NOT_JSON:
            term = g_jv(tr)
            for c in ("JNull", "JBool", "JNum", "JStr", "JArr", "JObj"):
                term = term.replace("(%s " % c, "(Codec.%s " % c)
            term = "Codec.JNull" if term == "JNull" else term.replace(" JNull", " Codec.JNull")
            jtab.append("(%s, %s)" % (g_str(jt), term))
    return (g_list([g_str(x) for x in oks]) if oks else "(@nil (list N))",
            g_list(jtab) if jtab else "(@nil (list N * Codec.jv))",
            g_list(["(%s, %s)" % (g_str(p), rtab[p]) for p in sorted(rtab)]) if rtab else "(@nil (list N * re))")


def is_ft(w):
    return bool(w.get("fenc")) and w.get("filter") is not None and not w.get("t07")


def ft_args(w):
    """arguments of t08_*_ft_case / _model: tables, configuration, digest table, filter text, journal, price file"""
    ptext = "(Some %s)" % g_str(w["prices"]) if (w["prices"] is not None and w["price_section"]) else "None"
    return "%s %s %s %s %s %s %s %s" % (ft_tables(w) + (cfg_term(w), hash_table(w), g_str(filter_cli_text(w)), g_str(w["journal"]), ptext))


def has_ts(t):
    return t[0] in ("begin", "end") or (t[0] in ("and", "or") and any(has_ts(s) for s in t[1])) or (t[0] == "not" and has_ts(t[1]))


# ---------------------------------------------------------------- worlds
def rand_uuid(r):
    h = "%032x" % r.getrandbits(128)
    return "%s-%s-%s-%s-%s" % (h[:8], h[8:12], h[12:16], h[16:20], h[20:])


def gen_amount(r):
    k = r.random()
    if k < 0.5:
        return (r.choice([1, -1]) * r.randint(1, 500), r.choice([0, 0, 1, 2]))
    if k < 0.8:
        return (r.choice([1, -1]) * r.randint(1, 10 ** 6), r.randint(0, 5))
    return (r.choice([1, -1]) * r.randint(1, 10 ** 10), r.randint(3, 9))


def gen_ts(r):
    y, mo, d = r.choice([2023, 2024, 2024, 2024]), r.randint(1, 3), r.randint(1, 28)
    if r.random() < 0.15:
        mo, d = r.choice([(12, 31), (1, 1), (12, 30)])           # year / ISO-week boundaries under a report zone
    k = r.random()
    if k < 0.35:
        return "%04d-%02d-%02d" % (y, mo, d)
    base = "%04d-%02d-%02dT%02d:%02d:%02d" % (y, mo, d, r.choice([0, 1, 12, 22, 23]), r.randint(0, 59), r.randint(0, 59))
    if k < 0.5:
        return base
    if r.random() < 0.3:
        base += "." + r.choice(["5", "25", "000000001", "123456789", "120"])
    return base + r.choice(["Z", "Z", "+02:00", "-05:30", "+14:00", "-11:00"])


def gen_txn(r, i, accounts, comms, want_uuid, conv_comms):
    comm = r.choice(comms)
    posts, total = [], (0, 0)
    for _ in range(r.randint(1, 3)):
        amt = gen_amount(r)
        posts.append({"acc": r.choice(accounts), "amount": amt, "comm": comm, "closing": None, "opening": None,
                      "comment": r.choice([None, None, None, "note", "keep"])})
        total = J.add(total, amt)
    if conv_comms and comm != "" and r.random() < 0.25:
        # a posting in another commodity, valued into the transaction's commodity
        fc = r.choice([c for c in conv_comms if c != comm] or ["ACME" if comm != "ACME" else "USD"])
        amt = gen_amount(r)
        pr = (r.randint(1, 400), r.randint(0, 2))
        posts.append({"acc": r.choice(accounts), "amount": amt, "comm": fc, "closing": ("@", pr, comm), "opening": None, "comment": None})
        total = J.add(total, (amt[0] * pr[0], amt[1] + pr[1]))
    if total[0] == 0:
        amt = gen_amount(r)
        posts.append({"acc": r.choice(accounts), "amount": amt, "comm": comm, "closing": None, "opening": None, "comment": None})
        total = J.add(total, amt)
    last = None
    if r.random() < 0.4:
        last = {"acc": r.choice(accounts), "comment": None}
    else:
        posts.append({"acc": r.choice(accounts), "amount": J.strip(J.neg(total)) if r.random() < 0.5 else J.neg(total), "comm": comm,
                      "closing": None, "opening": None, "comment": None})
    t = {"ts": gen_ts(r), "code": None, "desc": None, "uuid": None, "loc": None, "tags": None, "comments": [], "posts": posts, "last": last}
    if r.random() < 0.3:
        t["code"] = r.choice(["c1", "#1", "a b", "X-%d" % i])
    if r.random() < 0.6:
        t["desc"] = r.choice(["t%d keep" % i, "keep", "it's (c)", "ünï ¢", "same"])
    if want_uuid or r.random() < 0.35:
        u = rand_uuid(r)
        t["uuid"] = u.upper() if r.random() < 0.15 else u
    if r.random() < 0.2:
        t["loc"] = (J.dec_str(r.randint(-9000, 9000), 2), J.dec_str(r.randint(-18000, 18000), 2), J.dec_str(r.randint(-100, 9000), 1) if r.random() < 0.4 else None)
    if r.random() < 0.2:
        t["tags"] = r.sample(["t1", "a:b", "x-y"], r.randint(1, 2))
    if r.random() < 0.2:
        t["comments"] = [r.choice(["note", "  indented", "x ; y"]) for _ in range(r.randint(1, 2))]
    return t


def gen_prices(r, comms, rc):
    lines = []
    for _ in range(r.randint(1, 5)):
        base = r.choice([c for c in comms if c and c != rc] or ["ACME"])
        ts = r.choice(["2023-06-01", "2024-01-01", "2024-01-15T12:00:00Z", "2024-02-01T00:00:00+02:00", "2024-02-20T10:30:00.5Z", "2024-03-05"])
        rate = J.dec_str(r.randint(1, 99999), r.randint(0, 4))
        if r.random() < 0.04:
            rate = J.dec_str(r.randint(1, 10 ** 23), 22)        # a product beyond 28 decimals: outside the exact domain (skipped)
        elif r.random() < 0.03:
            rate = "7922816251426433759354395033"                # x an amount >= 10.1: the value does not fit 96 bits: the report fails (exit 1)
        eq = rc if r.random() < 0.85 else "USD"
        lines.append("P %s %s %s %s%s" % (ts, base, rate, eq, r.choice(["", "", " ; c"])))
    if r.random() < 0.2:
        lines.append(r.choice(lines))                      # equal (instant, base, eq): the first line of the file survives
    return "\n".join(lines) + "\n"


def sel_gen(r, accounts):
    k = r.random()
    if k < 0.45:
        return None
    if k < 0.5:
        return []
    return r.sample(accounts + ["zz", "a:q"], r.randint(1, 3))


BREAKS = ["no-final-newline", "bad-posting", "unbalanced", "lone-cr", "dup-uuid", "missing-uuid", "filter-none", "bad-prices",
          "no-report-commodity", "empty-journal", "blank-in-txn"]


PROFILES = ["md", "eqconv"]
T07_PROFILES = ["dir", "strict", "regex", "dir+strict", "dir+regex", "strict+regex", "git", "git+strict+regex"]
ANY = ("Star", ("Any",))


def used_names(w):
    """the names a strict run needs declared: posted accounts (the amount-less last posting included), posting and closing-price
    commodities, tags; report commodity, price-file commodities (when conversion is on), equity account (when equity is exported)"""
    accs, comms, tags = set(), set(), set()
    for t in w["txns"]:
        for p in t["posts"]:
            accs.add(p["acc"])
            if p["comm"]:
                comms.add(p["comm"])
            if p.get("closing"):
                comms.add(p["closing"][2])
        if t.get("last"):
            accs.add(t["last"]["acc"])
        tags.update(t.get("tags") or [])
    cfgc = set()
    if w["rc"] is not None:
        cfgc.add(w["rc"])
    if w["lt"] != "none" and w["prices"]:
        for l in w["prices"].split("\n"):
            f = l.split()
            if len(f) >= 5 and f[0] == "P":
                cfgc.update([f[2], f[4]])
    return sorted(accs), sorted(comms | cfgc), sorted(tags)


def sel_pattern(r, accounts):
    k = r.random()
    a = r.choice(accounts)
    first = a.split(":")[0]
    if k < 0.2:
        return RX.lit(a)
    if k < 0.4:
        return RX.seq(RX.lit(first), ("Opt", ("Group", False, RX.seq(RX.lit(":"), ANY))))           # first(?::.*)?
    if k < 0.5:
        return RX.seq(RX.lit(first), ANY)                                                          # first.*
    if k < 0.6:
        return RX.seq(ANY, RX.lit(":" + a.split(":")[-1]))                                         # .*:last
    if k < 0.68:
        return ("Alt", RX.lit(a), RX.lit(r.choice(accounts)))
    if k < 0.74:
        return r.choice([ANY, RX.lit("zz"), ("Empty",), RX.seq(("Class", False, [(97, 101)]), ANY), RX.seq(("Class", True, [(97, 97)]), ANY)])
    return RX.gen_re(r, 2)


def pats_gen(r, accounts):
    k = r.random()
    if k < 0.4:
        return None
    if k < 0.45:
        return []
    return [sel_pattern(r, accounts) for _ in range(r.randint(1, 3))]


def apply_t07(r, w, profile, accounts):
    """T07 worlds: directory input (several files, nested / dot directories, files that must not be read), charts and strict mode,
    regular-expression account selectors"""
    t7 = {"files": None, "ext": r.choice(["txn", "txn", "txn", "journal", "t"]), "strict": False, "charts": None, "pats": None,
          "cli_input": r.random() < 0.4}
    parts = profile.split("+")
    if "git" in parts:
        t7["split"] = True
        t7["git"] = {"dir": r.choice(["txns", "txns", "journal/2024", ""]), "sel": None, "commits": None}
        t7["cli_input"] = False
        if w["break"] in ("empty-journal",):
            w["break"] = None
    if "dir" in parts:
        t7["split"] = True
        if w["break"] is None and r.random() < 0.15:
            w["break"] = "bad-file"
    if "regex" in parts:
        t7["pats"] = {"accounts": pats_gen(r, accounts) if r.random() < 0.4 else None, "bal": pats_gen(r, accounts), "grp": pats_gen(r, accounts),
                      "reg": pats_gen(r, accounts), "eq": pats_gen(r, accounts)}
    else:
        # the name selectors of the world as literal patterns (T07_run reads patterns only)
        t7["pats"] = {k: (None if w[k] is None else [RX.lit(a) for a in w[k]]) for k in ("accounts", "bal", "grp", "reg", "eq")}
        if all(v is None for v in t7["pats"].values()):
            t7["pats"] = None
    for k in ("accounts", "bal", "grp", "reg", "eq"):
        w[k] = None
    if "strict" in parts:
        if r.random() < 0.5:
            w["txns"][r.randrange(len(w["txns"]))]["tags"] = r.sample(["t1", "a:b", "x-y"], r.randint(1, 2))
        if w["mode"] == "files" and "equity" not in w["exports"] and r.random() < 0.4:
            w["exports"] = w["exports"] + ["equity"]
        accs, comms, tags = used_names(w)
        if "equity" in w["exports"] or r.random() < 0.3:
            accs = sorted(set(accs + [w["eqa"]]))
        ch = {"accounts": accs, "comms": comms, "permit_empty": True, "tags": tags}
        t7["strict"] = True
        k = r.random()
        if k < 0.12:
            ch["accounts"] = sorted(set(accs + ["zz:top", "a:b:c:d:e"]))
            ch["comms"] = comms + ["XAU"]
            ch["tags"] = tags + ["unused"]
        elif k < 0.40:
            # one needed name is missing: strict mode must refuse, strict off must not care
            kind = r.choice([x for x, l in (("accounts", ch["accounts"]), ("comms", ch["comms"]), ("tags", ch["tags"]), ("tags", ch["tags"])) if l] or ["accounts"])
            if kind == "accounts" and "equity" in w["exports"] and r.random() < 0.5:
                ch["accounts"] = [x for x in ch["accounts"] if x != w["eqa"]]      # the equity account of an equity export must be declared
            elif ch[kind]:
                gone = r.choice(ch[kind])
                ch[kind] = [x for x in ch[kind] if x != gone]
                if kind == "accounts" and r.random() < 0.5 and ":" not in gone:
                    ch[kind].append(gone + ":child")       # only a descendant is declared: the parent is synthetic, not postable
            t7["strict"] = r.random() < 0.75
        elif k < 0.50:
            t7["strict"] = False
        elif k < 0.60:
            ch["permit_empty"] = False                    # a posting without commodity is refused in BOTH modes
            t7["strict"] = r.random() < 0.5
        t7["charts"] = ch
    w["t07"] = t7
    w["profile"] = profile
    return w




def apply_profile(r, w, profile, accounts):
    """worlds in which two defects of a run as a whole become visible (files mode, no defect of the input):
    md      >= 2 report files of one run whose transaction set has metadata (audit mode and/or a filter)
    eqconv  a price-converted balance report written BEFORE an equity export in the same run, with a held commodity that has a rate"""
    txns = w["txns"]
    w["mode"], w["break"] = "files", None
    if profile == "md":
        if len(w["targets"]) < 2:
            w["targets"] = r.sample(list(KINDS), r.randint(2, 3))
        k = r.random()
        if k < 0.7:
            w["audit"] = True
        if k >= 0.4 or w["filter"] is None and not w["audit"]:
            w["filter"] = ["or", [w["filter"] or ["false"], ["amount", "gt", REGEXES[2], [0, 0]]]]      # every transaction has a positive posting
        if w["audit"]:
            for t in txns:
                t["uuid"] = t["uuid"] or rand_uuid(r)
    else:
        if "balance" not in w["targets"]:
            w["targets"] = w["targets"] + ["balance"]
            r.shuffle(w["targets"])
        if "equity" not in w["exports"]:
            w["exports"] = w["exports"] + ["equity"]
            r.shuffle(w["exports"])
        w["rc"], w["lt"], w["before"] = "EUR", r.choice(["last-price", "txn-time"]), None
        w["prices"] = "P 2022-06-01 ACME %s EUR\n" % J.dec_str(r.randint(2, 9999), r.randint(0, 3)) + (w["prices"] or "")
        w["price_section"] = True
        a1, a2 = r.sample(accounts, 2)
        amt = gen_amount(r)
        txns[0]["posts"] = [{"acc": a1, "amount": amt, "comm": "ACME", "closing": None, "opening": None, "comment": None}]
        txns[0]["last"] = {"acc": a2, "comment": None}
        if w["filter"] is not None:
            w["filter"] = ["or", [w["filter"], ["pcomm", RX.lit("ACME")]]]
        if r.random() < 0.6:
            w["eq"] = None
            if w["accounts"] is not None:
                w["accounts"] = sorted(set(w["accounts"] + [a1]))
        else:
            w["eq"] = sorted(set((w["eq"] or []) + [a1]))
    w["profile"] = profile
    return w


def gen_world(r, idx, profile=None):
    accounts = r.sample(ACCOUNTS, r.randint(2, 5))
    comms = r.sample(COMMS, r.randint(1, 3))
    audit = r.random() < 0.4
    conv = r.random() < 0.5
    rc, lt, before, prices = None, "none", None, None
    if conv:
        rc = r.choice(["EUR", "EUR", "USD", "€"])
        lt = r.choice(["last-price", "txn-time", "given-time", "none", "last-price", "txn-time"])
        if "ACME" not in comms:
            comms = comms + ["ACME"]
        if lt == "given-time":
            before = r.choice(["2024-01-10T00:00:00Z", "2024-02-15T00:00:00Z", "2025-01-01T00:00:00Z", "2023-01-01T00:00:00Z"])
        if lt != "none" or r.random() < 0.5:
            prices = gen_prices(r, comms, rc)
    n = r.randint(1, 6)
    txns = [gen_txn(r, i, accounts, comms, audit, [c for c in comms if c] if conv else None) for i in range(n)]
    if n > 1 and r.random() < 0.15:
        txns[1]["ts"] = txns[0]["ts"]                       # equal instants: the order comes from code / description / uuid
    layout = {"indent": r.choice([" ", "   ", "\t", "  \t "]), "order": r.choice(["ult", "ult", "tlu", "lut"]),
              "sep": r.choice(["\n", "\n", "\n\n", " \t\n\n"]), "crlf": r.random() < 0.1, "lead": r.choice(["", "", "\n", "  \n\n"])}
    zone = r.choice(list(ZONES))
    targets = r.sample(list(KINDS), r.choice([0, 1, 1, 2, 2, 3, 3, 3]))
    if not targets and r.random() < 0.7:
        targets = r.sample(list(KINDS), r.randint(1, 3))
    mode = "files" if r.random() < 0.45 else "console"
    exports = r.sample(list(EXPORTS), r.choice([0, 1, 1, 2, 2])) if (mode == "files" or r.random() < 0.2) else []
    smin, smax = r.choice(SCALES)
    w = {"idx": idx, "src": "gen", "mode": mode, "txns": txns, "layout": layout, "prices": prices, "price_section": prices is not None,
         "jz_min": r.choice([0, 0, 0, 120, -330]), "deftime": r.choice([0, 0, 43200, 86399]), "audit": audit,
         "hash": r.choice(list(HASHES)), "rtz": zone, "smin": smin, "smax": smax, "targets": targets, "exports": exports,
         "accounts": sel_gen(r, accounts) if r.random() < 0.4 else None, "bal": sel_gen(r, accounts), "grp": sel_gen(r, accounts),
         "reg": sel_gen(r, accounts), "eq": sel_gen(r, accounts), "group_by": r.choice(list(GROUP_BYS)), "rc": rc, "lt": lt,
         "before": before, "titles": list(r.choice(TITLES)), "style": r.choice(list(STYLES)), "eqa": r.choice(["Equity:Balance", "e:q"]),
         "filter": None, "prefix": r.choice(["r", "out", "my-run"]), "break": None}
    uuids = [t["uuid"] for t in txns if t["uuid"]]
    if r.random() < 0.3:
        w["filter"] = gen_tree(r, 2, True, uuids)        # time-stamp leaves under every report zone (described in that zone)
        k = r.random()
        if k < 0.35:          # keep the share of empty selections moderate: widen the selection
            w["filter"] = ["or", [w["filter"], r.choice([["desc", REGEXES[5]], ["pacc", REGEXES[1]], ["amount", "gt", REGEXES[2], [0, 0]]])]]
    if r.random() < 0.15:
        w["break"] = r.choice(BREAKS)
    if profile in PROFILES:
        apply_profile(r, w, profile, accounts)
    elif profile is not None:
        apply_t07(r, w, profile, accounts)
    if w["filter"] is not None and not w.get("t07"):
        # T08: a third of the single-file worlds with a filter pass it ARMORED; of the plain ones (no profile) 30 % more pass a MALFORMED definition
        k = r.random()
        w["fenc"] = "armor" if k < 0.34 else r.choice(FENC_BAD) if (k < 0.64 and profile is None) else None
    return finish_world(r, w)


def finish_world(r, w):
    """derive the texts (journal, uuid list) from the structure and apply the world's defect"""
    b = w.get("break")
    txns = w["txns"]
    if b == "dup-uuid" and len(txns) >= 2 and w["audit"]:
        txns[1]["uuid"] = txns[0]["uuid"]
    if b == "missing-uuid" and w["audit"]:
        txns[-1]["uuid"] = None
    if b == "filter-none":
        w["filter"] = ["and", [["false"], ["true"]]]
    if b == "no-report-commodity":
        w["rc"], w["lt"], w["before"] = None, "last-price", None
        w["prices"] = w["prices"] or "P 2024-01-01 ACME 2 EUR\n"
        w["price_section"] = True
    if b == "bad-prices" and w["prices"] is not None and w["lt"] != "none":
        w["prices"] = r.choice([" " + w["prices"], w["prices"].rstrip("\n"), w["prices"] + "Q x\n", "\n\n", w["prices"].replace(" ", "", 1)])
    ly = w["layout"]
    t7 = w.get("t07")
    groups = [txns]
    if t7 and t7.get("split"):
        # distribute the transactions over 2..4 files (some may stay empty of the split and are dropped), any order
        k = r.randint(2, 4)
        groups = [[] for _ in range(k)]
        for t in txns:
            groups[r.randrange(k)].append(t)
        groups = [g for g in groups if g] or [txns]
    text = ly["lead"] + J.print_journal(groups[0], indent=ly["indent"], meta_order=ly["order"], sep=ly["sep"])
    if b == "no-final-newline":
        text = text.rstrip("\n")
    elif b == "bad-posting":
        text = text.replace(ly["indent"] + txns[0]["posts"][0]["acc"] + "  ", ly["indent"] + txns[0]["posts"][0]["acc"] + " ", 1)
    elif b == "unbalanced":
        text += "\n2024-03-30 'odd\n a  1\n e  -2\n"
    elif b == "lone-cr":
        text = text.replace("\n", "\r x\n", 1)
    elif b == "empty-journal":
        text = r.choice(["", "\n", "  \n\n"])
    elif b == "blank-in-txn":
        i = text.find("\n" + ly["indent"])
        text = text[:i + 1] + "\n" + text[i + 1:] if i >= 0 else text
    if ly["crlf"]:
        text = text.replace("\n", "\r\n")
    w["journal"] = text
    if t7:
        ext = t7["ext"]
        names = r.sample(["j.%s" % ext, "2024/01/a.%s" % ext, "sub/b.c.%s" % ext, ".hidden/deep/q.%s" % ext, "sub/.late.%s" % ext, "z.%s" % ext,
                          "..r.%s" % ext, "A/B/C/D/e.%s" % ext], len(groups))
        files = [[names[0], text]]
        for nm, g in zip(names[1:], groups[1:]):
            files.append([nm, J.print_journal(g, indent=r.choice([" ", "\t"]), meta_order=ly["order"], sep="\n")])
        if t7.get("split") or r.random() < 0.5:
            # files that must NOT be read: other suffixes, a name that is only the suffix, the suffix as a prefix of another one
            for nm in r.sample(["notes.txt", ".%s" % ext, "sub/x.%sx" % ext, "README", "old.%s.bak" % ext, "x%s" % ext, "sub/.%s" % ext], r.randint(1, 3)):
                files.append([nm, "this is not a journal\n"])
        if t7.get("split") and b == "bad-file" and len(files) > 1:
            files.append(["zz/broken.%s" % ext, r.choice(["2024-01-01 'x\n a  1\n", "junk\n", "", "2024-01-01\n a  1\n e  -2\n"])])
        r.shuffle(files)
        t7["files"] = files
        t7.pop("split", None)
        if t7.get("git") is not None:
            g = t7["git"]
            pre = (g["dir"] + "/") if g["dir"] else ""
            top = g["dir"].split("/")[0] if g["dir"] else "txns"
            # files of the commit outside the journal directory (same suffix), names that only share a prefix with it
            outside = [] if not g["dir"] else [[nm, "2024-01-01 'outside\n a  1\n e  -1\n", False]
                                               for nm in r.sample(["other/o.%s" % ext, "%sfile.%s" % (top, ext), "%s-old/b.%s" % (top, ext), "o.%s" % ext], r.randint(1, 3))]
            all_files = [[pre + nm, text, r.random() < 0.2] for nm, text in files] + outside + [["README.md", "# readme\n", False]]
            journal_files = [f for f in files if py_has_ext(ext, f[0].split("/")[-1])]
            first = [[pre + nm, text, False] for nm, text in journal_files[:1]] + outside[:1] + [["README.md", "# old\n", False]]
            g["commits"] = [{"message": r.choice(["first\n", "subject one\n\nbody\n", "  padded  \n"]), "files": first},
                            {"message": r.choice(["second\n", "two\nlines\n", "€uro ☃\n", "second commit with a longer subject line\n"]), "files": all_files}]
            k = r.random()
            g["sel"] = (["ref", r.choice(["main", "main", "HEAD", "v1", "old", "rel"])] if k < 0.5 else
                        ["commit", {"index": r.choice([0, 1, 1]), "len": r.choice([40, 40, 10])}] if k < 0.85 else
                        ["ref-sha", {"index": r.choice([0, 1]), "len": r.choice([40, 12])}])
    w["uuids"] = [t["uuid"].lower() if t["uuid"] else None for t in txns]
    del w["txns"]
    return w


def eff(w, key):
    per = w[key]
    return per if per is not None else (w["accounts"] if w["accounts"] is not None else [])


def sel_texts(w, key):
    """the configured selector list of a key (accounts / bal / grp / reg / eq) as texts, or None"""
    t7 = w.get("t07")
    if t7 and t7.get("pats") is not None:
        l = t7["pats"].get(key)
        return None if l is None else [RX.pp(tup(p)) for p in l]
    return w[key]


def eff_texts(w, key):
    per, glob = sel_texts(w, key), sel_texts(w, "accounts")
    return per if per is not None else (glob if glob is not None else [])


def charts_files(w):
    """(accounts.toml, commodities.toml, tags.toml) texts of a world with charts, else None"""
    t7 = w.get("t07")
    if not t7 or t7.get("charts") is None:
        return None
    ch = t7["charts"]
    return ("accounts = %s\n" % J.toml_list(ch["accounts"]),
            "permit-empty-commodity = %s\ncommodities = %s\n" % (g_bool(ch["permit_empty"]), J.toml_list(ch["comms"])),
            "tags = %s\n" % J.toml_list(ch["tags"]))


def toml_of(w):
    def acc(k):
        l = sel_texts(w, k)
        return "" if l is None else ", accounts = %s" % J.toml_list(l)
    off = w["jz_min"]
    tz = 'name = "UTC"' if off == 0 else 'offset = "%s%02d:%02d"' % ("+" if off >= 0 else "-", abs(off) // 60, abs(off) % 60)
    dt = w["deftime"]
    price = ""
    if w["price_section"]:
        price = '[price]\ndb-path = "prices.db"\nlookup-type = "%s"' % w["lt"]
    elif w["lt"] != "none":
        price = '[price]\ndb-path = "none"\nlookup-type = "%s"' % w["lt"]
    t7 = w.get("t07") or {}
    ck = dict(strict=g_bool(bool(t7.get("strict"))))
    if t7.get("charts") is not None:
        ck.update(accounts="accounts.toml", commodities="commodities.toml", tags="tags.toml")
    toml = J.make_toml(audit=g_bool(w["audit"]), hash=w["hash"], **ck, deftime="%02d:%02d:%02d" % (dt // 3600, dt // 60 % 60, dt % 60), tz=tz,
                       price=price, rtz=w["rtz"], smin=w["smin"], smax=w["smax"],
                       rcomm=('commodity = "%s"' % w["rc"]) if w["rc"] is not None else "",
                       raccounts=("accounts = %s" % J.toml_list(sel_texts(w, "accounts"))) if sel_texts(w, "accounts") is not None else "",
                       targets=", ".join('"%s"' % t for t in w["targets"]), exports=", ".join('"%s"' % x for x in w["exports"]),
                       bal_acc=acc("bal"), balgrp_acc=acc("grp"), reg_acc=acc("reg"), eq_acc=acc("eq"),
                       reg_ts=', timestamp-style = "%s"' % w["style"], group_by=w["group_by"], eqa=w["eqa"])
    for old, new in zip(("BAL", "BALGRP", "REG"), w["titles"]):
        toml = toml.replace('title = "%s"' % old, 'title = "%s"' % new)
    if t7:
        toml = toml.replace('suffix = "txn"', 'suffix = "%s"' % t7["ext"])
    return toml


def subsets(l):
    out = [[]]
    for x in l:
        out += [s + [x] for s in out]
    return out


def hash_table(w):
    """pre-image (as the model feeds it: code points) -> digest bytes, for every pre-image the run can need: the sorted
    uuids of any subset of the journal's transactions (the selection is the model's business), the configured selectors"""
    if not w["audit"]:
        return "(@nil (list N * list N))"
    pre = set()
    us = [u for u in w["uuids"] if u]
    cand = subsets(us) if ((w["filter"] is not None or (w.get("t07") or {}).get("git") is not None) and len(us) <= 6) else [us]
    for s in cand:
        pre.add("".join(u + "\n" for u in sorted(s)))
    for key in ("bal", "grp", "reg", "eq"):
        names = eff_texts(w, key)
        if names:
            pre.add("".join(p + "\n" for p in sorted(names)))
    return g_list(["(%s, %s)" % (g_str(p), g_bytes(digest(w["hash"], p.encode("utf-8")))) for p in sorted(pre)])


def cfg_term(w):
    flt = "None"
    if w["filter"] is not None:
        pats = []
        t = tree_term(w["filter"], pats)
        flt = "(Some (%s, %s))" % (t, g_list([RX.g_re(p) for p in pats]) if pats else "(@nil re)")
    return ("(mkRunCfg (mkCfg %s %s) %s %s %s %s (mkScale %s %s) %s %s %s %s %s %s %s %s %s %s %s %s %s %s %s %s %s %s %s)"
            % (g_Z(w["jz_min"] * 60), g_Z(w["deftime"] * 10 ** 9), g_bool(w["audit"]), g_str(w["hash"]), g_str(w["rtz"]), g_Z(ZONES[w["rtz"]]),
               g_N(w["smin"]), g_N(w["smax"]),
               g_list([KINDS[t] for t in w["targets"]]) if w["targets"] else "(@nil MetaText.report_kind)",
               g_list([EXPORTS[x] for x in w["exports"]]) if w["exports"] else "(@nil export_kind)",
               g_sel(w["accounts"]), g_sel(w["bal"]), g_sel(w["grp"]), g_sel(w["reg"]), g_sel(w["eq"]),
               GROUP_BYS[w["group_by"]], g_opt(w["rc"], g_str), LOOKUPS[w["lt"]],
               "None" if w["before"] is None else "(Some %s)" % g_Z(ns_of(w["before"])),
               g_str(w["titles"][0]), g_str(w["titles"][1]), g_str(w["titles"][2]), STYLES[w["style"]], g_acct(w["eqa"]), flt,
               g_str("out"), g_str(w["prefix"])))


def g_pats(o):
    return "None" if o is None else "(Some %s)" % (g_list([RX.g_re(tup(p)) for p in o]) if o else "(@nil re)")


def run7_term(w):
    t7 = w["t07"]
    ch = "None"
    if t7.get("charts") is not None:
        c = t7["charts"]
        ch = "(Some (mkChartCfg %s %s %s %s))" % (g_names(c["accounts"]), g_strs(c["comms"]), g_bool(c["permit_empty"]), g_strs(c["tags"]))
    pats = t7.get("pats") or {}
    base = dict(w, accounts=None, bal=None, grp=None, reg=None, eq=None) if t7.get("pats") is not None else w
    return "(mkRun7 %s %s %s %s %s %s %s %s %s)" % (cfg_term(base), g_str(t7["ext"]), g_bool(t7["strict"]), ch,
                                                  g_pats(pats.get("accounts")), g_pats(pats.get("bal")), g_pats(pats.get("grp")),
                                                  g_pats(pats.get("reg")), g_pats(pats.get("eq")))


def g_input_files(w):
    fs = sorted(w["t07"]["files"])
    return g_list(["(%s, %s)" % (g_list([g_str(c) for c in p.split("/")]), g_str(t)) for p, t in fs]) if fs else "(@nil (list (list N) * list N))"


def world_args(w):
    ptext = "(Some %s)" % g_str(w["prices"]) if (w["prices"] is not None and w["price_section"]) else "None"
    if w.get("t07") and w["t07"].get("git") is not None:
        gw, gs = git_terms(w)
        return "%s %s %s %s %s" % (run7_term(w), gw, gs, hash_table(w), ptext)
    if w.get("t07"):
        return "%s %s %s %s" % (run7_term(w), hash_table(w), g_input_files(w), ptext)
    return "%s %s %s %s" % (cfg_term(w), hash_table(w), g_str(w["journal"]), ptext)


# ---------------------------------------------------------------- Git storage worlds
GENV = dict(os.environ, GIT_AUTHOR_NAME="v", GIT_AUTHOR_EMAIL="v@v", GIT_COMMITTER_NAME="v", GIT_COMMITTER_EMAIL="v@v",
            GIT_AUTHOR_DATE="2024-05-01T00:00:00Z", GIT_COMMITTER_DATE="2024-05-01T00:00:00Z", GIT_CONFIG_GLOBAL="/dev/null", GIT_CONFIG_NOSYSTEM="1")


def git(args, cwd, inp=None):
    import subprocess
    p = subprocess.run(["git"] + args, cwd=cwd, env=GENV, capture_output=True, input=inp)
    if p.returncode != 0:
        raise Infra("git %s failed: %s" % (args, p.stderr.decode("utf-8", "replace")))
    return p.stdout.decode("utf-8", "replace")


def build_git(w, d):
    """the repository of a Git world, made with the git command line; records what git says: commit ids, trees (mode, blob id, path),
    stored messages and their titles (gix message().title, transcribed in gen/t04_text.py)"""
    from t04_text import gix_title
    g = w["t07"]["git"]
    repo = os.path.join(d, "repo")
    os.makedirs(repo)
    git(["init", "-q", "-b", "main", "."], repo)
    shas, trees, titles = [], [], []
    for i, cm in enumerate(g["commits"]):
        for f in os.listdir(repo):
            if f != ".git":
                fp = os.path.join(repo, f)
                shutil.rmtree(fp) if os.path.isdir(fp) else os.remove(fp)
        for path, text, ex in cm["files"]:
            fp = os.path.join(repo, *path.split("/"))
            os.makedirs(os.path.dirname(fp), exist_ok=True)
            if ex == "link":
                os.symlink(text, fp)
                continue
            open(fp, "w", encoding="utf-8", newline="").write(text)
            if ex:
                os.chmod(fp, 0o755)
        git(["add", "-A"], repo)
        git(["commit", "-q", "--cleanup=verbatim", "--allow-empty-message", "--allow-empty", "-F", "-"], repo, inp=cm["message"].encode("utf-8"))
        sha = git(["rev-parse", "HEAD"], repo).strip()
        if i == 0:
            git(["branch", "old", sha], repo)
            git(["tag", "v1", sha], repo)
            git(["tag", "-a", "rel", "-m", "annotated", sha], repo)
        shas.append(sha)
        tree = []
        for l in git(["ls-tree", "-r", "-z", sha], repo).split("\0"):
            if l:
                meta, path = l.split("\t", 1)
                mode, typ, oid = meta.split()
                tree.append([mode, oid, path])
        trees.append(tree)
        titles.append(gix_title(cm["message"].encode("utf-8")).decode("utf-8", "replace"))
    g["built"] = {"shas": shas, "trees": trees, "titles": titles}
    return repo


def git_selected(w):
    """(index of the selected commit, option name, option value) of a built Git world"""
    g = w["t07"]["git"]
    shas = g["built"]["shas"]
    kind, val = g["sel"]
    if kind == "ref":
        return (len(shas) - 1 if val in ("main", "HEAD") else 0), "--input.git.ref", val
    i = val["index"] if val["index"] < len(shas) else len(shas) - 1
    return i, ("--input.git.commit" if kind == "commit" else "--input.git.ref"), shas[i][:val["len"]]


def git_terms(w):
    """the Gallina terms git_world and git_sel of a built Git world"""
    g = w["t07"]["git"]
    b = g["built"]
    ext = w["t07"]["ext"]
    oids, blobs = {}, []
    commits = []
    for i, tree in enumerate(b["trees"]):
        text_of = {p: t for p, t, ex in g["commits"][i]["files"]}
        ents = []
        for mode, oid, path in tree:
            if oid not in oids:
                oids[oid] = len(oids)
                if py_has_ext(ext, path.split("/")[-1]) and mode != "120000":
                    blobs.append("(%s, %s)" % (g_N(oids[oid]), g_str(text_of.get(path, ""))))
            kd = {"100644": "Store.Blob", "100755": "Store.BlobExec", "120000": "Store.Link"}.get(mode, "Store.Other")
            ents.append("(Store.mkEntry %s %s %s)" % (g_list([g_str(c) for c in path.split("/")]), kd, g_N(oids[oid])))
        commits.append("(%s, %s)" % (g_N(i), g_list(ents) if ents else "(@nil Store.entry)"))
    idx, opt, val = git_selected(w)
    last = len(b["shas"]) - 1
    refs = [("main", last), ("HEAD", last), ("v1", 0), ("old", 0), ("rel", 0)]
    if opt == "--input.git.ref" and val not in [r[0] for r in refs]:
        refs.append((val, idx))                      # a (prefix of a) commit id given as a reference: resolved by git
    gw = "(mkGitWorld (Store.mkRepo %s %s) %s %s %s)" % (
        g_list(commits), g_list(["(%s, %s)" % (g_str(n), g_N(i)) for n, i in refs]),
        g_list(blobs) if blobs else "(@nil (N * list N))",
        g_list(["(%s, %s)" % (g_N(i), g_str(s)) for i, s in enumerate(b["shas"])]),
        g_list(["(%s, %s)" % (g_N(i), g_str(t)) for i, t in enumerate(b["titles"])]))
    sel = "(Store.ByCommit %s)" % g_N(idx) if opt == "--input.git.commit" else "(Store.ByRef %s)" % g_str(val)
    dcomps = g_list([g_str(c) for c in g["dir"].split("/")]) if g["dir"] else "(@nil (list N))"
    gs = "(mkGitSel %s %s %s %s)" % (sel, g_str(val), dcomps, g_str(g["dir"]))
    return gw, gs


# ---------------------------------------------------------------- the binary
def run_world(w, root):
    d = os.path.join(root, "w%s" % w["idx"])
    os.makedirs(d)
    open(os.path.join(d, "tackler.toml"), "w", encoding="utf-8").write(toml_of(w))
    if w["prices"] is not None:
        open(os.path.join(d, "prices.db"), "w", encoding="utf-8", newline="").write(w["prices"])
    t7 = w.get("t07")
    if t7 and t7.get("git") is not None:
        build_git(w, d)
        cf = charts_files(w)
        if cf:
            for nm, text in zip(("accounts.toml", "commodities.toml", "tags.toml"), cf):
                open(os.path.join(d, nm), "w", encoding="utf-8").write(text)
        idx, opt, val = git_selected(w)
        toml = toml_of(w).replace('input = { storage = "fs", fs = { dir = "txns", suffix = "%s" } }' % t7["ext"],
                                  'input = { storage = "git", fs = { dir = "txns", suffix = "txn" }, git = { repo = "repo", ref = "main", dir = "%s", suffix = "%s" } }'
                                  % (t7["git"]["dir"], t7["ext"]))
        open(os.path.join(d, "tackler.toml"), "w", encoding="utf-8").write(toml)
        args = ["--config", "tackler.toml", opt, val]
    elif t7:
        # directory input: every file below <config dir>/txns; the suffix from the configuration file or from the command line
        for p, text in t7["files"]:
            fp = os.path.join(d, "txns", *p.split("/"))
            os.makedirs(os.path.dirname(fp), exist_ok=True)
            open(fp, "w", encoding="utf-8", newline="").write(text)
        os.makedirs(os.path.join(d, "txns"), exist_ok=True)
        cf = charts_files(w)
        if cf:
            for nm, text in zip(("accounts.toml", "commodities.toml", "tags.toml"), cf):
                open(os.path.join(d, nm), "w", encoding="utf-8").write(text)
        args = ["--config", "tackler.toml"] + (["--input.fs.dir", "txns", "--input.fs.ext", t7["ext"]] if t7.get("cli_input") else [])
    else:
        open(os.path.join(d, "j.txn"), "w", encoding="utf-8", newline="").write(w["journal"])
        args = ["--config", "tackler.toml", "--input.file", "j.txn"]
    if w["filter"] is not None:
        args += ["--api-filter-def", filter_cli_text(w)]
    if w["before"] is not None:
        args += ["--price.before", w["before"]]
    if w["mode"] == "files":
        os.makedirs(os.path.join(d, "out"))
        args += ["--output.dir", "out", "--output.prefix", w["prefix"]]
    so = os.path.join(d, "stdout.txt")
    rc, _, se = run_cli(args, cwd=d, stdout_path=so, timeout=60)
    out = open(so, "rb").read().decode("utf-8", "replace")
    files = {}
    if w["mode"] == "files":
        for f in sorted(os.listdir(os.path.join(d, "out"))):
            files[f] = open(os.path.join(d, "out", f), "rb").read().decode("utf-8", "replace")
    w["impl"] = {"rc": rc, "stdout": out, "files": files, "stderr": se[-400:]}
    shutil.rmtree(d, ignore_errors=True)
    return w


# ---------------------------------------------------------------- oracles that need no model (files mode)
STAR_LINE = "*" * 82 + "\n"


def md_block_oracle(w, ref_stdout):
    """every report file of ONE run begins with the metadata block of the transaction set, the block the same run prints once on top in
    console mode; with audit mode on it shows `Txn Set Checksum`, the configured algorithm with the hashlib digest of the sorted uuids of
    a selection of the journal's transactions of the shown size, and `Set size`.  -> (violation text, details) or None"""
    im = w["impl"]
    names = ["%s.%s" % (w["prefix"], KIND_FILE[t]) for t in w["targets"]]
    files = [(n, im["files"].get(n)) for n in names]
    if any(c is None for _, c in files):
        return "a report file announced for the run does not exist: %s" % [n for n, c in files if c is None], {}
    is_git = (w.get("t07") or {}).get("git") is not None
    has_md = w["audit"] or w["filter"] is not None or is_git
    first = "Git Storage" if is_git else "Txn Set Checksum" if w["audit"] else "Filter"
    us = [u for u in w["uuids"] if u]
    for k, (n, c) in enumerate(files):
        if has_md and not c.startswith(first + "\n"):
            return ("file mode: report file %s (%s report file of the run, %d in all) does not begin with the metadata block of the transaction set "
                    "(expected first line %r: %s)" % (n, ["first", "second", "third"][k], len(files), first,
                                                      "audit mode is on" if w["audit"] else "a filter was applied")), {"file": n, "file_begin": c[:400]}
        if w["audit"]:
            m = re.search(r"^Txn Set Checksum\n *(\S+) : ([0-9a-f]+)\n *Set size : (\d+)\n", c, re.M)
            if not m:
                return "file mode: the Txn Set Checksum item of %s does not have the shape <algorithm> : <hex> / Set size : <n>" % n, {"file_begin": c[:400]}
            size = int(m.group(3))
            cand = [sub for sub in (subsets(us) if (w["filter"] is not None or is_git) else [us]) if len(sub) == size]
            hexes = {digest(w["hash"], "".join(u + "\n" for u in sorted(sub)).encode()).hex() for sub in cand}
            if m.group(1) != w["hash"] or m.group(2) not in hexes:
                return ("file mode: the Txn Set Checksum of %s (%s : %s, size %d) is not the %s digest of the sorted uuids of %s"
                        % (n, m.group(1), m.group(2), size, w["hash"],
                           "any selection of that size" if w["filter"] is not None else "the journal's %d transactions" % len(us))), {"file_begin": c[:400]}
        title = w["titles"][KIND_INDEX[w["targets"][k]]]
        pos = c.find("\n%s\n%s\n" % (title, "-" * len(title)))
        if w["filter"] is not None and re.search(r"^Filter$", c[:pos] if pos >= 0 else c, re.M) is None:
            return "file mode: a filter was applied but report file %s has no Filter item before its title" % n, {"file": n, "file_begin": c[:600]}
    if ref_stdout is not None and STAR_LINE in ref_stdout:
        block = ref_stdout.split(STAR_LINE, 1)[0]
        if bool(block) != has_md:
            return ("console mode prints %s metadata block although the transaction set has %s metadata" % ("a" if block else "no", "" if has_md else "no")), {"console_begin": ref_stdout[:400]}
        for k, (n, c) in enumerate(files):
            if not c.startswith(block):
                return ("file mode: report file %s (%s of %d report files of the run) does not begin with the metadata block that console mode prints on "
                        "top for the same inputs (every report file carries the block of the set)" % (n, ["first", "second", "third"][k], len(files))), \
                       {"file": n, "file_begin": c[:len(block) + 200], "console_block": block}
    return None


KIND_INDEX = {"balance": 0, "balance-group": 1, "register": 2}


DEFAULT_WARNING = ["   ; WARNING:", "   ; WARNING: The sum of equity transaction is zero without equity account.",
                   "   ; WARNING: Therefore there is no equity posting row, and this is probably not right.",
                   "   ; WARNING: Is the account selector correct for this Equity export?", "   ; WARNING:"]


def canon_equity_warning(text):
    """The WORDING of the comment block which the equity export prints when a commodity's selected balances cancel is not
    something a property speaks about (DESIGN section 13, benign/B3-1): in every transaction of the implementation's export the
    comment lines after the metadata items (each item ends with the empty comment '   ; ') and before the first posting are
    replaced by today's wording; where and whether there is such a block is still compared with the model byte for byte."""
    out, lines, i = [], text.split("\n"), 0
    while i < len(lines):
        out.append(lines[i])
        if lines[i][:1].isdigit():                      # a transaction header
            j = i + 1
            while j < len(lines) and (lines[j] == "   ;" or lines[j].startswith("   ; ")):
                j += 1
            comments = lines[i + 1:j]
            k = max([n + 1 for n, l in enumerate(comments) if l == "   ; "] or [0])
            out += comments[:k] + (DEFAULT_WARNING if comments[k:] else [])
            i = j
            continue
        i += 1
    return "\n".join(out)


def equity_oracle(run, worlds, st):
    """the equity export written in a run (after whatever reports of that run) is loaded again through the harness (load: string) and must
    carry exactly the rows of the harness's own `balance kind=equity prices=false` of the same journal, filter and selector (a session of
    its own, no price conversion configured), plus the balancing posting per commodity with a non-zero sum"""
    from collections import Counter
    from t04_text import dec_frac
    pick = [w for w in worlds if w["mode"] == "files" and w["impl"]["rc"] == 0 and "equity" in w["exports"]
            and ("%s.equity.txn" % w["prefix"]) in w["impl"]["files"]]
    if not pick:
        return
    harness_build()
    reqs = []
    for w in pick:
        plain = dict(w, rc=None, lt="none", before=None, price_section=False, prices=None)
        conf = {"toml": toml_of(plain)}
        cf = charts_files(w)
        if cf:
            conf.update({"accounts": cf[0], "commodities": cf[1], "tags": cf[2]})
        inputs = [{"text": "\n".join(journal_texts(w))}]          # load: string takes one text: the files separated by an empty line
        rq = {"conf": conf, "overlaps": {}, "inputs": inputs,
              "ops": [{"op": "balance", "kind": "equity", "prices": False, "ras": eff_texts(w, "eq")}]}
        if w["filter"] is not None:
            rq["filter"] = filter_arg(w)
        reqs.append(rq)
        reqs.append({"conf": {"toml": J.make_toml()}, "inputs": [{"text": w["impl"]["files"]["%s.equity.txn" % w["prefix"]]}], "ops": [{"op": "txns"}]})
    res = harness_run(reqs)
    for i, w in enumerate(pick):
        ref, rel = res[2 * i], res[2 * i + 1]
        text = w["impl"]["files"]["%s.equity.txn" % w["prefix"]]
        if not ref or ref.get("stage") != "done" or "ok" not in ref["results"][0]:
            st["equity_reference_failed"] = st.get("equity_reference_failed", 0) + 1
            st.setdefault("equity_reference_errors", []).append(("%s: %s" % ((ref or {}).get("stage"), (ref or {}).get("err")))[:160])
            continue
        st["equity_reloaded"] = st.get("equity_reloaded", 0) + 1
        conv = w["rc"] is not None and w["lt"] != "none"
        if conv and "balance" in w["targets"]:
            st["equity_after_converted_balance"] = st.get("equity_after_converted_balance", 0) + 1
        exp, sums = Counter(), {}
        for row in ref["results"][0]["ok"]["rows"]:
            v = dec_frac(row["own"])
            exp[(row["acc"], row["comm"], v)] += 1
            sums[row["comm"]] = sums.get(row["comm"], 0) + v
        for comm, v in sums.items():
            if v != 0:
                exp[(w["eqa"], comm, -v)] += 1
        got, why = Counter(), None
        if text == "":
            pass
        elif not rel or rel.get("stage") != "done" or "ok" not in rel["results"][0]:
            why = "does not load again (stage %s: %s)" % ((rel or {}).get("stage"), ((rel or {}).get("err") or "")[:160].replace("\n", " "))
        else:
            got = Counter((p["acc"], p["comm"], dec_frac(p["amount"])) for t in rel["results"][0]["ok"] for p in t["posts"])
        if why is None and got != exp:
            why = "does not carry the unconverted balances"
        if why:
            st["equity_oracle_failed"] = st.get("equity_oracle_failed", 0) + 1
            rep = replay_obj(w)
            rep.update({"equity_export": text, "reloaded_postings": sorted((a, k, str(v)) for (a, k, v) in got.elements()),
                        "expected_postings_from_unconverted_equity_balance": sorted((a, k, str(v)) for (a, k, v) in exp.elements()),
                        "price_conversion_active": conv, "report_targets_written_before": w["targets"]})
            run.violation("equity export written in the same run as %s %s: its postings, loaded again, are not the rows of the equity balance "
                          "(balance kind=equity prices=false of the same journal, filter and selector) plus the balancing postings"
                          % ("a converted balance report" if conv and "balance" in w["targets"] else "reports %s" % w["targets"], why), rep)


def journal_texts(w):
    """the texts of the journal files the run reads (independent of the model): the file, the files of the directory with the suffix,
    the regular files of the selected commit below the configured directory with the suffix"""
    t7 = w.get("t07")
    if not t7:
        return [w["journal"]]
    if t7.get("git") is not None:
        g = t7["git"]
        idx = git_selected(w)[0]
        pre = (g["dir"].rstrip("/") + "/") if g["dir"] else ""
        return [t for p, t, ex in sorted(g["commits"][idx]["files"]) if ex != "link" and p.startswith(pre) and py_has_ext(t7["ext"], p.split("/")[-1])]
    return [t for p, t in sorted(t7["files"]) if py_has_ext(t7["ext"], p.split("/")[-1])]


def py_has_ext(ext, name):
    """std::path::Path::extension(name) == ext: the part after the last dot; a leading dot does not count"""
    stem = name[1:] if name.startswith(".") else name
    return "." in stem and stem.rsplit(".", 1)[1] == ext


def python_oracles(run, worlds, st, root):
    """before the model is consulted at all: plain violations with the concrete world"""
    pick = [w for w in worlds if w["mode"] == "files" and w["impl"]["rc"] == 0 and w["targets"]]
    refs = {}
    if pick:
        with ThreadPoolExecutor(max_workers=NPROC) as ex:
            for w, cw in zip(pick, ex.map(lambda w: run_world(dict(w, mode="console", idx="%sc" % w["idx"]), root), pick)):
                refs[w["idx"]] = cw["impl"]["stdout"] if cw["impl"]["rc"] == 0 else None
    for w in pick:
        st["report_file_runs_checked"] = st.get("report_file_runs_checked", 0) + 1
        if len(w["targets"]) >= 2 and (w["audit"] or w["filter"] is not None):
            st["runs_with_metadata_and_several_report_files"] = st.get("runs_with_metadata_and_several_report_files", 0) + 1
        v = md_block_oracle(w, refs.get(w["idx"]))
        if v:
            st["metadata_oracle_failed"] = st.get("metadata_oracle_failed", 0) + 1
            rep = replay_obj(w)
            rep.update(v[1])
            rep["console_mode_stdout_of_the_same_inputs"] = refs.get(w["idx"])
            run.violation(v[0], rep)
    equity_oracle(run, worlds, st)


def case_term(w):
    im = w["impl"]
    v = "t07g" if (w.get("t07") or {}).get("git") is not None else "t07" if w.get("t07") else "t06"
    fl = (g_list(["(%s, %s)" % (g_str(n), g_str(canon_equity_warning(c) if n.endswith(".equity.txn") else c)) for n, c in im["files"].items()])
          if im["files"] else "(@nil (list N * list N))")
    if is_ft(w):     # the filter as the text of --api-filter-def: T08_filter.run_console_ft / run_files_ft
        if w["mode"] == "console":
            return "t08_console_ft_case %s %s %s" % (ft_args(w), g_bool(im["rc"] == 0), g_str(im["stdout"]))
        return "t08_files_ft_case %s %s %s %s" % (ft_args(w), g_bool(im["rc"] == 0), fl, g_str(im["stdout"]))
    if w["mode"] == "console":
        return "%s_console_case %s %s %s" % (v, world_args(w), g_bool(im["rc"] == 0), g_str(im["stdout"]))
    return "%s_files_case %s %s %s %s" % (v, world_args(w), g_bool(im["rc"] == 0), fl, g_str(im["stdout"]))


def replay_obj(w):
    keys = ("mode", "journal", "prices", "price_section", "jz_min", "deftime", "audit", "hash", "rtz", "smin", "smax", "targets", "exports", "accounts",
            "bal", "grp", "reg", "eq", "group_by", "rc", "lt", "before", "titles", "style", "eqa", "filter", "fenc", "prefix", "uuids", "break", "layout", "profile", "t07")
    rep = {"world": {k: w.get(k) for k in keys}, "config_file": toml_of(w), "src": w.get("src"),
           "command_line": (["--api-filter-def", filter_cli_text(w)] if w["filter"] is not None else [])
           + (["--price.before", w["before"]] if w["before"] is not None else [])
           + (["--output.dir", "out", "--output.prefix", w["prefix"]] if w["mode"] == "files" else [])}
    if "impl" in w:
        rep.update({"exit_status": w["impl"]["rc"], "stderr": w["impl"]["stderr"], "implementation_stdout": w["impl"]["stdout"]})
        if w["mode"] == "files":
            rep["implementation_files"] = w["impl"]["files"]
    return rep


def new_stats():
    return {"worlds": 0, "console": 0, "files": 0, "succeeded": 0, "failed_runs": 0, "failed_by_kind": {}, "outside_domain": 0,
            "theorem_hypotheses_hold": 0, "compared_ok": 0, "different": 0, "oracle_failed": 0, "characters": 0, "report_files": 0,
            "export_files": 0, "audit": 0, "filtered": 0, "converted": 0, "targets": {}, "zones": {}, "lookups": {}, "panics": 0}


def check_worlds(run, worlds, st, distinct=None):
    cli_build()
    root = os.path.join(CACHE, "t06-%s-%d" % (run.prop, os.getpid()))
    shutil.rmtree(root, ignore_errors=True)
    os.makedirs(root)
    try:
        with ThreadPoolExecutor(max_workers=NPROC) as ex:
            worlds = list(ex.map(lambda w: run_world(w, root), worlds))
        python_oracles(run, worlds, st, root)
    finally:
        shutil.rmtree(root, ignore_errors=True)
    terms = [case_term(w) for w in worlds]
    ok, log = coq_make(["corr/T08_corr.vo"])      # the case functions of the worlds whose filter is given as text (with model/T08_filter.vo)
    if not ok:
        raise Infra("coq build of corr/T08_corr.vo failed:\n%s" % log[-3000:])
    vals, errs = coq_eval("T06-%s" % run.prop, IMPORTS, terms, timeout=1500)
    if errs:
        raise Infra("coq evaluation failed: " + errs[0])
    bad = []
    for w, v in zip(worlds, vals):
        n = as_N(v)
        if n is None:
            raise Infra("no result for T06 world %s (%s)" % (w["idx"], w.get("src")))
        im = w["impl"]
        st["worlds"] += 1
        st[w["mode"]] += 1
        st["audit"] += 1 if w["audit"] else 0
        st["filtered"] += 1 if w["filter"] is not None else 0
        if is_ft(w):
            fk = "filter_armored" if w["fenc"] == "armor" else "filter_malformed"
            st[fk] = st.get(fk, 0) + 1
            if w["fenc"] != "armor":
                st["filter_malformed_refused"] = st.get("filter_malformed_refused", 0) + (1 if (im["rc"] == 1 and not im["stdout"] and not im["files"]) else 0)
        st["converted"] += 1 if (w["rc"] is not None and w["lt"] != "none") else 0
        st["lookups"][w["lt"]] = st["lookups"].get(w["lt"], 0) + 1
        st["zones"][w["rtz"]] = st["zones"].get(w["rtz"], 0) + 1
        if w.get("t07"):
            t7 = w["t07"]
            st["t07_worlds"] = st.get("t07_worlds", 0) + 1
            d = st.setdefault("t07", {})
            nsel = len([f for f in t7["files"] if py_has_ext(t7["ext"], f[0].split("/")[-1])])
            for key, on in (("several_journal_files", nsel > 1), ("files_not_to_be_read", nsel < len(t7["files"])), ("charts", t7.get("charts") is not None),
                            ("strict", t7["strict"]), ("strict_run_succeeded", t7["strict"] and im["rc"] == 0), ("strict_run_refused", t7["strict"] and im["rc"] != 0),
                            ("pattern_selectors", t7.get("pats") is not None), ("input_from_command_line", bool(t7.get("cli_input"))),
                            ("git_storage", t7.get("git") is not None), ("git_run_succeeded", t7.get("git") is not None and im["rc"] == 0),
                            ("git_by_commit_id", t7.get("git") is not None and t7["git"]["sel"][0] == "commit"),
                            ("git_older_commit_selected", t7.get("git") is not None and git_selected(w)[0] == 0)):
                if on:
                    d[key] = d.get(key, 0) + 1
        tk = ",".join(w["targets"]) or "(none)"
        st["targets"][tk] = st["targets"].get(tk, 0) + 1
        if im["rc"] == 0:
            st["succeeded"] += 1
            st["characters"] += len(im["stdout"]) + sum(len(c) for c in im["files"].values())
            st["report_files"] += sum(1 for f in im["files"] if f.endswith(".txt"))
            st["export_files"] += sum(1 for f in im["files"] if f.endswith(".txn"))
            if distinct is not None:
                distinct.add(hashlib.sha256((im["stdout"] + "\0".join(im["files"].values())).encode()).hexdigest())
        else:
            st["failed_runs"] += 1
            k = w.get("break") or ("bad-filter-def" if (is_ft(w) and w["fenc"] in FENC_BAD) else "other")
            st["failed_by_kind"][k] = st["failed_by_kind"].get(k, 0) + 1
        if im["rc"] not in (0, 1) or "panicked" in im["stderr"]:
            st["panics"] += 1
            rep = replay_obj(w)
            run.violation("the tackler binary panicked or was killed (exit status %s) on a T06 world" % im["rc"], rep)
            continue
        if not (n & 4):
            st["outside_domain"] += 1
            continue
        if n & 8:
            st["theorem_hypotheses_hold"] += 1
        if not (n & 2):
            st["oracle_failed"] += 1
            rep = replay_obj(w)
            rep["oracle"] = ("T05_spec.balance_text_ok / register_text_ok, ReportText_spec.grp_text_ok on every embedded report; identity export "
                            "re-loaded (T06_spec.console_oracle / T06_corr.files_oracle)")
            run.violation("a report printed by the tackler binary does not show the exact (converted) sums of the journal's transactions rounded "
                          "half away from zero (figure oracle of T05/T01 failed on the embedded report), or the identity export does not load "
                          "back to the transaction set", rep)
        if n & 1:
            st["compared_ok"] += 1
        else:
            st["different"] += 1
            bad.append((w, n >> 4))
    # the model's texts for the differing worlds (second evaluation, only then)
    if bad:
        mterms = [("t08_%s_ft_model %s" % ("console" if w["mode"] == "console" else "files", ft_args(w))) if is_ft(w) else
                  ("%s_%s_model %s" % ("t07g" if (w.get("t07") or {}).get("git") is not None else "t07" if w.get("t07") else "t06",
                                       "console" if w["mode"] == "console" else "files", world_args(w))) for w, _ in bad[:5]]
        mvals, merrs = coq_eval("T06-%s-model" % run.prop, IMPORTS, mterms, timeout=900)
        for (w, d), mv in zip(bad[:5], mvals or [None] * 5):
            rep = replay_obj(w)
            rep["correspondence"] = ("T07_corr.t07_%s_case" if w.get("t07") else "T06_corr.t06_%s_case") % ("console" if w["mode"] == "console" else "files")
            if w["mode"] == "console":
                mt = parse_lists(mv)[0] if mv and parse_lists(mv) else None
                rep.update({"first_differing_character": d - 1, "model_stdout": mt,
                            "implementation_around": w["impl"]["stdout"][max(0, d - 61):d + 20], "model_around": (mt or "")[max(0, d - 61):d + 20]})
            else:
                ls = parse_lists(mv) if mv else []
                rep.update({"first_differing_file_index_plus_1": d, "model_files": dict(zip(ls[0:-1:2], ls[1:-1:2])) if ls else None,
                            "model_stdout": ls[-1] if ls else None})
            run.cov["disagreements_checked"] += 1
            run.violation("correspondence broken: T06 run model differs from the binary (%s mode: exit status %s; model evaluated by "
                          "T06_run.%s)" % (w["mode"], w["impl"]["rc"], "run_console" if w["mode"] == "console" else "run_files"),
                          rep, found_input=False)
    return worlds


# ---------------------------------------------------------------- corpus and stage
def corpus_worlds(which=("T06", "T07")):
    out = []
    for prop in which:
        d = os.path.join(VERIF, "corpus", prop)
        if os.path.isdir(d):
            for f in sorted(os.listdir(d)):
                if f.endswith(".json"):
                    for i, w in enumerate(json.load(open(os.path.join(d, f), encoding="utf-8"))["worlds"]):
                        w = dict(w)
                        w["src"] = "%s/%s#%d" % (prop, f, i)
                        out.append(w)
    return out


def run_stage(run, n=None):
    if n is None:
        n = 140 if run.tier == "quick" else 1500
    if run.prop != "T06":
        # run as an extra stage of another check: the theorems of the extension must still build
        ok, log = coq_make(["props/T06.vo", "props/T07.vo", "corr/T06_corr.vo", "corr/T07_corr.vo"])
        if not ok:
            run.violation("proof obligation does not check: props/T06.v / props/T07.v (whole-run model) failed to build",
                          {"theorem_file": "coq/props/T06.v, coq/props/T07.v", "log": log[-2000:]}, found_input=False)
            return {"skipped": "props/T06.v / T07.v do not build"}
    r = run.rng
    if run.prop == "T07":
        # ./check T07: the T07 corpus and T07 profile worlds only
        worlds = corpus_worlds(("T07",)) + [gen_world(r, 0, T07_PROFILES[i % len(T07_PROFILES)]) for i in range(n)]
        return finish_stage(run, worlds)
    cw = corpus_worlds(("T06",))
    c7 = corpus_worlds(("T07",))
    worlds = cw + c7 if run.prop == "T06" else cw[:4] + [w for w in cw[4:] if w.get("tag")] + c7[:3]
    # the first four generated worlds and a quarter of the others are profile worlds (files mode: several report files of a set with
    # metadata; equity export after a converted balance report), so that also a small n contains them
    # ... and the eight T07 profiles (directory input, charts / strict mode, pattern selectors, their pairs, Git storage): the next
    # eight generated worlds and 3/8 of the rest
    forced = [PROFILES[0], PROFILES[1], PROFILES[0], PROFILES[1]] + T07_PROFILES
    worlds += [gen_world(r, 0, forced[i] if i < len(forced) else r.choice([None] * 6 + PROFILES * 2 + T07_PROFILES)) for i in range(n)]
    return finish_stage(run, worlds)


def finish_stage(run, worlds):
    for i, w in enumerate(worlds):
        w["idx"] = i
    st = new_stats()
    distinct = set()
    worlds = check_worlds(run, worlds, st, distinct)
    st["distinct_outputs"] = len(distinct)
    for w in worlds:
        if w["impl"]["rc"] == 0 and w["targets"] and "sample" not in st:
            st["sample"] = {"mode": w["mode"], "targets": w["targets"], "audit": w["audit"], "filter": w["filter"], "lookup": w["lt"],
                            "report_zone": w["rtz"], "journal": w["journal"][:300], "stdout_begin": w["impl"]["stdout"][:300]}
            break
    run.notes["whole_run_T06"] = {k: v for k, v in st.items() if k != "sample"}
    if run.prop not in ("T06", "T07"):
        run.cov["evaluations"] += st["worlds"]
    return st
