# T04 (extension) — the metadata TEXT block that precedes every report, byte for byte.
# run_text_stage(run, n=None) is the stage of ./check T04 and an extra stage of the C09 and C05 checks:
# sessions with varied audit / hash / filter / git input / report time zone / price conversion /
# account selector settings are run through the harness; per session
#   * the metadata text of the transaction set (op "metadata", Metadata::text) is compared character by
#     character with MetaText.meta_text (MetaText.make_items ..)                     (T04_corr.t04_md_case)
#   * the head of the balance / balance-group / register report text (ops text_*: everything up to and
#     including the title line) with MetaText.report_head                            (t04_head_case)
#   * the comment block of the first equity transaction (op equity) with MetaText.equity_md (t04_equity_case)
# The values inside the items never come from the text under test: the digest is hashlib over the
# sorted lower-case uuids of the structured transaction dump (op txns) / the configured selector
# patterns, the commit id and message are read with the git CLI, the filter description is
# Codec.describe_def of the filter that was sent, price records come from the structured dump
# (ops pricectx / pricedb) and Python's zoneinfo.
# A text difference is a broken correspondence (no-failing-input-found); an ORACLE failure — the
# implementation's text, read by the independent reader of MetaText_spec.v, is not exactly the expected
# items (checksum line without the recomputed hash, item missing although audit is on, stale size
# after filtering ...) — is a plain violation with the concrete input.
import json, os, re, hashlib, shutil, subprocess, datetime
from common import *
import journal as J

IMPORTS = ("From TkModel Require Import Base Dec MetaText.\nFrom TkModel Require Audit Codec.\n"
           "From TkSpec Require Import MetaText_spec.\nFrom TkCorr Require Import T04_corr.\n")

HASHES = {"SHA-256": "sha256", "SHA-512": "sha512", "SHA-512/256": "sha512_256",
          "SHA3-256": "sha3_256", "SHA3-512": "sha3_512"}
ZONES = ["UTC", "UTC", "Europe/Helsinki", "America/New_York", "Asia/Tokyo", "Asia/Kolkata", "Etc/GMT-14", "America/St_Johns",
         "Pacific/Chatham"]
SEL_PATTERNS = ["a", "a:.*", "^a.*$", "^(?:a)$", "^(?:a:b)$", ".*", "b|a", "(a|b)(:.*)?", "é.*", "€uro", "Assets:.*", "[a-c]+",
                "a\\.b", "e", "a ", "", "e.*", "x y : z", "~"]
GIT_MESSAGES = ["initial\n", "  padded title  \n", "subject\n\nbody\n", "€uro sign ☃ commit\n", "\ttab start\tand inside\t\n", "no trailing newline", "",
                "trailing blanks   \n\n\nbody", "crlf title\r\n\r\nbody\r\n", "\n\nleading blank lines\n", "nbsp end\u00a0\n", "x\n", " : \n",
                "FIXED by commit\n", "Txn Set Checksum\n", "\u2003em space both\u2003\n", "nel\u0085inside and after\u0085\n",
                "ls\u2028inside\u2028\n", "\u2028\u0085 \t lead and trail \u0085\u2028\n", "vt\x0bff\x0cinside\n", "   \n"]
# subjects of more than one line (finding F26, repaired by GitInputReference::one_line): LF, lone CR, CRLF inside the title, blank
# padded continuation lines, the one-character-line quirk of gix (title = whole message), and the three witnesses of the finding
MULTI_LINE_MESSAGES = ["two\nlines\n",
                       "m\n a  5\n b  -5\n \n\n2024-01-02 'injected\n",
                       "fix\nx\n\nTxn Set Checksum\n        SHA-256 : 0000000000000000000000000000000000000000000000000000000000000000\n       Set size : 99\n",
                       "title line one\ncontinued title\n\nbody text\n", "ab\nc\n\nd\n", "a\n\nFilter\n  All pass\n", "lone\rcr\rinside\n",
                       "crlf\r\ninside title\r\n\r\nbody\r\n", "  first  \n\t second \t\n   \n", "a\n \n\nGit Storage\n         commit : 0000\n",
                       "one\n\u0085\ntwo\n", "x\ny\n\n\n 2024-01-01 'z\n a  1\n b  -1\n", "cr only\r", "t\n\r\n\rmixed\n"]
GENV = dict(os.environ, GIT_AUTHOR_NAME="v", GIT_AUTHOR_EMAIL="v@v", GIT_COMMITTER_NAME="v", GIT_COMMITTER_EMAIL="v@v",
            GIT_CONFIG_GLOBAL="/dev/null", GIT_CONFIG_SYSTEM="/dev/null", GIT_AUTHOR_DATE="2024-01-01T00:00:00Z",
            GIT_COMMITTER_DATE="2024-01-01T00:00:00Z")
KINDS = [("text_balance", "RBalance", "BAL", "bal"), ("text_balgrp", "RBalGroup", "BALGRP", "balgrp"),
         ("text_register", "RRegister", "REG", "reg")]
CPREFIX = "   ; "
# Rust char::is_whitespace
RUST_WS = set([9, 10, 11, 12, 13, 32, 0x85, 0xA0, 0x1680, 0x2028, 0x2029, 0x202F, 0x205F, 0x3000] + list(range(0x2000, 0x200B)))

RULE = ("corpus/T04 + seeded sessions: audit on in 60% (five algorithms), transaction filter in 55% (depth<=2 trees over true/false/"
        "description/code/tags/comments/uuid/time begin+end (UTC zone only)/posting account, comment, commodity, amount/bounding box; "
        "patterns with blanks, quotes, ' : ', an inner newline, an inner empty line), git input in 35% (one repository per case built "
        "with the git CLI, commit messages stored verbatim: padded, multi-line title, body, CRLF, empty, non-ASCII, leading blank lines, "
        "tabs, U+0085 / U+2028 / VT / FF inside and at the ends, texts that spell labels of the block; 40% of them with a subject of SEVERAL lines "
        "(LF, lone CR, CRLF, a one-character line before the empty line so that gix takes the whole message as title, the three witnesses of finding F26); selected by "
        "branch / lightweight / annotated tag / main / full / abbreviated commit id / a reference that is a prefix of the id; later commit "
        "present in 40%), nine report zones, price conversion configured in 45% (last-price / given-time / txn-time, fractional-second "
        "entries, inverse pairs), account selectors none / command line / per report (0-3 patterns incl. empty, non-ASCII, wrapped); "
        "1-7 transactions with mixed-case uuids. Per session: the set's metadata text vs MetaText.meta_text(make_items), the heads of the "
        "balance / balance-group / register texts vs MetaText.report_head, the comment block of the equity export vs MetaText.equity_md; "
        "digest from hashlib over the uuids of the structured dump and over the configured patterns, commit id and message from the git "
        "CLI, price records from the structured dump + zoneinfo; the implementation's texts must also read back (MetaText_spec.read_meta / "
        "read_head) as exactly the expected items; regression of F26 checked without the model: the git item is exactly six lines followed by the "
        "next expected item, and the equity export of every git session loads again to exactly the rows of the equity balance; non-trivial = non-empty text; distinct = distinct metadata texts and report heads")


def digest(name, data):
    return hashlib.new(HASHES[name], data).digest()


def g_bytes(b):
    return "[" + "; ".join("%d" % x for x in b) + "]%N" if b else "(@nil N)"


def g_strs(l):
    return g_list([g_str(x) for x in l]) if l else "(@nil (list N))"


def rust_trim(s):
    a, b = 0, len(s)
    while a < b and ord(s[a]) in RUST_WS:
        a += 1
    while b > a and ord(s[b - 1]) in RUST_WS:
        b -= 1
    return s[a:b]


def rust_one_line(s):
    """GitInputReference::one_line: split at LF and CR, Unicode-trim every piece, drop the empty ones, join with one blank"""
    return " ".join(p for p in (rust_trim(x) for x in re.split("[\n\r]", s)) if p != "")


def gix_title(m):
    """gix-object commit::message::decode::subject_and_body, transcribed: the title is the message up to the first
    (newline, newline) found directly after a run of non-newline bytes at which the scan stands; the scan loses one byte
    after every failed attempt (next_token), so a one-character line hides the separator that follows it"""
    n, i = len(m), 0

    def nl(k):
        if m[k:k + 1] == b"\n":
            return k + 1
        if m[k:k + 2] == b"\r\n":
            return k + 2
        return None
    while i < n:
        j = i
        while j < n and m[j] not in (10, 13):
            j += 1
        if j > i:
            i = j
            consumed = i
            k1 = nl(i)
            if k1 is not None:
                if nl(k1) is not None:
                    return m[:consumed]
                i = k1
        if i < n:
            i += 1
        else:
            break
    return m


# ---------------------------------------------------------------- filters: JSON and the Codec.cfilter term
def wrap(p):
    return "^(?:" + p + ")$"


def ns_of(text):
    d = datetime.datetime.strptime(text, "%Y-%m-%dT%H:%M:%SZ").replace(tzinfo=datetime.timezone.utc)
    return int(d.timestamp()) * 10 ** 9


def gen_filter(r, depth, allow_ts, uuids):
    """-> (json value, Gallina term of type Codec.cfilter, tag)"""
    k = r.random()
    if depth > 0 and k < 0.3:
        op = r.choice(["AND", "OR"])
        subs = [gen_filter(r, depth - 1, allow_ts, uuids) for _ in range(r.choice([0, 1, 2, 2, 3]))]
        return ({"TxnFilter" + op: {"txnFilters": [s[0] for s in subs]}},
                "(Codec.C%s %s)" % ("And" if op == "AND" else "Or", g_list([s[1] for s in subs]) if subs else "(@nil Codec.cfilter)"), op)
    if depth > 0 and k < 0.42:
        s = gen_filter(r, depth - 1, allow_ts, uuids)
        return {"TxnFilterNOT": {"txnFilter": s[0]}}, "(Codec.CNot %s)" % s[1], "NOT"
    leaf = r.choice(["true", "false", "desc", "desc", "code", "tags", "comments", "uuid", "begin", "end", "pacc", "pcomment", "pcomm",
                     "amount", "bbox", "desc-nl"])
    if leaf in ("begin", "end") and not allow_ts:
        leaf = "desc"
    if leaf == "uuid" and not uuids:
        leaf = "true"
    rx = r.choice(["t\\d+ keep", ".*keep", ".*", "a:.*", "é.*", "x|y", "[a-c]+ \"q\"", "", "c1", " : ", "e"])
    if leaf == "true":
        return {"NullaryTRUE": {}}, "Codec.CTrue", leaf
    if leaf == "false":
        return {"NullaryFALSE": {}}, "Codec.CFalse", leaf
    if leaf == "desc-nl":
        rx = r.choice(["t\\d+\nkeep", "a\n\nFilter", "x\n"])
        return {"TxnFilterTxnDescription": {"regex": rx}}, "(Codec.CDesc %s)" % g_str(wrap(rx)), leaf
    one = {"desc": ("TxnFilterTxnDescription", "CDesc"), "code": ("TxnFilterTxnCode", "CCode"), "tags": ("TxnFilterTxnTags", "CTags"),
           "comments": ("TxnFilterTxnComments", "CComments"), "pacc": ("TxnFilterPostingAccount", "CPAccount"),
           "pcomment": ("TxnFilterPostingComment", "CPComment"), "pcomm": ("TxnFilterPostingCommodity", "CPCommodity")}
    if leaf in one:
        return {one[leaf][0]: {"regex": rx}}, "(Codec.%s %s)" % (one[leaf][1], g_str(wrap(rx))), leaf
    if leaf == "uuid":
        u = r.choice(uuids)
        nib = "[" + "; ".join(str(int(ch, 16)) for ch in u.replace("-", "")) + "]%N"
        return {"TxnFilterTxnUUID": {"uuid": u}}, "(Codec.CUuid %s)" % nib, leaf
    if leaf in ("begin", "end"):
        t = r.choice(["2024-01-01T00:00:00Z", "2024-02-10T12:30:45Z", "2023-12-31T23:59:59Z", "2024-06-30T21:00:00Z"])
        if leaf == "begin":
            return {"TxnFilterTxnTSBegin": {"begin": t}}, "(Codec.CTsBegin %s)" % g_Z(ns_of(t)), leaf
        return {"TxnFilterTxnTSEnd": {"end": t}}, "(Codec.CTsEnd %s)" % g_Z(ns_of(t)), leaf
    if leaf == "amount":
        m, s = r.choice([(1, 0), (1250, 2), (-5, 1), (0, 0), (100000, 3)])
        op = r.choice([("Equal", "CPAmountEq"), ("Less", "CPAmountLt"), ("Greater", "CPAmountGt")])
        return ({"TxnFilterPostingAmount" + op[0]: {"regex": rx, "amount": J.dec_str(m, s)}},
                "(Codec.%s %s %s)" % (op[1], g_str(wrap(rx)), g_dec((m, s))), leaf)
    s, w, n, e = r.choice([(59, 24, 61, 26), (-10, -20, 10, 20), (0, 0, 0, 0), (-90, -180, 90, 180)])
    return ({"TxnFilterBBoxLatLon": {"south": s, "west": w, "north": n, "east": e}},
            "(Codec.CBBox %s %s %s %s)" % (g_dec((s, 0)), g_dec((w, 0)), g_dec((n, 0)), g_dec((e, 0))), leaf)


# ---------------------------------------------------------------- sessions
def rand_uuid(r):
    h = "%032x" % r.getrandbits(128)
    return "%s-%s-%s-%s-%s" % (h[:8], h[8:12], h[12:16], h[16:20], h[20:])


def gen_journal(r, with_uuid, comms):
    n = r.choice([1, 1, 2, 3, 3, 4, 5, 7])
    out, uuids = [], []
    for k in range(n):
        ts = "2024-%02d-%02d" % (r.randint(1, 6), r.randint(1, 28))
        if r.random() < 0.6:
            ts += "T%02d:%02d:%02dZ" % (r.randint(0, 23), r.randint(0, 59), r.randint(0, 59))
        u = rand_uuid(r)
        if with_uuid:
            uuids.append(u)
        comm = r.choice(comms)
        amt = (r.randint(1, 5000), r.choice([0, 1, 2]))
        h = ts
        if r.random() < 0.3:
            h += " (%s)" % r.choice(["c1", "keep", "#9"])
        h += " 't%d %s" % (k, "keep" if r.random() < 0.6 else "drop")
        lines = [h]
        if with_uuid:
            lines.append(" # uuid: " + "".join(ch.upper() if r.random() < 0.3 else ch for ch in u))
        if r.random() < 0.2:
            lines.append(" ; note")
        a, b = r.choice(["a", "a:b", "e", "Assets:x"]), r.choice(["b", "e:f", "€uro"])
        sfx = (" " + comm) if comm else ""
        lines.append(" %s  %s%s" % (a, J.dec_str(*amt), sfx))
        lines.append(" %s  %s%s" % (b, J.dec_str(-amt[0], amt[1]), sfx))
        out.append("\n".join(lines) + "\n")
    return "\n".join(out), uuids


def gen_prices(r):
    lt = r.choice(["last-price", "last-price", "given-time", "txn-time", "txn-time"])
    ents = []
    for base in ["USD", "SEK", "BTC"][:r.choice([1, 2, 2, 3])]:
        for _ in range(r.randint(1, 3)):
            ts = "2024-%02d-%02dT%02d:%02d:%02d%sZ" % (r.randint(1, 6), r.randint(1, 28), r.randint(0, 23), r.randint(0, 59), r.randint(0, 59),
                                                         r.choice(["", "", ".5", ".000000001", ".123456789"]))
            ents.append("P %s %s %s EUR" % (ts, base, J.dec_str(*r.choice([(9, 1), (90, 2), (125000, 5), (12, 0), (1, 3), (3141592653589793, 15)]))))
    if r.random() < 0.3:
        ents.append("P 2024-01-01T00:00:00Z EUR 2 USD")       # inverse pair: never listed
    r.shuffle(ents)
    return {"lt": lt, "rc": "EUR", "before": r.choice(["2024-04-01T00:00:00Z", "2024-07-01T00:00:00Z"]) if lt == "given-time" else None, "file": "\n".join(ents) + "\n"}


def gen_case(r, idx):
    c = {"idx": idx, "src": "gen", "tags": []}
    c["audit"] = r.random() < 0.6
    c["hash"] = r.choice(list(HASHES))
    c["rtz"] = r.choice(ZONES)
    c["price"] = gen_prices(r) if r.random() < 0.45 else None
    comms = ["USD", "SEK", "USD", "USD", "", "EUR"] if c["price"] else ["", "", "USD"]
    c["journal"], uuids = gen_journal(r, c["audit"] or r.random() < 0.5, comms)
    if r.random() < 0.55:
        j, g, tag = gen_filter(r, 2, c["rtz"] == "UTC", uuids)
        c["filter"] = {"json": {"txnFilter": j}, "coq": g, "tag": tag}
    else:
        c["filter"] = None
    k = r.random()
    if k < 0.4:
        c["sel"] = {"mode": "none"}
    elif k < 0.7:
        c["sel"] = {"mode": "overlap", "pats": [r.choice(SEL_PATTERNS) for _ in range(r.choice([1, 1, 2, 3]))]}
    else:
        c["sel"] = {"mode": "own"}
        for key in ("bal", "balgrp", "reg", "eq"):
            c["sel"][key] = [r.choice(SEL_PATTERNS) for _ in range(r.choice([0, 1, 2]))]
    if r.random() < 0.35:
        sel = r.choice(["ref-branch", "ref-tag", "ref-main", "commit-full", "commit-abbrev", "ref-is-commit-prefix", "ref-annotated-tag"])
        # a fixed share (40 %) of the git cases has a subject of several lines
        c["git"] = {"message": r.choice(MULTI_LINE_MESSAGES) if r.random() < 0.4 else r.choice(GIT_MESSAGES), "second": r.random() < 0.4, "selector": sel,
                    "dir": r.choice(["txns", "txns", "journal/2024"]), "ext": r.choice(["txn", "txn", "jrn"])}
    else:
        c["git"] = None
    return c


def pats_of(c, key):
    s = c["sel"]
    if s["mode"] == "none":
        return []
    if s["mode"] == "overlap":
        return s["pats"]
    return s[key]


def git(args, cwd, inp=None):
    p = subprocess.run(["git"] + args, cwd=cwd, env=GENV, capture_output=True, input=inp)
    if p.returncode != 0:
        raise Infra("git %s failed: %s" % (args, p.stderr.decode("utf-8", "replace")))
    return p.stdout.decode("utf-8", "replace")


def build_repo(c, root):
    """materialise the journal in a repository; fills c["git"] with what the git CLI says"""
    g = c["git"]
    repo = os.path.join(root, "r%d" % c["idx"])
    shutil.rmtree(repo, ignore_errors=True)
    os.makedirs(os.path.join(repo, g["dir"]))
    git(["init", "-q", "-b", "main", "."], repo)
    p = os.path.join(repo, g["dir"], "a." + g["ext"])
    open(p, "w").write(c["journal"])
    git(["add", "-A"], repo)
    git(["commit", "-q", "--cleanup=verbatim", "--allow-empty-message", "-F", "-"], repo, inp=g["message"].encode("utf-8"))
    sha = git(["rev-parse", "HEAD"], repo).strip()
    git(["branch", "work", sha], repo)
    git(["tag", "v1", sha], repo)
    git(["tag", "-a", "rel", "-m", "annotated", sha], repo)
    if g["second"]:
        # a later commit on main with another journal: the selected one is not the newest
        open(os.path.join(repo, g["dir"], "b." + g["ext"]), "w").write("2024-01-01 'later\n a  1\n b  -1\n")
        git(["add", "-A"], repo)
        git(["commit", "-q", "-m", "later"], repo)
    k = g["selector"]
    if k == "ref-main" and g["second"]:
        k = "ref-branch"                      # keep the generated journal the selected one
    if k == "ref-branch":
        rq = {"git_ref": "work"}
    elif k == "ref-tag":
        rq = {"git_ref": "v1"}
    elif k == "ref-annotated-tag":
        rq = {"git_ref": "rel"}
    elif k == "ref-main":
        rq = {"git_ref": "main"}
    elif k == "commit-full":
        rq = {"git_commit": sha}
    elif k == "commit-abbrev":
        rq = {"git_commit": sha[:10]}
    else:
        rq = {"git_ref": sha[:12]}            # a reference that is a prefix of the commit id: shown as FIXED by commit
    raw = subprocess.run(["git", "cat-file", "commit", sha], cwd=repo, env=GENV, capture_output=True).stdout
    msg = raw.split(b"\n\n", 1)[1] if b"\n\n" in raw else b""
    if msg != g["message"].encode("utf-8"):
        raise Infra("git stored another commit message than the one given: %r vs %r" % (msg, g["message"]))
    g.update({"repo": repo, "sha": sha, "request": rq, "title": gix_title(msg).decode("utf-8", "replace")})
    return g


def request_of(c):
    kw = {"audit": g_bool(c["audit"]), "hash": c["hash"], "rtz": c["rtz"], "targets": '"balance", "balance-group", "register"',
          "exports": '"equity"'}
    ov = {}
    if c["price"]:
        kw["price"] = '[price]\ndb-path = "prices.db"\nlookup-type = "%s"' % c["price"]["lt"]
        kw["rcomm"] = 'commodity = "%s"' % c["price"]["rc"]
        if c["price"]["before"]:
            ov["before_time"] = c["price"]["before"]
    s = c["sel"]
    if s["mode"] == "overlap":
        ov["accounts"] = s["pats"]
    elif s["mode"] == "own":
        for key, tk in (("bal", "bal_acc"), ("balgrp", "balgrp_acc"), ("reg", "reg_acc"), ("eq", "eq_acc")):
            kw[tk] = ", accounts = " + J.toml_list(s[key])
    conf = {"toml": J.make_toml(**kw)}
    if c["price"]:
        conf["pricedb"] = c["price"]["file"]
    rq = {"conf": conf, "overlaps": ov,
          "ops": [{"op": "metadata"}, {"op": "txns"}, {"op": "pricectx"}, {"op": "pricedb"}, {"op": "text_balance"}, {"op": "text_balgrp"},
                  {"op": "text_register"}, {"op": "equity"},
                  {"op": "balance", "kind": "equity", "prices": False, "ras": pats_of(c, "eq")}]}
    if c["git"]:
        g = c["git"]
        rq.update({"load": "git", "git_repo": g["repo"], "git_dir": g["dir"], "git_ext": g["ext"]})
        rq.update(g["request"])
    else:
        rq["inputs"] = [{"text": c["journal"]}]
    if c["filter"]:
        rq["filter"] = json.dumps(c["filter"]["json"])
    return rq


# ---------------------------------------------------------------- terms
def offset_at(zone, ns):
    import zoneinfo
    d = datetime.datetime.fromtimestamp(ns // 10 ** 9, tz=zoneinfo.ZoneInfo(zone))
    return int(d.utcoffset().total_seconds())


def g_git_in(c):
    g = c["git"]
    if not g:
        return "None"
    by_commit = "git_commit" in g["request"]
    sel = g["request"].get("git_commit") or g["request"].get("git_ref")
    return "(Some (mkGitIn %s %s %s %s %s %s))" % (g_bool(by_commit), g_str(sel), g_str(g["sha"]), g_str(g["dir"]), g_str(g["ext"]), g_str(g["title"]))


def expected_git(c):
    """what the block must show, from the git CLI and the request (independent of MetaText.git_item)"""
    g = c["git"]
    if not g:
        return "None"
    ref = g["request"].get("git_ref")
    if ref is not None and g["sha"].startswith(ref):
        ref = None
    return "(Some (mkGit %s %s %s %s %s))" % (g_str(g["sha"]), g_opt(ref, g_str), g_str(g["dir"]), g_str(g["ext"]), g_str(rust_one_line(g["title"])))


def parse_str(v):
    return "".join(chr(int(x)) for x in re.findall(r"\d+", v or ""))


def new_stats():
    return {"sessions": 0, "stages": {}, "compared": {"metadata": 0, "bal": 0, "balgrp": 0, "reg": 0, "equity": 0}, "different": 0,
            "oracle_failed": 0, "not_well_formed_items": 0, "git_multi_line_subject": 0, "equity_reloaded": 0, "op_failed": 0, "no_metadata": 0,
            "with": {"audit": 0, "filter": 0, "git": 0, "prices_fixed": 0, "prices_timed": 0, "price_conf_no_record": 0, "selector": 0,
                     "zone_not_utc": 0}, "item_combinations": {}, "git_selectors": {}, "filter_leaves": {}, "hashes": {}}


def prepare(c, rr, st):
    """-> list of (what, term, model-text term or None); fills c with what was observed"""
    stg = rr.get("stage") if rr else "none"
    st["stages"][stg] = st["stages"].get(stg, 0) + 1
    if stg != "done":
        if stg in ("panic", "abort"):
            c["panic"] = True
        return []
    res = {o: x for o, x in zip(["metadata", "txns", "pricectx", "pricedb", "text_balance", "text_balgrp", "text_register", "equity", "eqbal"], rr["results"])}
    if any(x.get("panic") for x in rr["results"]):
        c["panic"] = True
    if "ok" not in res["metadata"] or "ok" not in res["txns"]:
        st["op_failed"] += 1
        return []
    st["sessions"] += 1
    st["git_multi_line_subject"] += bool(c["git"]) and re.search("[\n\r]", rust_trim(c["git"]["title"])) is not None
    txns = res["txns"]["ok"]
    c["impl_md"] = res["metadata"]["ok"]
    c["n_selected"] = len(txns)
    us = [t.get("uuid") for t in txns]
    tbl = {}
    ecs = "None"
    if c["audit"]:
        P = "".join(sorted((u or "").lower() + "\n" for u in us)).encode("ascii", "replace")
        tbl[P] = digest(c["hash"], P)
        c["expected_checksum"] = tbl[P].hex()
        ecs = "(Some (%s, mkCk %s %s))" % (g_N(len(txns)), g_str(c["hash"]), g_str(tbl[P].hex()))
    sels = {}
    for key in ("bal", "balgrp", "reg", "eq"):
        pats = pats_of(c, key)
        bs = [p.encode("utf-8") for p in pats]
        P2 = b"".join(b + b"\n" for b in sorted(bs))
        if c["audit"] and pats:
            tbl[P2] = digest(c["hash"], P2)
            esel = "(Some (mkCk %s %s))" % (g_str(c["hash"]), g_str(tbl[P2].hex()))
        elif c["audit"]:
            esel = "(Some (mkCk s_none s_select_all))"
        else:
            esel = "None"
        sels[key] = (g_list([g_bytes(b) for b in bs]) if bs else "(@nil (list N))", esel)
    g_tbl = g_list(["(%s, %s)" % (g_bytes(k), g_bytes(v)) for k, v in tbl.items()]) if tbl else "(@nil (list N * list N))"
    flt = "(Some %s)" % c["filter"]["coq"] if c["filter"] else "None"
    g_us = g_list([g_opt(u, g_str) for u in us]) if us else "(@nil (option (list N)))"
    common = "%s %s %s %s %s" % (g_bool(c["audit"]), g_str(c["hash"]), g_git_in(c), flt, g_us)
    out = []
    impl = c["impl_md"]
    out.append(("metadata", "t04_md_case %s %s %s %s %s" % (common, g_tbl, expected_git(c), ecs, g_opt(impl, g_str)),
                "t04_md_text %s %s" % (common, g_tbl)))
    if impl is None:
        st["no_metadata"] += 1
    # price records: structured dump + zoneinfo
    prices = None
    if "ok" in res["pricectx"] and "ok" in res["pricedb"]:
        prices = []
        for rec in res["pricectx"]["ok"]:
            if rec["ts"] is None:
                prices.append("(None, %s, %s)" % (g_str(rec["source"]), g_str(rec["target"])))
            else:
                ents = [e for e in res["pricedb"]["ok"] if e["ts"]["ns"] == rec["ts"]["ns"] and e["base"] == rec["source"] and e["eq"] == rec["target"]]
                if len(ents) != 1:
                    raise Infra("price record without a unique price db entry: %r" % (rec,))
                ns = int(rec["ts"]["ns"])
                prices.append("(Some (%s, %s, %s), %s, %s)" % (g_Z(ns), g_Z(offset_at(c["rtz"], ns)), g_dec(ents[0]["rate"]),
                                                               g_str(rec["source"]), g_str(rec["target"])))
        c["n_prices"] = len(prices)
        c["prices_timed"] = any(rec["ts"] is None for rec in res["pricectx"]["ok"])
    g_prices = None if prices is None else (g_list(prices) if prices else "(@nil (option (Z * Z * dec) * list N * list N))")
    c["impl_heads"] = {}
    c["pieces"] = {"common": common, "tbl": g_tbl, "sels": sels, "prices": g_prices}
    for op, kind, title, key in KINDS:
        x = res[op]
        if "ok" not in x or not isinstance(x["ok"], str) or g_prices is None:
            st["op_failed"] += 1
            continue
        c["impl_heads"][key] = x["ok"]
        args = "%s %s %s %s %s %s %s %s" % (kind, g_bool(c["audit"]), g_str(c["hash"]), sels[key][0], g_str(c["rtz"]), g_prices,
                                            g_str(title), g_tbl)
        out.append((key, "t04_head_case %s %s %s" % (args, sels[key][1], g_str(x["ok"])), "t04_head_model %s" % args))
    x = res["equity"]
    if "ok" in x and isinstance(x["ok"], str) and x["ok"] != "":
        c["impl_equity"] = x["ok"]
        c["eqbal"] = res["eqbal"].get("ok")
        eargs = "%s %s %s" % (common, sels["eq"][0], g_tbl)
        out.append(("equity", "t04_equity_case %s %s" % (eargs, g_str(x["ok"])), "t04_equity_model %s" % eargs))
    elif "ok" not in x:
        st["op_failed"] += 1
    # distribution
    w = st["with"]
    w["audit"] += c["audit"]; w["filter"] += bool(c["filter"]); w["git"] += bool(c["git"])
    w["selector"] += c["sel"]["mode"] != "none"; w["zone_not_utc"] += c["rtz"] != "UTC"
    if c["price"]:
        if c.get("n_prices"):
            w["prices_timed" if c.get("prices_timed") else "prices_fixed"] += 1
        else:
            w["price_conf_no_record"] += 1
    combo = "+".join(k for k, v in (("git", c["git"]), ("checksum", c["audit"]), ("filter", c["filter"])) if v) or "(none)"
    st["item_combinations"][combo] = st["item_combinations"].get(combo, 0) + 1
    if c["git"]:
        st["git_selectors"][c["git"]["selector"]] = st["git_selectors"].get(c["git"]["selector"], 0) + 1
    if c["filter"]:
        st["filter_leaves"][c["filter"]["tag"]] = st["filter_leaves"].get(c["filter"]["tag"], 0) + 1
    if c["audit"]:
        st["hashes"][c["hash"]] = st["hashes"].get(c["hash"], 0) + 1
    return out


def python_oracle(c):
    """direct checks on the metadata text that need no model at all -> violation text or None"""
    md = c.get("impl_md")
    if c["git"] and isinstance(md, str):
        # regression check of finding F26 (independent of the model): between `Git Storage` and the end of that item there are the
        # five labelled lines and nothing else, and what follows is the next expected item
        g = c["git"]
        ls = md.split("\n")
        nxt = "Txn Set Checksum" if c["audit"] else "Filter" if c["filter"] else None
        ok = (len(ls) >= 7 and ls[0] == "Git Storage" and ls[1] == " " * 9 + "commit : " + g["sha"]
              and ls[2].startswith(" " * 6 + "reference : ") and ls[3] == " " * 6 + "directory : " + g["dir"]
              and ls[4] == " " * 9 + "suffix : ." + g["ext"] and ls[5].startswith(" " * 8 + "message : ") and ls[6] == ""
              and (ls[7:] == [] if nxt is None else ls[7:8] == [nxt]))
        if not ok:
            return ("git input: the lines of the metadata block from 'Git Storage' to the end of that item are not exactly its six item lines followed by "
                    "the next expected item (%s): a line comes from inside the commit message %r" % (nxt or "end of the block", g["message"]))
    has = isinstance(md, str) and re.search(r"^Txn Set Checksum$", md, re.M) is not None
    if c["audit"] and not has:
        return "audit mode is on but the metadata text has no Txn Set Checksum item"
    if not c["audit"] and has:
        return "audit mode is off but the metadata text has a Txn Set Checksum item"
    if c["audit"]:
        m = re.search(r"^Txn Set Checksum\n *(\S+) : (\S*)\n *Set size : (\d+)$", md, re.M)
        if not m:
            return "the Txn Set Checksum item does not have the shape <algorithm> : <hex> / Set size : <n>"
        if m.group(1) != c["hash"] or m.group(2) != c["expected_checksum"] or int(m.group(3)) != c["n_selected"]:
            return ("the line after 'Txn Set Checksum' does not carry the recomputed hash of the selected set: shown %s : %s, size %s; expected %s : %s, size %d"
                    % (m.group(1), m.group(2), m.group(3), c["hash"], c["expected_checksum"], c["n_selected"]))
    hasf = isinstance(md, str) and re.search(r"^Filter$", md, re.M) is not None
    if bool(c["filter"]) != hasf:
        return "a filter was %sapplied but the metadata text has %s Filter item" % ("" if c["filter"] else "not ", "a" if hasf else "no")
    if c["git"] and (not isinstance(md, str) or ("commit : " + c["git"]["sha"]) not in md):
        return "git input but the metadata text does not show the commit id the git CLI resolves the selector to"
    return None


def dec_frac(d):
    from fractions import Fraction
    v = Fraction(int(d["m"]), 10 ** int(d["s"]))
    return -v if d["n"] else v


def equity_reload_check(run, cases, st):
    """regression check of finding F26, independent of the model: the equity export of every git-input session is loaded again
    (load: string) and must give transactions whose postings are exactly the rows of the equity balance (structured dump of the
    same session) plus, per commodity with a non-zero sum, the balancing posting on the equity account"""
    from collections import Counter
    pick = [c for c in cases if c["git"] and c.get("impl_equity") and c.get("eqbal")]
    if not pick:
        return
    res = harness_run([{"conf": {"toml": J.make_toml()}, "inputs": [{"text": c["impl_equity"]}], "ops": [{"op": "txns"}]} for c in pick])
    for c, rr in zip(pick, res):
        st["equity_reloaded"] += 1
        rep = dict(replay_obj(c), equity_export=c["impl_equity"], reload={"stage": (rr or {}).get("stage"), "err": (rr or {}).get("err")})
        if not rr or rr.get("stage") != "done" or "ok" not in rr["results"][0]:
            st["oracle_failed"] += 1
            run.violation("git input: the equity export does not load again (stage %s: %s) — a line of the export comes from inside the commit message %r"
                          % ((rr or {}).get("stage"), ((rr or {}).get("err") or "")[:160].replace("\n", " "), c["git"]["message"]), rep)
            continue
        got = Counter((p["acc"], p["comm"], dec_frac(p["amount"])) for t in rr["results"][0]["ok"] for p in t["posts"])
        exp, sums = Counter(), {}
        for row in c["eqbal"]["rows"]:
            v = dec_frac(row["own"])
            exp[(row["acc"], row["comm"], v)] += 1
            sums[row["comm"]] = sums.get(row["comm"], 0) + v
        for comm, v in sums.items():
            if v != 0:
                exp[("Equity:Balance", comm, -v)] += 1
        descs = [t.get("desc") or "" for t in rr["results"][0]["ok"]]
        if got != exp or len(descs) != len(sums) or not all(d.startswith("Equity") for d in descs):
            st["oracle_failed"] += 1
            rep["reloaded_postings"] = sorted((a, k, str(v)) for (a, k, v) in got.elements())
            rep["expected_postings"] = sorted((a, k, str(v)) for (a, k, v) in exp.elements())
            rep["reloaded_descriptions"] = descs
            run.violation("git input: the equity export loads again, but NOT as the equity balance of the session (postings / transactions that come from "
                          "inside the commit message %r)" % c["git"]["message"], rep)


def replay_obj(c):
    o = {"case": {k: c.get(k) for k in ("audit", "hash", "rtz", "price", "filter", "sel", "git", "journal", "src", "idx")},
         "request": request_of(c) if not c["git"] or c["git"].get("repo") else None,
         "implementation_metadata_text": c.get("impl_md"), "expected_checksum": c.get("expected_checksum"), "selected_transactions": c.get("n_selected"),
         "replay_hint": "./check T04 --replay <this file> (git cases: the repository is rebuilt from case.git.message and case.journal)"}
    return o


def check_cases(run, cases, st, distinct=None):
    root = os.path.join(CACHE, "t04-git-%d" % os.getpid())
    shutil.rmtree(root, ignore_errors=True)
    try:
        for c in cases:
            if c["git"]:
                build_repo(c, root)
        res = harness_run([request_of(c) for c in cases])
    finally:
        shutil.rmtree(root, ignore_errors=True)
    terms, meta = [], []
    for c, rr in zip(cases, res):
        for what, term, mterm in prepare(c, rr, st):
            terms.append(term)
            meta.append((c, what, mterm))
        if c.get("panic"):
            run.violation("the implementation panicked while producing the transaction set metadata or a report text", replay_obj(c))
    ok, log = coq_make(["corr/T04_corr.vo"])
    if not ok:
        raise Infra("coq build of corr/T04_corr.vo failed:\n" + log[-3000:])
    vals, errs = coq_eval("T04-" + run.prop, IMPORTS, terms) if terms else ([], [])
    if errs:
        raise Infra("coq evaluation failed: " + errs[0])
    equity_reload_check(run, cases, st)
    bad = []
    seen_py = set()
    for (c, what, mterm), v in zip(meta, vals):
        n = as_N(v)
        if n is None:
            raise Infra("no result for a T04 text case (%s %s)" % (c.get("src"), what))
        st["compared"][what if what in st["compared"] else "metadata"] += 1
        if distinct is not None:
            t = c.get("impl_md") if what == "metadata" else (c.get("impl_heads") or {}).get(what)
            if t:
                distinct.add((what, t.split("BAL")[0] if what != "metadata" else t))
        if what == "metadata" and c["idx"] not in seen_py:
            seen_py.add(c["idx"])
            pv = python_oracle(c)
            if pv:
                st["oracle_failed"] += 1
                run.violation(pv, replay_obj(c))
            if "sample" not in st and c["src"] == "gen" and c["audit"] and c["filter"] and c.get("impl_md"):
                st["sample"] = {"case": replay_obj(c)["case"], "metadata_text": c["impl_md"], "result_bits": n}
        wf = bool(n & 8)
        if not wf:
            st["not_well_formed_items"] += 1
        if not (n & 1):
            bad.append((c, what, mterm, n))
        elif wf and not (n & 2):
            st["oracle_failed"] += 1
            rep = replay_obj(c)
            rep.update({"what_was_read": what, "implementation_text": c.get("impl_md") if what == "metadata" else c["impl_heads"].get(what)})
            run.violation("the %s text, read by the independent reader (MetaText_spec.read_meta / read_head), is not exactly the expected items "
                          "(git item iff git input with the commit the git CLI resolves; Txn Set Checksum iff audit with the configured algorithm, the "
                          "hashlib digest of the selected uuids and the number selected; Filter iff a filter was applied; selector checksum iff audit; "
                          "zone; price records; in this order)" % what, rep)
    if bad:
        withm = [b for b in bad if b[2]][:5]
        mv, errs = coq_eval("T04-%s-model" % run.prop, IMPORTS, [b[2] for b in withm]) if withm else ([], [])
        if errs:
            raise Infra("coq evaluation of the model text failed: " + errs[0])
        texts = {id(b): parse_str(v) for b, v in zip(withm, mv)}
        for b in bad[:5]:
            c, what, mterm, n = b
            i = (n >> 4) - 1
            impl = c.get("impl_md") if what == "metadata" else (c.get("impl_heads") or {}).get(what) if what != "equity" else \
                c.get("impl_equity", "").split("\n", 1)[-1]
            mt = texts.get(id(b))
            rep = replay_obj(c)
            rep.update({"correspondence": "T04_corr.t04_%s_case" % ("md" if what == "metadata" else "equity" if what == "equity" else "head"),
                        "compared": what, "first_differing_character": i, "implementation_text": impl, "model_text": mt,
                        "implementation_around": impl[max(0, i - 60):i + 20] if impl is not None and i >= 0 else None,
                        "model_around": mt[max(0, i - 60):i + 20] if mt is not None and i >= 0 else None,
                        "oracle_on_implementation_text": bool(n & 2)})
            run.cov["disagreements_checked"] += 1
            run.violation("correspondence broken: MetaText.meta_text differs from the implementation's metadata text (%s)" % what, rep, found_input=False)
    st["different"] += len(bad)


def corpus_cases():
    out = []
    cdir = os.path.join(VERIF, "corpus", "T04")
    if os.path.isdir(cdir):
        for f in sorted(os.listdir(cdir)):
            if f.endswith(".json"):
                c = json.load(open(os.path.join(cdir, f)))
                c["src"] = "corpus/T04/" + f
                c.setdefault("tags", [])
                for k, dflt in (("audit", False), ("hash", "SHA-256"), ("rtz", "UTC"), ("price", None), ("filter", None), ("sel", {"mode": "none"}),
                                ("git", None)):
                    c.setdefault(k, dflt)
                out.append(c)
    return out


def run_text_stage(run, n=None):
    """violations registered by this stage carry "stage": "T04" in their replays (common.Run.in_stage)"""
    with run.in_stage("T04"):
        return _run_text_stage(run, n)


def _run_text_stage(run, n=None):
    """the harness must be built (harness_build()). Returns the counts (also stored in run.notes["text_metadata"])."""
    if n is None:
        n = 90 if run.tier == "quick" else 1200
    if run.prop != "T04":
        # run as an extra stage of another check: the theorems of the extension must still build
        ok, log = coq_make(["props/T04.vo"])
        if not ok:
            run.violation("proof obligation does not check: props/T04.v (metadata text model) failed to build",
                          {"theorem_file": "coq/props/T04.v", "log": log[-2000:]}, found_input=False)
            return {"skipped": "props/T04.v does not build"}
    cases = corpus_cases() + [gen_case(run.rng, i) for i in range(n)]
    for i, c in enumerate(cases):
        c["idx"] = i
    st = new_stats()
    distinct = set()
    check_cases(run, cases, st, distinct)
    if run.prop == "T04":
        cli_file_stage(run, cases, st, 10 if run.tier == "quick" else 60)
    st["distinct_texts"] = len(distinct)
    run.notes["text_metadata"] = st
    return st


def cli_file_stage(run, cases, st, k=10):
    """./check T04 only: sessions (string input) once more through the tackler BINARY writing report files
    (write_txt_reports): every file must begin with MetaText.report_file_head — the set's block, one newline, the
    report's own head — followed by the title line.  The structured values come from the harness run of the same case."""
    # the program refuses to report on an empty transaction set, and drops empty patterns from --accounts (C19's subject)
    pick = [c for c in cases if c.get("pieces") and c["pieces"]["prices"] is not None and not c["git"] and c.get("n_selected", 0) > 0
            and not (c["sel"]["mode"] == "overlap" and "" in c["sel"]["pats"])]
    pick = ([c for c in pick if c["src"] != "gen"] + [c for c in pick if c["src"] == "gen"])[:k]
    st["cli_files"] = {"sessions": 0, "files": 0, "different": 0, "cli_failed": 0}
    if not pick:
        return
    cli_build()
    root = os.path.join(CACHE, "t04-cli-%d" % os.getpid())
    shutil.rmtree(root, ignore_errors=True)
    terms, meta = [], []
    try:
        for c in pick:
            d = os.path.join(root, "s%d" % c["idx"])
            os.makedirs(os.path.join(d, "out"))
            rq = request_of(c)
            open(os.path.join(d, "tackler.toml"), "w").write(rq["conf"]["toml"])
            if "pricedb" in rq["conf"]:
                open(os.path.join(d, "prices.db"), "w").write(rq["conf"]["pricedb"])
            open(os.path.join(d, "j.txn"), "w").write(c["journal"])
            args = ["--config", os.path.join(d, "tackler.toml"), "--input.file", os.path.join(d, "j.txn"), "--output.dir", os.path.join(d, "out"),
                    "--output.prefix", "r"]
            if c["filter"]:
                args += ["--api-filter-def", json.dumps(c["filter"]["json"])]
            if rq["overlaps"].get("before_time"):
                args += ["--price.before", rq["overlaps"]["before_time"]]
            if rq["overlaps"].get("accounts") is not None:
                args += ["--accounts"] + rq["overlaps"]["accounts"]
            rc, so, se = run_cli(args, cwd=d)
            if rc != 0:
                st["cli_files"]["cli_failed"] += 1     # e.g. a selector pattern the regex crate rejects, an empty pattern on the command line
                continue
            st["cli_files"]["sessions"] += 1
            pc = c["pieces"]
            for op, kind, title, key in KINDS:
                fn = os.path.join(d, "out", "r.%s.txt" % key)
                if not os.path.exists(fn):
                    continue
                text = open(fn, encoding="utf-8").read()
                terms.append("t04_file_case %s %s %s %s %s %s %s %s" % (kind, pc["common"], pc["sels"][key][0], g_str(c["rtz"]), pc["prices"],
                                                                       g_str(title), pc["tbl"], g_str(text)))
                meta.append((c, key, kind, title, text))
    finally:
        shutil.rmtree(root, ignore_errors=True)
    vals, errs = coq_eval("T04-%s-files" % run.prop, IMPORTS, terms) if terms else ([], [])
    if errs:
        raise Infra("coq evaluation failed: " + errs[0])
    for (c, key, kind, title, text), v in zip(meta, vals):
        n = as_N(v)
        if n is None:
            raise Infra("no result for a T04 file case (%s %s)" % (c.get("src"), key))
        st["cli_files"]["files"] += 1
        if not (n & 1):
            st["cli_files"]["different"] += 1
            i = (n >> 4) - 1
            rep = replay_obj(c)
            rep.update({"correspondence": "T04_corr.t04_file_case", "compared": "report file r.%s.txt written by the tackler binary" % key,
                        "first_differing_character": i, "implementation_file_begin": text[:max(i + 200, 600)],
                        "implementation_around": text[max(0, i - 60):i + 20]})
            run.cov["disagreements_checked"] += 1
            run.violation("correspondence broken: MetaText.meta_text differs from the beginning of the report file written by the tackler binary "
                          "(MetaText.report_file_head, %s)" % key, rep, found_input=False)
