# C12 — strict mode accepts exactly the journals that use only declared names;
#        with strict off nothing depends on the charts; both modes accept => identical outputs
import json, os, copy
from common import *
import journal as J

IMPORTS = ("From TkModel Require Import Base Dec Acct Txn Accept Balance Charts.\n"
           "From TkSpec Require Import Charts_spec.\nFrom TkCorr Require Import C12_corr.\n")

TAGS = ["t1", "t2", "a:b", "x-y", "t2:z", "T1"]
EXTRA_COMMS = ["XAU", "BTC", "eur"]
OPEN_COMM = "XOPEN"          # only ever used inside '{..}': never looked up by the parser


# ---------------------------------------------------------------- Gallina emitters
def g_decp(d):
    return "(mkDec %s %s)" % (g_Z(d[0]), g_N(d[1]))


def g_raw_txn(t):
    ps = []
    for p in t["posts"]:
        if p["comm"] == "":
            unit = "None"
        else:
            op = "None" if not p.get("opening") else "(Some (%s, %s))" % (g_decp(p["opening"][0]), g_str(p["opening"][1]))
            if p.get("closing"):
                k, v, c = p["closing"]
                cl = "(Some (%s, %s, %s))" % ("UnitPrice" if k == "@" else "TotalPrice", g_decp(v), g_str(c))
            else:
                cl = "None"
            unit = "(Some (mkUnit %s %s %s))" % (g_str(p["comm"]), op, cl)
        ps.append("(mkRawPost %s %s %s)" % (g_acct(p["acc"]), g_decp(p["amount"]), unit))
    last = "None" if not t.get("last") else "(Some %s)" % g_acct(t["last"]["acc"])
    return "(mkRawTxn %s %s)" % (g_list(ps), last)


def g_craw_txn(t):
    return "(mkCrawTxn %s %s)" % (g_list([g_str(x) for x in (t.get("tags") or [])]), g_raw_txn(t))


def g_posting(p):
    return "(mkPosting %s %s %s %s %s %s)" % (g_acct(p["acc"]), g_str(p["comm"]), g_dec(p["amount"]),
                                              g_dec(p["txn_amount"]), g_bool(p["total"]), g_str(p["txn_comm"]))


def g_config(c):
    price = c.get("price")
    return "(mkConfig true %s %s %s %s %s %s %s %s %s %s)" % (
        g_list([g_acct(a) for a in c["accounts"]]), g_list([g_str(x) for x in c["comms"]]),
        g_bool(bool(c["permit"])), g_list([g_str(x) for x in c["tags"]]),
        g_bool(c["equity"]), g_acct(c["eqa"]), g_opt(c["rc"], g_str), g_opt(c["ovc"], g_str),
        g_bool(price is not None), g_list(["(%s, %s)" % (g_str(b), g_str(e)) for b, e in (price or [])]))


# ---------------------------------------------------------------- names
def used_names(txns):
    accs, comms, tags = [], [], []
    for t in txns:
        for p in t["posts"]:
            accs.append(p["acc"])
            if p["comm"]:
                comms.append(p["comm"])
                if p.get("closing"):
                    comms.append(p["closing"][2])
        if t.get("last"):
            accs.append(t["last"]["acc"])
        tags += t.get("tags") or []
    uniq = lambda l: sorted(set(l))
    return uniq(accs), uniq(comms), uniq(tags)


def ancestors(a):
    cs = a.split(":")
    return [":".join(cs[:k]) for k in range(1, len(cs))]


def edit_name(r, s):
    """a valid name one edit away from s"""
    cs = s.split(":")
    last = cs[-1]
    k = r.randint(0, 4)
    if k == 0:
        last2 = last + "x"
    elif k == 1 and len(last) > 1:
        last2 = last[:-1]
    elif k == 2 and last[0].isascii() and last[0].isalpha():
        last2 = last[0].swapcase() + last[1:]
    elif k == 3:
        last2 = last + "-1"
    else:
        last2 = last + "_"
    return ":".join(cs[:-1] + [last2])


def edit_flat(r, s):
    k = r.randint(0, 2)
    if k == 0 and len(s) > 1:
        return s[:-1]
    if k == 1 and s.lower() != s:
        return s.lower()
    return s + "X"


# ---------------------------------------------------------------- generator
def gen_case(r):
    g = J.Gen(r, max_depth=r.choice([3, 4, 5]), n_accounts=r.randint(2, 6))
    ts = g.journal(r.randint(1, 3), prices=(r.random() < 0.5), meta=False, implicit_p=0.4)
    kinds = []
    for k, t in enumerate(ts):
        t["desc"] = "t%d" % k
        if r.random() < 0.45:
            t["tags"] = r.sample(TAGS, r.randint(1, 3))
            if r.random() < 0.06:
                t["tags"].append(t["tags"][0]); kinds.append("dup-tag")
        for p in t["posts"]:
            if p["comm"] and r.random() < 0.12:
                # opening position with a commodity that is declared nowhere
                p["opening"] = ((r.randint(1, 90), r.randint(0, 2)), OPEN_COMM)
                kinds.append("undeclared-opening-commodity")
    accs, comms, tags = used_names(ts)
    has_empty = any(p["comm"] == "" for t in ts for p in t["posts"])
    c = {"txns": ts, "src": "gen"}
    # ---- configuration-level names
    c["rc"] = c["ovc"] = None
    # where the effective strict mode comes from: the file, or --strict.mode over the opposite file value
    c["schan"] = r.choice(["file", "file", "cli"])
    c["price"] = None
    pool = [x for x in J.COMMS if x] + EXTRA_COMMS
    if r.random() < 0.4:
        c["rc"] = r.choice(comms + pool) if comms else r.choice(pool)
    if r.random() < 0.12:
        c["ovc"] = r.choice(pool)
    if (c["rc"] or c["ovc"]) and r.random() < 0.5 or r.random() < 0.03:
        target = c["ovc"] or c["rc"] or "EUR"
        ents = []
        for _ in range(r.randint(1, 3)):
            b = r.choice([x for x in comms + pool if x != target])
            e = target if r.random() < 0.8 else r.choice([x for x in pool if x != b])
            ents.append([b, e])
        c["price"] = ents
    cfg_comms = [x for x in [c["rc"], c["ovc"]] if x] + [x for be in (c["price"] or []) for x in be]
    c["equity"] = r.random() < 0.25
    # a quarter of the cases declares everything exactly (strict mode must accept those
    # whenever the journal is acceptable at all); the rest varies each chart independently
    exact_all = r.random() < 0.25
    # ---- chart of accounts
    k = 0.0 if exact_all else r.random()
    decl = list(accs)
    if k < 0.34:
        kinds.append("acc:exact")
    elif k < 0.44:
        decl += [x for a in accs for x in ancestors(a)]; kinds.append("acc:closed")
    elif k < 0.54:
        anc = sorted(set(x for a in accs for x in ancestors(a)))
        decl += r.sample(anc, r.randint(0, len(anc))); kinds.append("acc:some-ancestors")
    elif k < 0.64:
        decl.remove(r.choice(decl)); kinds.append("acc:missing-one")
    elif k < 0.74:
        v = r.choice(decl); decl.remove(v); decl.append(edit_name(r, v)); kinds.append("acc:one-edit")
    elif k < 0.84:
        v = r.choice(decl); decl.remove(v); decl.append(v + ":" + r.choice(["x", "1", "sub"]))
        if r.random() < 0.5:
            decl.append(v + ":x:y:z")
        kinds.append("acc:child-only(posted-parent-is-synthetic)")
    elif k < 0.90:
        deep = [a for a in decl if ":" in a]
        if deep:
            v = r.choice(deep); decl.remove(v); decl.append(v.rsplit(":", 1)[0]); kinds.append("acc:parent-only")
        else:
            kinds.append("acc:exact")
    elif k < 0.95:
        # the F9 shape: a declared account with undeclared parent, a deeper one posted
        deep = [a for a in decl if a.count(":") >= 2]
        if deep:
            v = r.choice(deep); decl.remove(v); decl.append(v.rsplit(":", 1)[0]); kinds.append("acc:F9-shape")
        else:
            kinds.append("acc:exact")
    else:
        decl = []; kinds.append("acc:none-declared")
    if r.random() < 0.3:
        decl += r.sample(["z:y:x:w", "Assets", "a", "e:f", "x1:2b:c"], r.randint(1, 2)); kinds.append("acc:+extra")
    if r.random() < 0.1 and decl:
        decl.append(decl[0])          # duplicate entry
    r.shuffle(decl)
    c["accounts"] = decl
    c["eqa"] = "Equity:Balance"
    if c["equity"]:
        k = 0.0 if exact_all else r.random()
        if k < 0.5:
            c["accounts"].append(c["eqa"]); kinds.append("equity:declared")
        elif k < 0.75:
            c["accounts"].append(c["eqa"] + ":sub"); kinds.append("equity:only-synthetic")
        else:
            kinds.append("equity:undeclared")
    # ---- chart of commodities
    k = 0.0 if exact_all else r.random()
    dc = sorted(set(comms + cfg_comms))
    if k < 0.55:
        kinds.append("comm:exact")
    elif k < 0.67 and dc:
        dc.remove(r.choice(dc)); kinds.append("comm:missing-one")
    elif k < 0.77 and dc:
        v = r.choice(dc); dc.remove(v); dc.append(edit_flat(r, v)); kinds.append("comm:one-edit")
    elif k < 0.87 and cfg_comms:
        dc = sorted(set(comms)); kinds.append("comm:journal-only(config/price names undeclared)")
    else:
        dc += r.sample(EXTRA_COMMS, 1); kinds.append("comm:+extra")
    r.shuffle(dc)
    c["comms"] = dc
    c["permit"] = r.choice([True, True, True, False, None]) if has_empty else r.choice([True, False, None])
    # ---- chart of tags
    k = 0.0 if exact_all else r.random()
    dt = list(tags)
    if k < 0.6:
        kinds.append("tag:exact")
    elif k < 0.75 and dt:
        dt.remove(r.choice(dt)); kinds.append("tag:missing-one")
    elif k < 0.85 and dt:
        v = r.choice(dt); dt.remove(v); dt.append(edit_name(r, v)); kinds.append("tag:one-edit")
    else:
        dt += ["zz"]; kinds.append("tag:+extra")
    c["tags"] = dt
    c["kinds"] = kinds
    return c


def gen_cases(run, n):
    cases = []
    cdir = os.path.join(VERIF, "corpus", "C12")
    if os.path.isdir(cdir):
        for f in sorted(os.listdir(cdir)):
            if f.endswith(".json"):
                c = json.load(open(os.path.join(cdir, f)))
                c["src"] = "corpus/" + f
                c.setdefault("kinds", ["corpus"])
                cases.append(c)
    for _ in range(n):
        cases.append(gen_case(run.rng))
    return cases


# ---------------------------------------------------------------- requests
def toml_str_list(key, l):
    return "%s = %s\n" % (key, J.toml_list(l))


def sessions(c):
    """three runs: strict with the charts, strict off with the charts, strict off with nothing declared"""
    text = J.print_journal(c["txns"])
    kw = {}
    if c["price"] is not None:
        kw["price"] = '[price]\ndb-path = "prices.db"\nlookup-type = "last-price"'
    if c["rc"]:
        kw["rcomm"] = 'commodity = "%s"' % c["rc"]
    if c["equity"]:
        kw["exports"] = '"equity"'
    kw["eqa"] = c["eqa"]
    permit = "" if c["permit"] is None else "permit-empty-commodity = %s\n" % ("true" if c["permit"] else "false")
    ops = [{"op": "txns"}, {"op": "balance", "prices": False}, {"op": "text_balance"}, {"op": "text_register"}]
    if c["equity"]:
        ops.append({"op": "equity"})
    pdb = None
    if c["price"] is not None:
        pdb = "".join("P 2024-01-%02d %s 1.25 %s\n" % (i + 1, b, e) for i, (b, e) in enumerate(c["price"]))
    out = []
    for mode in ("S", "L", "N"):
        conf = {}
        if mode == "N":
            conf["toml"] = J.make_toml(strict="false", accounts="none", tags="none", commodities="commodities.toml", **kw)
            conf["commodities"] = permit + "commodities = []\n"
        else:
            conf["toml"] = J.make_toml(strict="true" if mode == "S" else "false", accounts="accounts.toml",
                                       commodities="commodities.toml", tags="tags.toml", **kw)
            conf["accounts"] = toml_str_list("accounts", c["accounts"])
            conf["commodities"] = permit + toml_str_list("commodities", c["comms"])
            conf["tags"] = toml_str_list("tags", c["tags"])
        if pdb is not None:
            conf["pricedb"] = pdb
        rq = {"conf": conf, "inputs": [{"text": text}], "ops": copy.deepcopy(ops)}
        if c["ovc"]:
            rq["overlaps"] = {"commodity": c["ovc"]}
        if c.get("schan") == "cli" and mode != "N":
            eff = mode == "S"
            conf["toml"] = conf["toml"].replace("strict = %s" % ("true" if eff else "false"), "strict = %s" % ("false" if eff else "true"), 1)
            rq.setdefault("overlaps", {})["strict"] = eff
        out.append(rq)
    return out


def observe(c, rr):
    """one run -> dict(cls, ts(list in journal order) / None, reports_ok, outs (canonical))"""
    st = rr.get("stage") if rr else "none"
    if st in ("settings", "load"):
        return {"cls": "rejected", "stage": st, "err": (rr.get("err") or "")[:160]}
    if st != "done":
        return {"cls": "other", "stage": st, "err": (rr.get("err") or "")[:160]}
    res = rr["results"]
    txns = res[0].get("ok")
    if txns is None:
        return {"cls": "other", "stage": "txns-op"}
    by = {t["desc"]: t for t in txns}
    if len(by) != len(c["txns"]):
        raise Infra("txn mapping failed")
    ordered = [by["t%d" % k] for k in range(len(c["txns"]))]
    outs = []
    for x in res:
        if "ok" in x:
            outs.append(["ok", x["ok"]])
        elif "err" in x:
            outs.append(["err"])          # never compare message texts
        else:
            outs.append(["panic"])
    return {"cls": "accepted", "stage": st, "ts": ordered,
            "reports_ok": all("ok" in x for x in res[1:4]),
            "report_errs": [x.get("err", "")[:120] for x in res[1:4] if "ok" not in x],
            "outs": json.dumps(outs, sort_keys=True, ensure_ascii=False)}


def g_run(o):
    if o["cls"] == "rejected":
        return "(mkRun None true)"
    ts = g_list([g_list([g_posting(p) for p in t["posts"]]) for t in o["ts"]])
    return "(mkRun (Some %s) %s)" % (ts, g_bool(o["reports_ok"]))


def brief(o):
    d = {k: o[k] for k in ("cls", "stage", "err", "reports_ok", "report_errs") if k in o}
    if "ts" in o:
        d["postings"] = [[(p["acc"], p["comm"], dec_parts(p["amount"]), p["txn_comm"]) for p in t["posts"]] for t in o["ts"]]
    return d


def py_declared(c):
    accs, comms, tags = used_names(c["txns"])
    cfg = [x for x in [c["rc"], c["ovc"]] if x] + [x for be in (c["price"] or []) for x in be]
    return (all(a in c["accounts"] for a in accs) and all(x in c["comms"] for x in comms + cfg)
            and all(t in c["tags"] for t in tags) and (not c["equity"] or c["eqa"] in c["accounts"]))


def explain(c, o):
    """which clause of the specification the observed runs contradict (for the report only)"""
    S, L, N = o
    why = []
    if S["cls"] == "accepted" and N["cls"] == "rejected":
        why.append("strict mode accepts a journal that is rejected with strict off and nothing declared")
    if S["cls"] == "accepted" and not py_declared(c):
        why.append("strict mode accepts a journal that uses an undeclared name")
    if S["cls"] == "rejected" and N["cls"] == "accepted" and py_declared(c):
        why.append("strict mode rejects a journal although every used name is declared")
    if L["cls"] != N["cls"]:
        why.append("strict off: acceptance depends on the charts")
    if L["cls"] == "accepted" and N["cls"] == "accepted" and L["outs"] != N["outs"]:
        why.append("strict off: an output depends on the charts")
    if S["cls"] == "accepted" and L["cls"] == "accepted" and S["outs"] != L["outs"]:
        why.append("both modes accept but the outputs differ")
    for nm, x in (("strict", S), ("strict-off", L), ("no-chart", N)):
        if x["cls"] == "accepted" and not x["reports_ok"]:
            why.append("%s run: journal accepted but a report fails: %s" % (nm, x["report_errs"]))
    return why


def case_public(c):
    return {k: c[k] for k in ("accounts", "comms", "permit", "tags", "equity", "eqa", "rc", "ovc", "schan", "price", "kinds") if k in c}


def main(run, only=None):
    """only: the cases of a replay (no generation, no proof stage, no verdict)"""
    if only is None:
        info = proof_stage(run, "C12", extra_targets=["corr/C12_corr.vo"])
        harness_build()
        n = 150 if run.tier == "quick" else 2500
        cases = gen_cases(run, n)
    else:
        cases = only
    reqs = []
    for c in cases:
        reqs += sessions(c)
    res = harness_run(reqs)
    terms, idx = [], []
    classes, kindc = {}, {}
    skipped = 0
    for i, c in enumerate(cases):
        o = [observe(c, res[3 * i + k]) for k in range(3)]
        c["obs"] = o
        key = "/".join(x["cls"] for x in o)
        classes[key] = classes.get(key, 0) + 1
        for kd in c.get("kinds", []):
            kindc[kd] = kindc.get(kd, 0) + 1
        if any(x["cls"] == "other" for x in o):
            skipped += 1          # configuration error / panic / abort: outside C12 (C15, C19)
            if any(x["stage"] == "config" for x in o):
                raise Infra("generated configuration does not parse: %s" % json.dumps([x for x in o if x["stage"] == "config"][:1]))
            continue
        eq_sl = o[0]["cls"] == "accepted" and o[1]["cls"] == "accepted" and o[0]["outs"] == o[1]["outs"]
        eq_ln = o[1]["cls"] == "accepted" and o[2]["cls"] == "accepted" and o[1]["outs"] == o[2]["outs"]
        obs = "(mkObs %s %s %s %s %s)" % (g_run(o[0]), g_run(o[1]), g_run(o[2]), g_bool(eq_sl), g_bool(eq_ln))
        terms.append("c12_case %s %s %s" % (g_config(c), g_list([g_craw_txn(t) for t in c["txns"]]), obs))
        idx.append(i)
    vals, errs = coq_eval("C12", IMPORTS, terms)
    if errs:
        raise Infra("coq evaluation failed: " + errs[0])
    distinct = set()
    n_dom = 0
    for j, v in zip(idx, vals):
        c = cases[j]
        bits = as_N(v)
        if bits is None:
            raise Infra("no result for case %d" % j)
        run.cov["evaluations"] += 1
        o = c["obs"]
        text = J.print_journal(c["txns"])
        if o[0]["cls"] == "accepted":
            distinct.add(json.dumps([case_public(c)["accounts"], o[0]["outs"]], sort_keys=True))
        if len(run.cov["samples"]) < 3 and c["src"] == "gen":
            run.cov["samples"].append({"journal": text, "charts": case_public(c), "runs(strict,lax,no-chart)": [brief(x) for x in o], "bits": bits})
        if not (bits & 4):
            continue
        n_dom += 1
        rep = {"journal": text, "charts": case_public(c), "txns": c["txns"],
               "runs": {"strict": brief(o[0]), "strict_off": brief(o[1]), "strict_off_nothing_declared": brief(o[2])},
               "replay_hint": "write accounts.toml/commodities.toml/tags.toml from 'charts', run with kernel.strict = true/false; ./check C12 --replay <this file>"}
        if not (bits & 2):
            run.violation("; ".join(explain(c, o)) or "specification oracle Charts_spec.obs_ok_b is false on the observed runs", rep)
        elif not (bits & 1):
            run.cov["disagreements_checked"] += 1
            rep["correspondence"] = "C12_corr.c12_case (agreement bits strict/lax/no-chart = %d%d%d)" % (
                bool(bits & 8), bool(bits & 16), bool(bits & 32))
            run.violation("correspondence broken: model Charts.load differs from the implementation (spec oracle clean on this input)",
                          rep, found_input=False)
    if only is not None:
        return None
    run.cov["distinct_nontrivial"] = len(distinct)
    run.cov["rule"] = ("seeded journals (1-3 transactions, account trees of depth <= 4, tags, '{..}' with a commodity declared nowhere, '@' '=', "
                       "implicit last posting, empty commodity) with generated charts: accounts exact / parent-closed / some ancestors / one missing / "
                       "one edit away / only a child or only the parent declared / F9 shape / none, commodities and tags exact / missing / one edit away / "
                       "config-and-price-file names undeclared, permit-empty-commodity true/false/absent (fixed over the three runs), report commodity "
                       "(file, command line), price file, equity account declared / only synthetic / undeclared; three runs per case (strict, strict off, "
                       "strict off with nothing declared), ops txns+balance+text_balance+text_register(+equity); non-trivial = accepted in strict mode; "
                       "distinct = distinct (chart, outputs) of strict-accepted cases")
    run.notes.update({"run_classes(strict/lax/no-chart)": classes, "chart_kinds": kindc, "in_exact_domain": n_dom,
                      "skipped_other_stage": skipped})
    return run.finish(info)


def replay(run, path):
    """the stored charts + structured journal through the three sessions (strict, strict off, strict off with nothing
    declared) + c12_case; also accepts a bare corpus case"""
    j0 = json.load(open(path))
    if isinstance(j0, dict) and isinstance(j0.get("replay"), dict):
        j, rp, rc = replay_begin(run, path)
        if rc is not None:
            return rc
    else:
        j, rp = (j0 if isinstance(j0, dict) else {}), (j0 if isinstance(j0, dict) else {})
    if "accounts" in rp and "txns" in rp:        # a corpus case
        c = dict(rp)
    else:
        c = dict(rp.get("charts") or {})
        c["txns"] = rp.get("txns")
        c.setdefault("accounts", []); c.setdefault("comms", []); c.setdefault("tags", [])
    if not c.get("txns"):
        return replay_print(j0)
    for k, d in (("permit", None), ("rc", None), ("ovc", None), ("price", None), ("equity", False), ("eqa", "Equity:Balance")):
        c.setdefault(k, d)
    c["src"] = "replay"
    print(j.get("what"))
    corr_build("C12")
    harness_build()
    main(run, only=[c])
    o = c.get("obs") or []
    print(json.dumps({"charts": case_public(c), "journal": J.print_journal(c["txns"]),
                      "runs(strict,lax,no-chart)": [brief(x) for x in o],
                      "clauses contradicted": (explain(c, o) if len(o) == 3 and all(x["cls"] != "other" for x in o) else [])}, indent=1, ensure_ascii=False)[:8000])
    return replay_verdict(run, path, j, "the three runs of the stored case (%s) contradict no clause of the specification and the model agrees "
                                        "(or the case is not evaluated: other stage / outside the exact domain)" % "/".join(x["cls"] for x in o))
