# C02 — balance report figures are the exact sums of the postings
import json, os
from common import *
import journal as J

IMPORTS = "From TkModel Require Import Base Dec Acct Balance.\nFrom TkSpec Require Import Balance_spec.\nFrom TkCorr Require Import C02_corr.\n"


def g_bposts(txns):
    ps = []
    for t in txns:
        for p in t["posts"]:
            ps.append("(mkBpost %s %s %s)" % (g_acct(p["acc"]), g_str(p["comm"]), g_dec(p["amount"])))
    return g_list(ps)


def g_report(rep):
    rows = ["(mkBrow %s %s %s %s)" % (g_acct(r["acc"]), g_str(r["comm"]), g_dec(r["own"]), g_dec(r["tree"])) for r in rep["rows"]]
    ds = ["(%s, %s)" % (g_str(d["comm"]), g_dec(d["delta"])) for d in rep["deltas"]]
    return "(mkBal %s %s)" % (g_list(rows), g_list(ds))


def esc_re(s):
    out = ""
    for ch in s:
        out += ("\\" + ch) if ch in r"\.+*?()|[]{}^$-" else ch
    return out


def gen_cases(run, n):
    cases = []
    corpus_dir = os.path.join(VERIF, "corpus", "C02")
    if os.path.isdir(corpus_dir):
        for f in sorted(os.listdir(corpus_dir)):
            if f.endswith(".txn"):
                cases.append({"text": open(os.path.join(corpus_dir, f)).read(), "names": [], "src": "corpus/" + f})
    for i in range(n):
        r = run.rng
        g = J.Gen(r, max_depth=r.choice([2, 3, 5, 7]), n_accounts=r.randint(2, 10), big=(r.random() < 0.1))
        ts = g.journal(r.randint(1, 8), prices=(r.random() < 0.3), meta=False)
        names = []
        if r.random() < 0.3:
            names = r.sample(g.accounts, min(len(g.accounts), r.randint(1, 3)))
        cases.append({"text": J.print_journal(ts), "names": names, "src": "gen"})
    return cases


def main(run, only=None):
    """only: the cases of a replay (no generation, no proof stage, no extra stage, no verdict)"""
    if only is None:
        info = proof_stage(run, "C02", extra_targets=["corr/C02_corr.vo"])
        harness_build()
        n = 120 if run.tier == "quick" else 1500
        cases = gen_cases(run, n)
    else:
        cases = only
    reqs = []
    for c in cases:
        ops = [{"op": "txns"}, {"op": "balance", "prices": False, "ras": [esc_re(x) for x in c["names"]]}]
        smin, smax = J.scale_for(c["text"])        # display setting: must not reach the figures
        reqs.append({"conf": {"toml": J.make_toml(smin=smin, smax=smax)}, "inputs": [{"text": c["text"]}], "ops": ops})
    res = harness_run(reqs)
    terms, idx = [], []
    stages = {}
    for i, (c, r) in enumerate(zip(cases, res)):
        st = r.get("stage") if r else "none"
        stages[st] = stages.get(st, 0) + 1
        if st != "done":
            continue
        txns = r["results"][0].get("ok")
        bal = r["results"][1]
        if txns is None:
            continue
        impl = "None" if "ok" not in bal else "(Some %s)" % g_report(bal["ok"])
        c["impl"] = bal
        c["txns"] = txns
        terms.append("c02_case %s %s %s" % (g_bposts(txns), g_list([g_acct(a) for a in c["names"]]), impl))
        idx.append(i)
    vals, errs = coq_eval("C02", IMPORTS, terms)
    if errs:
        raise Infra("coq evaluation failed: " + errs[0])
    distinct = set()
    n_in_domain = 0
    for j, v in zip(idx, vals):
        c = cases[j]
        bits = as_N(v)
        run.cov["evaluations"] += 1
        if bits is None:
            raise Infra("no result for case %d" % j)
        rows = c["impl"].get("ok", {}).get("rows", [])
        if len(rows) >= 2:
            distinct.add(json.dumps(c["impl"], sort_keys=True))
        if len(run.cov["samples"]) < 3:
            run.cov["samples"].append({"journal": c["text"], "selected": c["names"], "implementation": c["impl"], "bits": bits})
        in_dom = bool(bits & 4)
        n_in_domain += in_dom
        if not in_dom:
            continue
        if not (bits & 2):
            run.violation("balance report contradicts the exact-sum specification",
                          {"journal": c["text"], "selected_accounts": c["names"], "implementation_output": c["impl"],
                           "replay_hint": "tackler --config <base.toml> --input.file <journal> --reports balance"})
        elif not (bits & 1):
            run.cov["disagreements_checked"] += 1
            run.violation("correspondence broken: model Balance.balance_report differs from implementation (spec holds on this input)",
                          {"correspondence": "C02_corr.c02_case", "journal": c["text"], "selected_accounts": c["names"],
                           "implementation_output": c["impl"]}, found_input=False)
    if only is not None:
        return None
    # extra stage (extension T01, DESIGN section 12): the rendered balance and balance-group texts
    # against the text model ReportText.v, byte for byte
    import t01_text
    ok_t, log_t = coq_make(["props/T01.vo"])
    if not ok_t:
        run.violation("proof obligation does not check: props/T01.v (report text model) failed to build",
                      {"theorem_file": "coq/props/T01.v", "log": log_t[-2000:], "stage": "T01"}, found_input=False)
    else:
        for kind in ("balance", "balgrp"):
            t01_text.run_text_stage(run, kind, n=(25 if run.tier == "quick" else 300))
    run.cov["distinct_nontrivial"] = len(distinct)
    run.cov["rule"] = ("seeded random journals (1-8 txns, account trees depth<=7 with gaps and prefix-confusable names, "
                       "1-3 commodities, optional closing prices, optional literal account selection) + corpus; "
                       "non-trivial = balance report with >= 2 rows; distinct = distinct implementation outputs")
    run.notes["stages"] = stages
    run.notes["in_exact_domain"] = n_in_domain
    return run.finish(info)


def replay(run, path):
    """the stored journal + literal account selection again: harness (balance) + c02_case; replays of the T01 text stage
    go to t01.replay (common.replay_begin)"""
    j, rp, rc = replay_begin(run, path)
    if rc is not None:
        return rc
    if not isinstance(rp.get("journal"), str):
        return replay_print(j)
    print(j.get("what"))
    c = {"text": rp["journal"], "names": list(rp.get("selected_accounts") or []), "src": "replay"}
    print("journal:\n%s\nselected accounts: %s" % (c["text"], c["names"]))
    corr_build("C02")
    harness_build()
    main(run, only=[c])
    print("implementation now: %s" % json.dumps(c.get("impl", "journal not loaded / balance not reached"), ensure_ascii=False)[:3000])
    return replay_verdict(run, path, j, "the balance report of the stored journal is the exact-sum report and the model agrees (or the case is not evaluated: rejected journal / outside the exact domain)")
