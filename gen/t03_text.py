# T03 (extension) — the TEXT of the price data base.
# run_text_stage(run, n=None) is the stage of ./check T03 (and an extra stage of the C07 check): generated price
# files are loaded by the implementation (a session whose conf.pricedb is the text; op "pricedb" dumps the stored
# data base, verif::price_db_json) and by the model coq/model/PriceText.v (load_pricedb = parse_pricedb +
# Price.load_db, evaluated with vm_compute through coq/corr/T03_corr.v).  Compared: accepted or rejected, and the
# stored entries one by one (instant, base commodity, rate mantissa AND scale, eq commodity).  A second pass prints
# the entries the model read with the model's canonical printer (PriceText.print_pricedb), gives that text to the
# implementation and requires the same data base again (T03_roundtrip / T03_load on the implementation).
# A difference is a broken correspondence (no numbered property speaks about the file grammar): always reported
# as no-failing-input-found.  A crash of the implementation on a price file is reported with the input.
import json, os, re, datetime
from common import *
import journal as J

IMPORTS = ("From TkModel Require Import Base Dec Acct Txn Accept Journal Price PriceText.\n"
           "From TkSpec Require Import Journal_spec Price_spec PriceText_spec.\n"
           "From TkCorr Require Import T03_corr.\n")

# identifiers: ASCII, Latin-1, currency signs, Greek, CJK, combining mark inside, digits / '-' / '_' / middle dot inside
NAMES = ["EUR", "USD", "XAU", "ACME", "He·bar", "€", "$", "£", "µg", "Ωhm", "日本円", "x1", "a-b_c", "ÅÄÖ", "kg̃", "²H", "Ab‿"]
ZONES = [0, 0, 0, 120, -300, 330, 765, -570]            # minutes
DEFTIMES = [(0, 0), (0, 0), (45296, 0), (86399, 999999999), (3600, 250000000)]   # (seconds of the day, nanoseconds)
SEP = [" ", " ", " ", "  ", "\t", " \t ", "      "]
EPOCH = datetime.datetime(1970, 1, 1)


# ---------------------------------------------------------------- generators: valid stream
def gen_civil(r):
    """(datetime, nanoseconds) — mostly recent, sometimes far away, sometimes within a day of 1970-01-01T00:00Z with a
    fraction (civil date and instant on different sides of the epoch once an offset is written: the class of the
    repaired finding F17; parse_timestamp re-creates the instant, the price data base is keyed and ordered by instant)"""
    k = r.random()
    if k < 0.07:
        dt = EPOCH + datetime.timedelta(seconds=r.choice([r.randint(-86400, 86400), r.randint(-3700, 3700), -1, 0, 1]))
        return dt, r.choice([500000000, 400000000, 600000000, 1, 999999999, 0, r.randint(1, 999999999)])
    if k < 0.8:
        y = r.randint(2019, 2027)
    elif k < 0.9:
        y = r.choice([1, 2, 1582, 1600, 1900, 1968, 1969, 1970, 1972, 2000, 2038, 2100, 9998])
    else:
        y = r.randint(3, 9997)
    mo = r.randint(1, 12)
    dmax = [31, 29 if (y % 4 == 0 and (y % 100 != 0 or y % 400 == 0)) else 28, 31, 30, 31, 30, 31, 31, 30, 31, 30, 31][mo - 1]
    d = r.choice([1, dmax, r.randint(1, dmax)])
    k = r.random()
    if k < 0.35:
        h = mi = s = 0
    elif k < 0.45:
        h, mi, s = 23, 59, 59
    else:
        h, mi, s = r.randint(0, 23), r.randint(0, 59), r.randint(0, 59)
    k = r.random()
    ns = 0 if k < 0.6 else r.choice([1, 999999999, 500000000, 120000000, r.randint(1, 999999999)])
    return datetime.datetime(y, mo, d, h, mi, s), ns


def fmt_frac(r, ns, force=False):
    if ns == 0:
        return ("." + "0" * r.randint(1, 9)) if (force or r.random() < 0.1) else ""
    d = "%09d" % ns
    return "." + (d.rstrip("0") if r.random() < 0.6 else d)


def fmt_stamp(r, dt, ns, form):
    """text of the civil time dt.ns in one of the accepted forms.  'date' drops the time (the configuration's
    default time applies), 'local' and 'frac' have no zone (journal zone applies), 'Z' / 'off' say the zone."""
    if form == "date":
        return dt.strftime("%Y-%m-%d").rjust(10, "0")
    s = "%04d-%02d-%02dT%02d:%02d:%02d" % (dt.year, dt.month, dt.day, dt.hour, dt.minute, dt.second)
    s += fmt_frac(r, ns, force=(form == "frac"))
    if form == "Z":
        s += "Z"
    elif form == "off":
        om = r.choice([0, 0, 60, -300, 330, 345, -570, 840, -720, 1, -1, 1559, -1559])
        s += ("+" if om > 0 or (om == 0 and r.random() < 0.5) else "-") + "%02d:%02d" % (abs(om) // 60, abs(om) % 60)
    return s


def same_instant_other_form(r, dt, ns, cfg):
    """another spelling of the instant that `dt.ns Z` denotes: an explicit offset, or the zone-less form in the
    journal zone (so that duplicate keys hide behind different texts)"""
    k = r.random()
    try:
        if k < 0.5:
            om = r.choice([60, -300, 330, 840, -720])
            d2 = dt + datetime.timedelta(minutes=om)
            return "%04d-%02d-%02dT%02d:%02d:%02d" % (d2.year, d2.month, d2.day, d2.hour, d2.minute, d2.second) + fmt_frac(r, ns) + \
                ("+" if om >= 0 else "-") + "%02d:%02d" % (abs(om) // 60, abs(om) % 60)
        d2 = dt + datetime.timedelta(minutes=cfg["off"])
        return "%04d-%02d-%02dT%02d:%02d:%02d" % (d2.year, d2.month, d2.day, d2.hour, d2.minute, d2.second) + fmt_frac(r, ns)
    except OverflowError:
        return None


def gen_rate(r):
    k = r.random()
    if k < 0.5:
        m, sc = r.randint(1, 500000), r.randint(0, 6)
    elif k < 0.6:
        m, sc = 0, r.choice([0, 0, 1, 2, 28])
    elif k < 0.8:
        m, sc = r.randint(1, 10 ** r.randint(1, 28)), r.randint(0, 28)
    elif k < 0.9:
        m, sc = r.choice([2 ** 96 - 1, 2 ** 96 - 2, 2 ** 95, 10 ** 28, 1]), r.choice([0, 1, 14, 28])
    else:
        m, sc = r.randint(1, 99), r.randint(0, 28)
    ds = str(m).rjust(sc + 1, "0")
    s = ds[:len(ds) - sc] + ("." + ds[len(ds) - sc:] if sc else "")
    if r.random() < 0.08:
        s = "0" * r.randint(1, 12) + s                       # leading zeros
    if r.random() < 0.2:
        s = "-" + s                                          # negative (and -0, -0.00)
    return s


def gen_comment(r):
    k = r.random()
    if k < 0.55:
        return ""
    if k < 0.65:
        return ";"
    if k < 0.8:
        return "; " + r.choice(["note", "P 2024-01-01 X 1 Y", "  two blanks", ";;", "ünï çødé €", "\ttab", "trailing  "])
    if k < 0.9:
        return ";\t" + r.choice(["tab separated", ""])
    return "; "                                             # empty text after the separator


def gen_gap(r, last):
    """what follows an entry line: nothing, blank lines, white-space lines, indentation of the next entry, lone CRs"""
    k = r.random()
    if k < 0.55:
        return ""
    if k < 0.7:
        return r.choice(["\n", "\n\n", "\r\n", "  \n", "\t\n \n", " \t \r\n\n"])
    if k < 0.85:
        return r.choice(["  ", "\t", " \t "]) if not last else r.choice(["  ", "\t", "\n  "])    # leading blanks of the next entry line
    if k < 0.93:
        return r.choice(["\n  ", "  \n\t", "\n\n   "])
    return r.choice(["\r", "\r\r", "\n\r", "\r \n", " \r\t"])                                     # lone carriage returns


def gen_config(r, names):
    off = r.choice(ZONES)
    dsec, dns = r.choice(DEFTIMES)
    k = r.random()
    rc = r.choice(["EUR", "EUR", r.choice(names)])
    if k < 0.55:
        mode, comms = "lax", None
    elif k < 0.75:
        mode, comms = "lax-declared", sorted(set(r.sample(names, r.randint(0, len(names))) + [rc]))
    else:
        mode, comms = "strict", sorted(set(names + [rc]))
    return {"off": off, "dsec": dsec, "dns": dns, "strict": mode == "strict", "comms": comms, "rc": rc, "mode": mode}


def gen_valid(r):
    nm = r.sample(NAMES, r.randint(1, 5))
    cfg = gen_config(r, nm)
    n = r.choice([1, 1, 2, 3, 4, 6, 9])
    stamps = []
    for _ in range(r.randint(1, max(1, n // 2 + 1))):
        dt, ns = gen_civil(r)
        stamps.append((dt, ns))
    lines, tags = [], set()
    keys = []
    for i in range(n):
        dt, ns = r.choice(stamps)
        form = r.choice(["date", "date", "local", "local", "frac", "Z", "Z", "off", "off"])
        if form == "date":
            ts = fmt_stamp(r, dt, 0, form)
        else:
            ts = fmt_stamp(r, dt, ns, form)
        b, q = r.choice(nm), r.choice(nm)
        if keys and r.random() < 0.15:
            # a duplicate key on purpose: the same pair at the same instant (same or different spelling), another rate
            (dt0, ns0, b, q) = r.choice(keys)
            alt = same_instant_other_form(r, dt0, ns0, cfg) if r.random() < 0.5 else None
            ts = alt or fmt_stamp(r, dt0, ns0, "Z")
            tags.add("duplicate-key")
        elif form == "Z":
            keys.append((dt, ns, b, q))
        tags.add("ts:" + form)
        sp = [r.choice(SEP) for _ in range(4)]
        trail = r.choice(["", "", "", " ", "  ", "\t"])
        cm = gen_comment(r)
        if cm:
            tags.add("comment" if len(cm) > 1 else "comment-empty")
            if trail == "":
                tags.add("comment-without-leading-space")
        eol = "\r\n" if r.random() < 0.2 else "\n"
        if eol == "\r\n":
            tags.add("crlf")
        gap = gen_gap(r, i == n - 1)
        if gap:
            tags.add("gap")
            if gap.strip("\n\r") != "" and not gap.endswith("\n"):
                tags.add("indented-entry" if i < n - 1 else "trailing-blanks")
            if "\r" in gap.replace("\r\n", ""):
                tags.add("lone-cr-after-entry")
        lines.append("P" + sp[0] + ts + sp[1] + b + sp[2] + gen_rate(r) + sp[3] + q + trail + cm + eol + gap)
    if r.random() < 0.5:
        r.shuffle(lines)
        tags.add("shuffled")
    pre = ""
    if r.random() < 0.3:
        pre = "".join(r.choice(["\n", "\r\n", "  \n", "\t \t\n", " \r\n"]) for _ in range(r.randint(1, 3)))
        tags.add("leading-blank-lines")
    if cfg["strict"]:
        tags.add("strict-all-declared")
    return dict(cfg, text=pre + "".join(lines), tags=sorted(tags), src="gen", expect=None)


# ---------------------------------------------------------------- generators: malformed stream
def line(ts="2024-01-09", b="XAU", rate="2659.64", q="USD", tail=""):
    return "P %s %s %s %s%s\n" % (ts, b, rate, q, tail)


def gen_malformed(r):
    """mostly rejected; some of these are in fact accepted (tabs for blanks, a trailing blank) — the model decides"""
    base = gen_valid(r)
    t = base["text"]
    kinds = ["no-final-newline", "lower-case-p", "tabs", "number-1dot", "number-dot5", "number-plus", "number-range", "scale-29",
             "missing-field", "garbage-after-eq", "empty", "only-blanks", "bom", "first-entry-indented", "lone-cr-before-first",
             "comment-no-space", "comment-lone-cr", "bad-date", "bad-time", "frac-10", "offset-range", "T-without-time", "two-on-a-line",
             "nbsp-separator", "digit-identifier", "colon-identifier", "form-feed", "strict-undeclared", "lax-white-space-name",
             "mutate-char", "mutate-char", "mutate-char", "mutate-char", "instant-out-of-range", "blank-line-with-text", "P-only"]
    k = r.choice(kinds)
    cfg = {kk: base[kk] for kk in ("off", "dsec", "dns", "strict", "comms", "rc", "mode")}
    good = line()
    if k == "no-final-newline":
        t = t.rstrip("\r\n \t") if r.random() < 0.5 else good + line(ts="2024-01-10").rstrip("\n") + r.choice(["", " ", "; c"])
    elif k == "lower-case-p":
        t = r.choice(["p" + good[1:], good + "p" + good[1:]])
    elif k == "tabs":
        t = good.replace(" ", "\t") + good.replace(" ", r.choice(["\t\t", " \t"]))
    elif k == "number-1dot":
        t = line(rate=r.choice(["1.", "-1.", "0."]))
    elif k == "number-dot5":
        t = line(rate=r.choice([".5", "-.5", "."]))
    elif k == "number-plus":
        t = line(rate=r.choice(["+1", "+0.5", "1e3", "1_000", "1,5", "--1", "- 1"]))
    elif k == "number-range":
        t = line(rate=r.choice([str(2 ** 96), str(2 ** 96 - 1), "-" + str(2 ** 96), str(2 ** 96 - 1) + ".0", "7922816251426433759354395033.6",
                                "79228162514264337593543950.336", "0." + "0" * 27 + "1", "0" * 40 + "1.5"]))
    elif k == "scale-29":
        t = line(rate=r.choice(["0." + "0" * 28 + "1", "1." + "0" * 29, "0." + "1" * 29, "-0." + "0" * 29]))
    elif k == "missing-field":
        t = r.choice(["P 2024-01-09 XAU 2659.64\n", "P 2024-01-09 XAU USD\n", "P 2024-01-09 2659.64 USD\n", "P XAU 2659.64 USD\n",
                      "P 2024-01-09\n", "P2024-01-09 XAU 1 USD\n", "P 2024-01-09XAU 1 USD\n", "P 2024-01-09 XAU1 USD\n", "P 2024-01-09 XAU 1USD\n"])
    elif k == "garbage-after-eq":
        t = line(tail=r.choice([" x", " 5", " USD", " @ 1 EUR", ",", " #c", " ;c", "\x0c", "\u00a0"]))
    elif k == "empty":
        t = ""
    elif k == "only-blanks":
        t = r.choice(["\n", " ", "  \n\t\n", "\r\n\r\n", "\t", "\r", " \r\n "])
    elif k == "bom":
        t = "\ufeff" + good
    elif k == "first-entry-indented":
        t = r.choice([" ", "\t", "\n ", "  \n\t", "\r\n  "]) + good
    elif k == "lone-cr-before-first":
        t = r.choice(["\r", "\n\r", " \r", "\r\r\n"]) + good
    elif k == "comment-no-space":
        t = line(tail=r.choice([";c", " ;c", ";;", " ;\u00a0c"]))
    elif k == "comment-lone-cr":
        t = r.choice([line(tail=" ; a\rb"), "P 2024-01-09 XAU 1 USD ; a\r", "P 2024-01-09 XAU 1 USD ;\r", "P 2024-01-09 XAU 1 USD\r",
                      "P 2024-01-09 XAU 1 USD ; a\r\r\n", "P 2024-01-09 XAU 1 USD\r\r\n"]) + r.choice(["", good])
    elif k == "bad-date":
        t = line(ts=r.choice(["2023-02-29", "2024-02-30", "2024-13-01", "2024-00-10", "2024-04-31", "2024-1-09", "24-01-09", "2024/01/09",
                              "1900-02-29", "2000-02-29", "-2024-01-01", "02024-01-01", "2024-01-00"]))
    elif k == "bad-time":
        t = line(ts=r.choice(["2024-01-09T24:00:00", "2024-01-09T23:60:00", "2024-01-09T23:59:60", "2024-01-09T1:02:03", "2024-01-09T10:00",
                              "2024-01-09t10:00:00", "2024-01-09 10:00:00", "2024-01-09T10:00:00z", "2024-01-09T10:00:00.", "2024-01-09T10:00:00,5"]))
    elif k == "frac-10":
        t = line(ts=r.choice(["2024-01-09T10:00:00.1234567890", "2024-01-09T10:00:00.1234567890Z", "2024-01-09T10:00:00.123456789",
                              "2024-01-09T10:00:00.000000000+02:00"]))
    elif k == "offset-range":
        t = line(ts="2024-01-09T10:00:00" + r.choice(["+26:00", "-26:00", "+25:59", "-25:59", "+25:60", "+2:00", "+0200", "+02", "+02:0", "+99:99"]))
    elif k == "T-without-time":
        t = line(ts=r.choice(["2024-01-09T", "2024-01-09TZ", "2024-01-09Z", "2024-01-09+02:00"]))
    elif k == "two-on-a-line":
        t = good.rstrip("\n") + " " + good
    elif k == "nbsp-separator":
        t = good.replace(" ", "\u00a0", 1) if r.random() < 0.5 else "P 2024-01-09 XAU\u00a01 USD\n"
    elif k == "digit-identifier":
        t = r.choice([line(b="1XAU"), line(q="9"), line(b="-x"), line(b="_x"), line(b="·x"), line(q="U$D"), line(b="x/y"), line(b="̃k")])
    elif k == "colon-identifier":
        t = r.choice([line(b="a:b"), line(q="a:b"), line(b="a:"), line(b=":a")])
    elif k == "form-feed":
        t = r.choice([good + "\x0c", "\x0c" + good, good + "\x0b\n", good + " ", good + "\u00a0\n", good + "\x00"])
    elif k == "strict-undeclared":
        cfg.update(strict=True, mode="strict", rc="EUR")
        cfg["comms"] = r.choice([["EUR", "XAU"], ["EUR", "USD"], ["EUR"], ["EUR", "XAU", "USD"], ["EUR", "xau", "USD"]])
        t = good + (line(b="USD", q="XAU") if r.random() < 0.5 else "")
    elif k == "lax-white-space-name":
        cfg.update(strict=False, mode="lax", comms=None)
        t = r.choice([line(b="X\u1680Y"), line(q="\u1680"), good + line(q="A\u1680"), line(b="X\u1680Y") + good])
    elif k == "instant-out-of-range":
        t = line(ts=r.choice(["9999-12-31T23:59:59-00:01", "9999-12-31T23:59:59Z", "9999-12-31T23:59:59.999999999+25:59", "0000-01-01T00:00:00+00:01",
                              "0000-01-01T00:00:00Z", "0000-01-01", "9999-12-31", "9999-12-31T23:59:59", "0000-01-01T00:00:00-25:59",
                              "9999-12-30T22:00:00Z", "9999-12-30T22:00:01Z", "9999-12-30T21:59:59.999999999Z"]))
    elif k == "blank-line-with-text":
        t = good + r.choice(["x\n", "2024-01-10 XAU 1 USD\n", "; comment\n", "# comment\n", " ; c\n", "P\n"]) + r.choice(["", good])
    elif k == "P-only":
        t = r.choice(["P", "P\n", "P \n", "P 2024-01-09", "P 2024-01-09 \n"])
    elif k == "mutate-char" and t:
        # one random edit of a valid file
        i = r.randrange(len(t))
        op = r.random()
        c = r.choice([" ", "\t", "\n", "\r", "P", "p", ";", ".", "-", "+", ":", "0", "9", "T", "Z", "x", "€", "\u00a0", "\u1680", ","])
        if op < 0.4:
            t = t[:i] + t[i + 1:]
        elif op < 0.7:
            t = t[:i] + c + t[i:]
        else:
            t = t[:i] + c + t[i + 1:]
    return dict(cfg, text=t, tags=["malformed:" + k], src="gen", expect=None)


# ---------------------------------------------------------------- requests and terms
def cfg_key(c):
    return json.dumps([c["off"], c["dsec"], c["dns"], c["strict"], c["comms"], c["rc"]], ensure_ascii=False)


def request(c, text):
    """a session that reads `text` as its price data base.  The journal is one transaction in the report commodity on
    two accounts (declared when a chart is given), so that the run reaches the op unless the price file is rejected."""
    off = c["off"]
    tz = 'name = "UTC"' if off == 0 else 'offset = "%s%02d:%02d"' % ("+" if off >= 0 else "-", abs(off) // 60, abs(off) % 60)
    dsec, dns = c["dsec"], c["dns"]
    deftime = "%02d:%02d:%02d" % (dsec // 3600, dsec // 60 % 60, dsec % 60) + (("." + ("%09d" % dns).rstrip("0")) if dns else "")
    kw = dict(price='[price]\ndb-path = "prices.db"\nlookup-type = "last-price"', rcomm='commodity = "%s"' % c["rc"], tz=tz, deftime=deftime)
    conf = {}
    if c["comms"] is not None:
        kw.update(accounts="accounts.toml", commodities="commodities.toml", strict="true" if c["strict"] else "false")
        conf["accounts"] = 'accounts = ["e", "a"]\n'
        conf["commodities"] = "commodities = %s\n" % J.toml_list(c["comms"])
    conf["toml"] = J.make_toml(**kw)
    conf["pricedb"] = text
    return {"conf": conf, "inputs": [{"text": "2024-01-01\n e 1 %s\n a -1 %s\n" % (c["rc"], c["rc"])}], "ops": [{"op": "pricedb"}]}


def known_names(c):
    """commodities.names when the price file is read: the chart, plus the report commodity when not strict
    (Settings::try_from looks the report commodity up first; in strict mode it has to be in the chart)"""
    ks = list(c["comms"] or [])
    if c["rc"] not in ks and not c["strict"]:
        ks.append(c["rc"])
    return ks


def g_cfg(c):
    ks = known_names(c)
    return "(t03_cfg %s %s %s %s)" % (g_Z(c["off"] * 60), g_Z(c["dsec"] * 10 ** 9 + c["dns"]), g_bool(c["strict"]),
                                      g_list([g_str(k) for k in ks]) if ks else "(@nil (list N))")


def g_db(db):
    if not db:
        return "(@nil pentry)"
    return g_list(["(mkPE %s %s %s %s)" % (g_Z(int(e["ts"]["ns"])), g_str(e["base"]), g_dec(e["rate"]), g_str(e["eq"])) for e in db])


def parse_str(v):
    return "".join(chr(int(x)) for x in re.findall(r"\d+", v or ""))


def db_view(db):
    return [[int(e["ts"]["ns"]), e["base"], list(dec_parts(e["rate"])), e["eq"]] for e in db]


def parse_model_db(v):
    """printed `[(inst, [..], (m, s%N), [..]); ...]` -> list (diagnostics in replay files only)"""
    out = []
    for m in re.finditer(r"\((-?\d+),\s*(\[[^\]]*\]|nil),\s*\((-?\d+),\s*(\d+)%?N?\),\s*(\[[^\]]*\]|nil)\)", (v or "").replace("%N", "").replace("%Z", "")):
        out.append([int(m.group(1)), parse_str(m.group(2)), [int(m.group(3)), int(m.group(4))], parse_str(m.group(5))])
    return out


def new_stats():
    return {"cases": 0, "compared": 0, "accepted": 0, "rejected": 0, "different": 0, "impl_crashed": 0, "not_compared": {},
            "entries_read": 0, "entries_stored": 0, "files_with_dropped_duplicates": 0, "characters": 0, "tags": {},
            "malformed_accepted": 0, "malformed_rejected": 0, "valid_stream_rejected": 0, "strict_cases": 0, "declared_lax_cases": 0,
            "non_utc_zone": 0, "non_midnight_default_time": 0, "canonical_reloaded": 0, "canonical_different": 0,
            "canonical_skipped_not_printable": 0, "corpus_expectations": 0}


def replay_obj(c, extra=None):
    rep = {"correspondence": "T03_corr.t03_case", "price_file": c["text"],
           "case": {k: c.get(k) for k in ("text", "off", "dsec", "dns", "strict", "comms", "rc", "mode", "tags", "src", "expect")},
           "journal_timezone_offset_minutes": c["off"], "default_time": [c["dsec"], c["dns"]], "strict": c["strict"],
           "chart_of_commodities": c["comms"], "report_commodity": c["rc"],
           "replay_hint": "./check T03 --replay <this file>; tackler.toml: [price] db-path = prices.db (the price_file), lookup-type = last-price, "
                          "[report] commodity, kernel.timestamp default-time / timezone, kernel.strict and transaction.commodities as given"}
    rep.update(extra or {})
    return rep


def check_cases(run, cases, st, distinct=None, canonical=True):
    # one control run per distinct configuration: with a one-line price file it must reach the op, so that a
    # "settings" outcome of a case is the price file's doing
    ctl = {}
    for c in cases:
        ctl.setdefault(cfg_key(c), c)
    keys = list(ctl)
    res = harness_run([request(ctl[k], "P 2024-01-01 %s 1 %s\n" % (ctl[k]["rc"], ctl[k]["rc"])) for k in keys] +
                      [request(c, c["text"]) for c in cases])
    for k, rr in zip(keys, res[:len(keys)]):
        if not rr or rr.get("stage") != "done" or "ok" not in (rr.get("results") or [{}])[0]:
            raise Infra("T03: the control configuration %s does not load a one-line price file: %s" % (k, json.dumps(rr)[:400]))
    res = res[len(keys):]
    terms, keep = [], []
    for c, rr in zip(cases, res):
        st["cases"] += 1
        stg = rr.get("stage") if rr else "none"
        for t in c["tags"]:
            st["tags"][t] = st["tags"].get(t, 0) + 1
        if stg in ("panic", "abort", "timeout") or (stg == "done" and rr["results"][0].get("panic")):
            st["impl_crashed"] += 1
            run.violation("the implementation crashed while reading a price file (stage %s)" % stg,
                          replay_obj(c, {"implementation": rr}))
            continue
        if stg == "settings":
            c["impl"] = None
        elif stg == "done" and "ok" in rr["results"][0]:
            c["impl"] = rr["results"][0]["ok"]
        else:
            st["not_compared"][stg] = st["not_compared"].get(stg, 0) + 1
            continue
        c["impl_err"] = (rr.get("err") or "")[:300] if stg == "settings" else None
        terms.append("t03_case %s %s %s" % (g_cfg(c), g_str(c["text"]), "None" if c["impl"] is None else "(Some %s)" % g_db(c["impl"])))
        keep.append(c)
    ok, log = coq_make(["corr/T03_corr.vo"])
    if not ok:
        raise Infra("coq build of corr/T03_corr.vo failed:\n" + log[-3000:])
    vals, errs = coq_eval("T03-" + run.prop, IMPORTS, terms) if terms else ([], [])
    if errs:
        raise Infra("coq evaluation failed: " + errs[0])
    bad, canon = [], []
    for c, v in zip(keep, vals):
        n = as_N(v)
        if n is None:
            raise Infra("no result for a T03 case (%s)" % c.get("src"))
        c["bits"] = n
        st["compared"] += 1
        st["characters"] += len(c["text"])
        acc = c["impl"] is not None
        st["accepted" if acc else "rejected"] += 1
        st["strict_cases"] += bool(c["strict"])
        st["declared_lax_cases"] += (c["comms"] is not None and not c["strict"])
        st["non_utc_zone"] += c["off"] != 0
        st["non_midnight_default_time"] += (c["dsec"], c["dns"]) != (0, 0)
        mal = any(t.startswith("malformed:") for t in c["tags"])
        if mal:
            st["malformed_accepted" if acc else "malformed_rejected"] += 1
        elif not acc and c["src"] == "gen":
            st["valid_stream_rejected"] += 1
        if acc:
            st["entries_read"] += n >> 4
            st["entries_stored"] += len(c["impl"])
            st["files_with_dropped_duplicates"] += (n >> 4) > len(c["impl"])
            if distinct is not None:
                distinct.add(json.dumps(db_view(c["impl"]), ensure_ascii=False))
        if not (n & 4):
            run.violation("proof obligation contradicted: PriceText.parse_pricedb ran out of fuel (T03_total says it cannot)",
                          replay_obj(c, {"theorem_file": "coq/props/T03.v", "bits": n}), found_input=False)
        if c.get("expect") is not None:
            st["corpus_expectations"] += 1
            want = c["expect"]
            got = "rejected" if not acc else db_view(c["impl"])
            if want != got:
                run.violation("corpus case %s: the implementation's outcome is not the recorded one (the file grammar changed?)" % c["src"],
                              replay_obj(c, {"expected": want, "implementation": got, "implementation_error": c["impl_err"]}), found_input=False)
        if not (n & 1):
            bad.append(c)
        elif acc and canonical:
            if n & 8:
                canon.append(c)
            else:
                st["canonical_skipped_not_printable"] += 1
    if bad:
        mv, errs = coq_eval("T03-%s-model" % run.prop, IMPORTS, ["t03_model_db %s %s" % (g_cfg(c), g_str(c["text"])) for c in bad[:5]])
        if errs:
            raise Infra("coq evaluation of the model data base failed: " + errs[0])
        for c, v in zip(bad[:5], mv):
            run.cov["disagreements_checked"] += 1
            run.violation("correspondence broken: PriceText.parse_pricedb differs from the implementation's reading of the price file "
                          "(model %s, implementation %s)" % ("accepts" if c["bits"] & 2 else "rejects", "accepts" if c["impl"] is not None else "rejects"),
                          replay_obj(c, {"bits": c["bits"], "model_accepts": bool(c["bits"] & 2), "model_entries_read": c["bits"] >> 4,
                                         "model_data_base": parse_model_db(v) if c["bits"] & 2 else None,
                                         "implementation_data_base": None if c["impl"] is None else db_view(c["impl"]),
                                         "implementation_error": c["impl_err"]}), found_input=False)
    st["different"] += len(bad)
    # second pass: the model's canonical text of what it read, through the implementation
    if canon:
        tv, errs = coq_eval("T03-%s-canon" % run.prop, IMPORTS, ["t03_canonical %s %s" % (g_cfg(c), g_str(c["text"])) for c in canon])
        if errs:
            raise Infra("coq evaluation of the canonical text failed: " + errs[0])
        texts = [parse_str(v) for v in tv]
        res2 = harness_run([request(c, t) for c, t in zip(canon, texts)])
        for c, t, rr in zip(canon, texts, res2):
            st["canonical_reloaded"] += 1
            got = rr["results"][0].get("ok") if rr and rr.get("stage") == "done" else None
            if got is None or db_view(got) != db_view(c["impl"]):
                st["canonical_different"] += 1
                run.cov["disagreements_checked"] += 1
                run.violation("correspondence broken: the canonical text PriceText.print_pricedb of the entries read from a price file does not "
                              "load to the same data base in the implementation (contradicts T03_roundtrip / T03_load)",
                              replay_obj(c, {"canonical_text": t, "implementation_data_base": db_view(c["impl"]),
                                             "implementation_on_canonical_text": None if got is None else db_view(got),
                                             "implementation_on_canonical_text_raw": None if got is not None else rr}), found_input=False)
            elif "sample" not in st and c["src"] == "gen" and 1 < len(c["impl"]) < 6 and len(c["text"]) < 500:
                st["sample"] = {"price_file": c["text"], "journal_zone_minutes": c["off"], "default_time": [c["dsec"], c["dns"]], "mode": c["mode"],
                                "stored": db_view(c["impl"]), "canonical_text": t, "result": c["bits"]}
    return keep


def corpus_cases():
    out = []
    cdir = os.path.join(VERIF, "corpus", "T03")
    if os.path.isdir(cdir):
        for f in sorted(os.listdir(cdir)):
            if f.endswith(".json"):
                for i, c in enumerate(json.load(open(os.path.join(cdir, f)))):
                    c = dict(c)
                    c.setdefault("off", 0); c.setdefault("dsec", 0); c.setdefault("dns", 0); c.setdefault("strict", False)
                    c.setdefault("comms", None); c.setdefault("rc", "EUR"); c.setdefault("expect", None)
                    c["mode"] = "strict" if c["strict"] else ("lax" if c["comms"] is None else "lax-declared")
                    c["tags"] = list(c.get("tags", ["corpus"])); c["src"] = "corpus/T03/%s#%d" % (f, i)
                    out.append(c)
    return out


def run_text_stage(run, n=None):
    """violations registered by this stage carry "stage": "T03" in their replays (common.Run.in_stage)"""
    with run.in_stage("T03"):
        return _run_text_stage(run, n)


def _run_text_stage(run, n=None):
    """the harness must be built (harness_build()). Returns the counts (also stored in run.notes["text_pricedb"]).
    Called from another check (C07) it first makes sure that the theorems of coq/props/T03.v still build."""
    if n is None:
        n = 300 if run.tier == "quick" else 5000
    if run.prop != "T03":
        ok_t, log_t = coq_make(["props/T03.vo"])
        if not ok_t:
            run.violation("proof obligation does not check: props/T03.v (price-file text model) failed to build",
                          {"theorem_file": "coq/props/T03.v", "log": log_t[-2000:]}, found_input=False)
            return {"compared": 0, "distinct_data_bases": 0, "proofs_failed": True}
    r = run.rng
    cases = corpus_cases()
    for i in range(n):
        cases.append(gen_malformed(r) if i % 3 == 2 else gen_valid(r))
    st = new_stats()
    distinct = set()
    check_cases(run, cases, st, distinct)
    st["distinct_data_bases"] = len(distinct)
    run.notes["text_pricedb"] = st
    return st
