# C09 — audit mode: UUIDs enforced; the set checksum is the specified hash of the set;
#       the account-selector checksum is the same construction over the selector patterns
import json, os, re, hashlib, copy
from common import *
import journal as J

IMPORTS = ("From TkModel Require Import Base Audit.\nFrom TkSpec Require Import Audit_spec.\n"
           "From TkCorr Require Import C09_corr.\n")

# tackler name -> independent implementation (Python hashlib / OpenSSL)
HASHES = {"SHA-256": "sha256", "SHA-512": "sha512", "SHA-512/256": "sha512_256",
          "SHA3-256": "sha3_256", "SHA3-512": "sha3_512"}
BAD_HASHES = ["sha-256", "SHA256", "SHA-1", "SHA-384", "SHA3-384", "SHA-512/224", "SHA2-256", " SHA-256", ""]

SEL_PATTERNS = ["a", "a:.*", "^a.*$", "^(?:a)$", "^(?:a:b)$", "^(?:^(?:a)$)$", ".*", "b|a", "(a|b)(:.*)?", "é.*", "€uro",
                "Assets:.*", "[a-c]+", "a\\.b", "e", "E", "a ", "", "a:b", "e.*", "^(?:a)$|e", "(?:e)", "^e$", "B", "~"]


def digest(name, data):
    return hashlib.new(HASHES[name], data).hexdigest()


def g_bytes(b):
    return "[" + "; ".join("%d" % x for x in b) + "]%N" if b else "(@nil N)"


def g_optstr(s):
    return "None" if s is None else "(Some %s)" % g_str(s)


# ---------------------------------------------------------------- journals
def rand_uuid(r):
    h = "%032x" % r.getrandbits(128)
    return "%s-%s-%s-%s-%s" % (h[:8], h[8:12], h[12:16], h[16:20], h[20:])


def mix_case(r, u, mode=None):
    mode = mode if mode is not None else r.choice(["lower", "upper", "mixed", "mixed"])
    if mode == "lower":
        return u.lower()
    if mode == "upper":
        return u.upper()
    return "".join(c.upper() if r.random() < 0.5 else c.lower() for c in u)


def near(r, u):
    """a different uuid that differs from u in exactly one hex digit (first, last or random position)"""
    pos = [i for i, c in enumerate(u) if c != "-"]
    i = r.choice([pos[0], pos[-1], r.choice(pos)])
    c = u[i].lower()
    d = r.choice([x for x in "0123456789abcdef" if x != c])
    return u[:i] + d + u[i + 1:]


def malform(r, u):
    k = r.randint(0, 9)
    if k == 0:
        return u[:-1], "35-chars"
    if k == 1:
        return u + r.choice("0aF"), "37-chars"
    if k == 2:
        i = r.choice([i for i, c in enumerate(u) if c != "-"])
        return u[:i] + r.choice("gGxz") + u[i + 1:], "non-hex"
    if k == 3:
        return u.replace("-", "", 1), "missing-dash"
    if k == 4:
        return "{" + u + "}", "braced"
    if k == 5:
        return "urn:uuid:" + u, "urn"
    if k == 6:
        return u.replace("-", ""), "simple-32"
    if k == 7:
        return u[:8] + "_" + u[9:], "wrong-separator"
    if k == 8:
        return u[:9] + u[8] + u[9:-1], "shifted-dash"
    return u[:18] + "-" + u[18:], "extra-dash"


def mk_txn(r, k, keep, printed_uuid, extra=True):
    y, mo, d = r.choice([2023, 2024, 2024]), r.randint(1, 12), r.randint(1, 28)
    ts = "%04d-%02d-%02d" % (y, mo, d)
    if r.random() < 0.5:
        ts += "T%02d:%02d:%02d" % (r.randint(0, 23), r.randint(0, 59), r.randint(0, 59))
        if r.random() < 0.5:
            ts += r.choice(["Z", "+02:00", "-05:30"])
    amt = (r.randint(1, 500), r.choice([0, 1, 2]))
    t = {"ts": ts, "code": None, "desc": "t%d %s" % (k, "keep" if keep else "drop"), "uuid": printed_uuid, "loc": None, "tags": None,
         "comments": [], "last": None,
         "posts": [{"acc": r.choice(["a", "a:b", "e", "Assets:x"]), "amount": amt, "comm": "", "closing": None, "opening": None, "comment": None},
                   {"acc": r.choice(["b", "e:f", "€uro"]), "amount": (-amt[0], amt[1]), "comm": "", "closing": None, "opening": None, "comment": None}]}
    if extra:
        if r.random() < 0.25:
            t["code"] = r.choice(["c1", "keep", "#9"])
        if r.random() < 0.3:
            t["tags"] = r.sample(["t1", "a:b", "x-y"], r.randint(1, 2))
        if r.random() < 0.25:
            t["loc"] = (J.dec_str(r.randint(-9000, 9000), 2), J.dec_str(r.randint(-18000, 18000), 2), None)
        if r.random() < 0.15:
            t["comments"] = ["note"]
    return t


def pick_channel(r, c):
    """c["audit"] is the EFFECTIVE mode (what the model gets). Choose independently the configuration
    file's `audit = { mode = .. }` and an optional session override (command line); effective = override
    if present else file."""
    eff = c["audit"]
    k = r.random()
    if k < 0.3:
        c["audit_file"], c["audit_override"] = eff, None
    elif k < 0.5:
        c["audit_file"], c["audit_override"] = eff, eff
    else:
        c["audit_file"], c["audit_override"] = (not eff), eff
    return c


def channel_of(c):
    f = c.get("audit_file", c["audit"])
    o = c.get("audit_override")
    eff = f if o is None else o
    if eff != c["audit"]:
        raise Infra("case with inconsistent audit channels: %r" % ({k: c.get(k) for k in ("audit", "audit_file", "audit_override")},))
    return f, o


def channel_name(c):
    f, o = channel_of(c)
    return "file=%s,override=%s" % (g_bool(f), "none" if o is None else g_bool(o))


FILTERS = [
    ("none", None),
    ("desc-keep", {"txnFilter": {"TxnFilterTxnDescription": {"regex": "t\\d+ keep"}}}),
    ("not-desc-drop", {"txnFilter": {"TxnFilterNOT": {"txnFilter": {"TxnFilterTxnDescription": {"regex": ".* drop"}}}}}),
    ("and-keep-true", {"txnFilter": {"TxnFilterAND": {"txnFilters": [{"TxnFilterTxnDescription": {"regex": ".*keep"}}, {"NullaryTRUE": {}}]}}}),
    ("all", {"txnFilter": {"NullaryTRUE": {}}}),
    ("nothing", {"txnFilter": {"NullaryFALSE": {}}}),
]


def gen_journal_case(run):
    r = run.rng
    n = r.choice([1, 1, 2, 2, 3, 3, 4, 5, 6, 8, 12])
    audit = r.random() < 0.85
    hname = r.choice(list(HASHES))
    tags = []
    if r.random() < 0.05:
        hname = r.choice(BAD_HASHES)
        tags.append("bad-hash-name")
    fname, flt = r.choice(FILTERS)
    pool = []          # canonical uuids used so far (with keep flag)
    raws, txns = [], []
    dup_mode = r.choice(["none", "none", "selected", "unselected", "cross", "case"])
    for k in range(n):
        keep = r.random() < 0.6
        u = rand_uuid(r)
        if pool and dup_mode != "none" and r.random() < 0.45:
            (pu, pkeep) = r.choice(pool)
            if dup_mode == "selected":
                u, keep = pu, True
                if not pkeep:
                    keep = False
            elif dup_mode == "unselected":
                if not pkeep:
                    u, keep = pu, False
            elif dup_mode == "cross":
                u, keep = pu, (not pkeep)
            else:
                u, keep = pu, pkeep
            tags.append("reused-uuid")
        elif pool and r.random() < 0.2:
            u = near(r, r.choice(pool)[0])
            tags.append("near-uuid")
        pool.append((u, keep))
        token = mix_case(r, u)
        if r.random() < 0.04:
            token, why = malform(r, token)
            tags.append("malformed:" + why)
        if r.random() < (0.06 if audit else 0.3):
            token = None
            tags.append("missing-uuid")
        raws.append(token)
        printed = None if token is None else r.choice(["", "", " ", "\t "]) + token + r.choice(["", "", "  ", "\t"])
        txns.append(mk_txn(r, k, keep, printed))
    # a filter on one specific uuid selects every transaction carrying it
    if r.random() < 0.08 and any(x is not None for x in raws):
        tok = r.choice([x for x in raws if x is not None])
        if re.fullmatch(r"[0-9a-fA-F]{8}(-[0-9a-fA-F]{4}){3}-[0-9a-fA-F]{12}", tok):
            fname, flt = "uuid", {"txnFilter": {"TxnFilterTxnUUID": {"uuid": tok.lower()}}}
    return pick_channel(r, {"kind": "journal", "audit": audit, "hash": hname, "raws": raws, "txns": txns, "filter": flt, "filter_name": fname,
            "meta_order": r.choice(["ult", "utl", "tul", "tlu", "lut", "ltu"]), "tags": tags, "src": "gen"})


def gen_selector_case(run):
    r = run.rng
    audit = r.random() < 0.85
    k = r.choice([0, 1, 1, 2, 2, 3, 4, 6])
    pats = [r.choice(SEL_PATTERNS) for _ in range(k)]
    if pats and r.random() < 0.3:
        pats.append(r.choice(pats))          # repeated pattern
    if r.random() < 0.3:
        pats = sorted(pats, reverse=True)
    return pick_channel(r, {"kind": "selector", "audit": audit, "hash": r.choice(list(HASHES)), "pats": pats,
            "op": r.choice(["text_balance", "text_register", "text_balgrp", "equity"]),
            "via": r.choice(["overlap", "overlap", "report", "own"]), "tags": [], "src": "gen"})


SEL_JOURNAL = """2024-01-01 'x
 # uuid: 0e3f2e08-1ebb-45e8-832d-58caf54ed95f
 a  1
 e

2024-01-02 'y
 # uuid: 1e3f2e08-1ebb-45e8-832d-58caf54ed95f
 a:b  2
 €uro

2024-01-03 'z
 # uuid: 2e3f2e08-1ebb-45e8-832d-58caf54ed95f
 Assets:x  3
 b
"""


def journal_text(c):
    if "journal_text" in c:          # a replayed case: the text as stored (its transactions' structure is not kept in the replay file)
        return c["journal_text"]
    return J.print_journal(c["txns"], meta_order=c.get("meta_order", "ult"))


def requests_of(c):
    """harness requests of one case (first = the run under test)"""
    afile, aover = channel_of(c)
    if c["kind"] == "journal":
        text = journal_text(c)
        a = {"conf": {"toml": J.make_toml(audit=g_bool(afile), hash=c["hash"])}, "inputs": [{"text": text}],
             "ops": [{"op": "metadata"}, {"op": "txns"}]}
        if aover is not None:
            a["overlaps"] = {"audit": aover}
        # selection run: audit off through both channels
        b = {"conf": {"toml": J.make_toml(audit="false")}, "overlaps": {"audit": False}, "inputs": [{"text": text}], "ops": [{"op": "txns"}]}
        if c["filter"] is not None:
            a["filter"] = json.dumps(c["filter"])
            b["filter"] = json.dumps(c["filter"])
        return [a, b]
    kw = {"audit": g_bool(afile), "hash": c["hash"]}
    rq = {"inputs": [{"text": SEL_JOURNAL}], "ops": [{"op": c["op"]}], "overlaps": {}}
    if aover is not None:
        rq["overlaps"]["audit"] = aover
    lst = ", accounts = " + J.toml_list(c["pats"])
    if c["via"] == "overlap":
        rq["overlaps"]["accounts"] = c["pats"]
    elif c["via"] == "report":
        kw["raccounts"] = "accounts = " + J.toml_list(c["pats"])
    else:
        kw.update({"bal_acc": lst, "balgrp_acc": lst, "reg_acc": lst, "eq_acc": lst, "raccounts": 'accounts = ["never-used"]'})
    rq["conf"] = {"toml": J.make_toml(**kw)}
    return [rq]


MD_ITEM = re.compile(r"^[ ;]*Txn Set Checksum\n[ ;]*(\S+) : (\S*)\n[ ;]*Set size : (\d+)$", re.M)
SEL_ITEM = re.compile(r"^[ ;]*Account Selector Checksum\n[ ;]*(\S+) : (.*)$", re.M)


def load_corpus():
    out = []
    d = os.path.join(VERIF, "corpus", "C09")
    if os.path.isdir(d):
        for f in sorted(os.listdir(d)):
            if f.endswith(".json"):
                c = json.load(open(os.path.join(d, f)))
                c["src"] = "corpus/" + f
                c.setdefault("tags", [])
                if c["kind"] == "journal" and "txns" not in c:
                    # corpus journals give, per transaction, the uuid text as written and the keep/drop mark
                    import random
                    r = random.Random(9)
                    c["txns"] = [mk_txn(r, k, keep, raw, extra=False) for k, (raw, keep) in enumerate(zip(c["raws"], c["keeps"]))]
                    c["filter"] = dict(FILTERS)[c.get("filter_name", "none")]
                out.append(c)
    return out


def observe_journal(c, ra, rb):
    """-> (Gallina observation term or None to skip, python-level violation text or None, info)"""
    n = len(c["raws"])
    st = ra.get("stage") if ra else "none"
    info = {"stage": st}
    # the filter's selection, observed with audit mode off (all selected when that run does not load)
    flags = [True] * n
    sel_src = None
    for rr in (ra, rb):
        if rr and rr.get("stage") == "done":
            res = rr["results"][-1]
            if "ok" in res and isinstance(res["ok"], list):
                got = set()
                for t in res["ok"]:
                    m = re.match(r"t(\d+) ", t.get("desc") or "")
                    if m:
                        got.add(int(m.group(1)))
                f2 = [k in got for k in range(n)]
                if sel_src is not None and f2 != flags:
                    return None, None, {"stage": st, "selection_differs": True}
                flags, sel_src = f2, rr
    if rb and rb.get("stage") == "filter" or st == "filter":
        raise Infra("filter definition rejected: " + json.dumps(c["filter"]))
    info["selected"] = flags
    c["flags"] = flags
    # pairs (written text, canonical text in the dump)
    texts = []
    if sel_src is not None:
        for t in sel_src["results"][-1]["ok"]:
            m = re.match(r"t(\d+) ", t.get("desc") or "")
            if m and c["raws"][int(m.group(1))] is not None and t.get("uuid") is not None:
                texts.append((c["raws"][int(m.group(1))], t["uuid"]))
    c["texts"] = texts
    if st == "config":
        return "ObsConfigErr", None, info
    if st == "load":
        return "ObsLoadErr", None, info
    if st == "txnset":
        return "ObsSetErr", None, info
    if st != "done":
        return None, None, info        # panic/abort/timeout: outside C09
    md = ra["results"][0].get("ok")
    m = MD_ITEM.search(md) if isinstance(md, str) else None
    if not m:
        return "ObsNoChecksum", None, info
    algo, value, size = m.group(1), m.group(2), int(m.group(3))
    info.update({"algorithm": algo, "value": value, "size": size})
    if algo != c["hash"] or c["hash"] not in HASHES:
        return None, "reported algorithm %r is not the configured one %r" % (algo, c["hash"]), info
    # independent recomputation: sorted lower-case texts of the selected uuids, each followed by a newline
    lines = sorted((c["raws"][k] or "").lower() for k in range(n) if flags[k])
    P = "".join(l + "\n" for l in lines).encode("ascii", "replace")
    info["expected_preimage"] = P.decode("ascii")
    viol = None
    if digest(algo, P) != value:
        viol = ("reported Txn Set Checksum %s is not %s of the sorted lower-case uuids of the selected transactions, each followed by a newline (expected %s)"
                % (value, algo, digest(algo, P)))
    return "(ObsChecksum %s %s %s)" % (g_N(size), g_list([g_str(l) for l in lines]), g_bytes(P)), viol, info


def observe_selector(c, rr):
    st = rr.get("stage") if rr else "none"
    info = {"stage": st}
    if st != "done":
        return None, None, info
    res = rr["results"][0]
    if "ok" not in res or not isinstance(res["ok"], str):
        return None, None, {"stage": "op-error"}      # e.g. a pattern the regex crate rejects: outside C09
    text = res["ok"]
    if c["op"] == "equity" and text == "":
        return None, None, {"stage": "empty-equity"}  # nothing exported at all
    m = SEL_ITEM.search(text)
    if not m:
        return "SObsNoItem", None, info
    algo, value = m.group(1), m.group(2)
    info.update({"algorithm": algo, "value": value})
    if algo == "None":
        if value == "select all":
            return "SObsAll", None, info
        if value == "select all non-zero":
            return "SObsAllNonZero", None, info
        return None, "unknown select-all label %r" % value, info
    if algo != c["hash"]:
        return None, "reported algorithm %r is not the configured one %r" % (algo, c["hash"]), info
    lines = sorted(p.encode("utf-8") for p in c["pats"])
    P = b"".join(l + b"\n" for l in lines)
    viol = None
    if digest(algo, P) != value:
        viol = ("reported Account Selector Checksum %s is not %s of the sorted selector patterns, each followed by a newline (expected %s)"
                % (value, algo, digest(algo, P)))
    return "(SObsSum %s %s)" % (g_list([g_bytes(l) for l in lines]), g_bytes(P)), viol, info


def term_of(c, obs):
    if c["kind"] == "journal":
        j = g_list(["(%s, %s)" % (g_optstr(raw), g_bool(f)) for raw, f in zip(c["raws"], c["flags"])])
        return "c09_case %s %s %s %s" % (g_bool(c["audit"]), g_str(c["hash"]), j, obs)
    return "c09_sel_case %s %s %s %s" % (g_bool(c["audit"]), g_bool(c["op"] == "equity"),
                                          g_list([g_bytes(p.encode("utf-8")) for p in c["pats"]]), obs)


def run_cases(run, cases):
    reqs, where = [], []
    for ci, c in enumerate(cases):
        for rq in requests_of(c):
            where.append(ci)
            reqs.append(rq)
    res = harness_run(reqs)
    per = {}
    for ci, rr in zip(where, res):
        per.setdefault(ci, []).append(rr)
    terms, meta = [], []          # meta: (case index, what)
    py_viol = []
    stages, tagc, kinds = {}, {}, {}
    chan = {}
    for ci, c in enumerate(cases):
        rs = per[ci]
        ck = c["kind"] + ":" + channel_name(c)
        chan[ck] = chan.get(ck, 0) + 1
        if c["kind"] == "journal":
            obs, viol, info = observe_journal(c, rs[0], rs[1])
        else:
            obs, viol, info = observe_selector(c, rs[0])
        c["impl"] = info
        key = c["kind"] + ":" + str(info.get("stage"))
        stages[key] = stages.get(key, 0) + 1
        for t in c.get("tags") or ["plain"]:
            t = t.split(":")[0]
            tagc[t] = tagc.get(t, 0) + 1
        if viol:
            py_viol.append((ci, viol))
        if obs is None:
            continue
        terms.append(term_of(c, obs))
        meta.append((ci, "case"))
        c["obs"] = obs.split(" ")[0].strip("(")
        kinds[c["obs"]] = kinds.get(c["obs"], 0) + 1
        for (raw, impl) in (c.get("texts") or [])[:2]:
            terms.append("c09_text_case %s %s" % (g_str(raw), g_str(impl)))
            meta.append((ci, "text"))
    vals, errs = coq_eval("C09", IMPORTS, terms)
    if errs:
        raise Infra("coq evaluation failed: " + errs[0])
    return meta, vals, py_viol, stages, tagc, kinds, chan


def replay_obj(c):
    o = {"case": {k: c[k] for k in c if k not in ("txns", "impl", "flags", "texts", "obs", "journal_text")}, "implementation_output": c.get("impl"),
         "requests": requests_of(c)}
    if c["kind"] == "journal":
        o["journal"] = journal_text(c)
        o["filter"] = c["filter"]
    o["replay_hint"] = "./check C09 --replay <this file> re-runs the requests through the harness (target/debug/tkh)"
    return o


def main(run):
    info = proof_stage(run, "C09", extra_targets=["corr/C09_corr.vo"])
    harness_build()
    nj, ns = (150, 90) if run.tier == "quick" else (2500, 1200)
    cases = load_corpus()
    cases += [gen_journal_case(run) for _ in range(nj)]
    cases += [gen_selector_case(run) for _ in range(ns)]
    meta, vals, py_viol, stages, tagc, kinds, chan = run_cases(run, cases)
    distinct = set()
    judge(run, cases, meta, vals, py_viol, distinct)
    for f in load_findings("C09"):
        if f.get("status") == "open":
            run.known_finding(f.get("what", f.get("id", "")))
    run.cov["distinct_nontrivial"] = len(distinct)
    run.cov["rule"] = ("journals of 1-12 transactions with mixed-case uuids (reused among selected / unselected / across, same uuid in another letter case, one-digit neighbours, "
                       "missing, malformed), 6 filter shapes + uuid filter, effective audit mode on/off set through the configuration file and/or a session override (all file x override combinations, the model gets the effective mode), the five algorithms and unsupported names; selection observed with audit off; "
                       "reported digest compared with hashlib over the independently built pre-image, which Coq compares with the model's pre-image (H := identity) and the oracle; "
                       "selector lists (0-7 patterns incl. wrapped, repeated, non-ASCII, empty) through balance/register/balance-group/equity, via overlap / report / per-report configuration; "
                       "non-trivial = a digest was reported; distinct = distinct digests")
    run.notes.update({"stages": stages, "injected": tagc, "observations": kinds, "audit_channels": chan, "corpus_cases": sum(1 for c in cases if c["src"] != "gen")})
    import t04_text   # extra stage (extension T04): the metadata TEXT block against MetaText.v, byte for byte
    t04_text.run_text_stage(run, n=(30 if run.tier == "quick" else 400))
    with run.in_stage("T09"):   # extra stage (extension T09): SHA-256 inside the model (Sha256.v) against hashlib and the implementation
        import t09_text
        t09_text.run_stage(run, n=(25 if run.tier == "quick" else 300))
    return run.finish(info)


def judge(run, cases, meta, vals, py_viol, distinct):
    for (ci, what), v in zip(meta, vals):
        c = cases[ci]
        bits = as_N(v)
        if bits is None:
            raise Infra("no result for case %d (%s)" % (ci, what))
        run.cov["evaluations"] += 1
        if what == "case" and c["impl"].get("value"):
            distinct.add(c["impl"]["value"])
        if what == "case" and len(run.cov["samples"]) < 4 and c["src"] == "gen" and c["impl"].get("value"):
            run.cov["samples"].append({"case": replay_obj(c)["case"], "journal": journal_text(c) if c["kind"] == "journal" else None,
                                       "implementation": c["impl"], "bits": bits})
        if not (bits & 4):
            continue
        if not (bits & 2):
            if what == "text":
                msg = "canonical uuid text in the transaction dump is not the lower-cased written uuid"
            elif c["kind"] == "journal":
                msg = ("audit mode: outcome %s violates the specification (journal must be rejected iff a uuid is missing/malformed; the transaction set must fail "
                       "iff two selected transactions share a uuid; size = number selected; pre-image = sorted lower-case uuids of the selected set)" % c.get("obs"))
            else:
                msg = "account selector checksum item %s violates the specification (sorted patterns, newline after each; labels for select-all; nothing without audit mode)" % c.get("obs")
            run.violation(msg, replay_obj(c))
        elif not (bits & 1):
            run.cov["disagreements_checked"] += 1
            run.violation("correspondence broken: model Audit.v differs from the implementation (spec oracle clean on this input)",
                          dict(replay_obj(c), correspondence="C09_corr." + ("c09_text_case" if what == "text" else "c09_case" if c["kind"] == "journal" else "c09_sel_case")),
                          found_input=False)
    for ci, viol in py_viol:
        run.violation(viol, replay_obj(cases[ci]))


def replay(run, path):
    """the stored case (journal text + uuid texts + filter + audit channel, or selector list + operation + channel) through
    the same requests, observation, c09_case / c09_sel_case / c09_text_case and judge; replays of the T04 text stage go to
    t04.replay (common.replay_begin)"""
    j, rp, rc = replay_begin(run, path)
    if rc is not None:
        return rc
    c = rp.get("case")
    if not (isinstance(c, dict) and c.get("kind") in ("journal", "selector") and "hash" in c and
            (c["kind"] == "selector" or (isinstance(rp.get("journal"), str) and "raws" in c))):
        return replay_print(j)
    print(j.get("what"))
    c = copy.deepcopy(c)
    c.setdefault("tags", []); c["src"] = "replay"
    if c["kind"] == "journal":
        c["journal_text"] = rp["journal"]
        c.setdefault("filter", rp.get("filter"))
        print("journal:\n%s\nfilter: %s" % (c["journal_text"], json.dumps(c.get("filter"))))
    print(json.dumps({k: v for k, v in c.items() if k not in ("journal_text",)}, ensure_ascii=False)[:3000])
    corr_build("C09")
    harness_build()
    cases = [c]
    meta, vals, py_viol, stages, tagc, kinds, chan = run_cases(run, cases)
    print("implementation now: %s" % json.dumps(c.get("impl"), ensure_ascii=False)[:3000])
    judge(run, cases, meta, vals, py_viol, set())
    return replay_verdict(run, path, j, "the stored %s case is as specified now (observation %s, stages %s) and the model agrees" % (c["kind"], c.get("obs"), stages))
