# C15 — loading is total and fail-stop: result or error, never panic or partial data
import json, os, re, subprocess, resource
from concurrent.futures import ThreadPoolExecutor
from common import *
import journal as J

IMPORTS = "From TkModel Require Import Base Dec Txn Load.\nFrom TkCorr Require Import C15_corr.\n"
MAX96 = 2 ** 96 - 1

JUNK = ["garbage", "%%%", "2024-13-45", "2024-01-01T25:00:00", " orphan:posting  1", "\t; orphan comment", "2024-01-01 'header only",
        "2024-01-01\n a  1", "a  1\n b  -1", "2024-01-01 (unclosed 'x", "﻿2024-01-01", "2024-01-01\r a 1", "\x00", "2024-01-01\n a  1 EUR @\n b -1",
        "2024-01-01\n a  1e5\n b", "2024-01-01\n a  +1\n b", "2024-01-01\n a  .5\n b", "2024-01-01\n a  1.\n b", "2024-01-01\n a:  1\n b",
        "2024-01-01\n # uuid: zz\n a 1\n b", "2024-01-01\n # location: geo:91,0\n a 1\n b", "2024-01-01\n # tags: a, a\n a 1\n b"]


def child_limits(gib=6):
    def f():
        resource.setrlimit(resource.RLIMIT_AS, (gib << 30, gib << 30))
    return f


def run_one(req, timeout=20, gib=6):
    """one request in its own process with a watchdog and an address-space limit"""
    try:
        p = subprocess.run([HARNESS_BIN, os.path.join(CACHE, "tmp")], input=json.dumps(req) + "\n", capture_output=True, text=True,
                           timeout=timeout, preexec_fn=child_limits(gib))
    except subprocess.TimeoutExpired:
        return {"stage": "timeout"}
    ls = [l for l in p.stdout.split("\n") if l.strip()]
    if not ls:
        return {"stage": "abort", "rc": p.returncode}
    try:
        return json.loads(ls[0])
    except Exception:
        return {"stage": "abort", "rc": p.returncode}


def valid_journal(run, n=None):
    r = run.rng
    g = J.Gen(r, max_depth=3, n_accounts=r.randint(2, 6))
    ts = g.journal(n or r.randint(1, 4), prices=(r.random() < 0.5), meta=True, implicit_p=0.3)
    return ts


def mutate_text(r, text):
    k = r.randint(0, 9)
    if k == 0:
        i = r.randrange(len(text) + 1); return text[:i], "truncate"
    if k == 1:
        i = r.randrange(len(text)); return text[:i] + text[i + 1:], "delete-char"
    if k == 2:
        i = r.randrange(len(text) + 1)
        return text[:i] + r.choice([" ", " ", "﻿", "\r", "\t", "9" * 40, "-", ":", "'", "(", ";", "{", "@", "=", "é", "\U0001F600", "\x7f"]) + text[i:], "insert-char"
    if k == 3:
        lines = text.split("\n"); i = r.randrange(len(lines)); lines.insert(i, r.choice(JUNK)); return "\n".join(lines), "insert-junk-line"
    if k == 4:
        lines = text.split("\n"); i = r.randrange(len(lines)); del lines[i]; return "\n".join(lines), "delete-line"
    if k == 5:
        lines = text.split("\n"); i = r.randrange(len(lines)); lines.insert(i, lines[i]); return "\n".join(lines), "duplicate-line"
    if k == 6:
        return re.sub(r"\d+(\.\d+)?", lambda m: r.choice([m.group(0), str(MAX96), str(MAX96 + 1), "0." + "0" * 27 + "1", "0." + "0" * 28 + "1",
                                                         "7" * 29, "1" + "0" * 28, m.group(0)]), text, count=r.randint(1, 3)), "extreme-number"
    if k == 7:
        return text.replace("\n\n", "\n", 1), "drop-blank-separator"
    if k == 8:
        return text.rstrip("\n"), "no-final-newline"
    return text.replace(" ", "", 1), "drop-space"


def single_request(toml, text):
    return {"conf": {"toml": toml}, "inputs": [{"text": text}], "ops": [{"op": "txns"}]}


def judge_single(run, kind, ntx, text, rr, classes, distinct):
    """streams 1-3 and the extremes: one journal text in one session"""
    case = {"stream": "single", "kind": kind, "ntx": ntx, "text": text}
    st = rr.get("stage") if rr else "none"
    run.cov["evaluations"] += 1
    classes[(kind.split(":")[0], st)] = classes.get((kind.split(":")[0], st), 0) + 1
    distinct.add((kind, st, ((rr or {}).get("err") or "")[:40]))
    if st in ("panic", "abort", "timeout", "none"):
        run.violation("loading ended in %s instead of a transaction set or an error" % st,
                      {"input_text": text[:4000], "input_length": len(text), "kind": kind, "outcome": rr, "case": case})
    elif kind == "valid" and st == "done":
        got = len(rr["results"][0].get("ok") or [])
        if got != ntx:
            run.violation("a valid journal was loaded with a different number of transactions than it contains (partial consumption)",
                          {"input_text": text, "expected_transactions": ntx, "loaded": got, "case": case})
    elif kind == "junk" and st == "done":
        run.violation("content that is not a complete transaction was accepted (text partially consumed)",
                      {"input_text": text, "loaded_transactions": len(rr["results"][0].get("ok") or []), "case": case})
    if len(run.cov["samples"]) < 3 and kind.startswith("mut"):
        run.cov["samples"].append({"kind": kind, "input": text[:600], "outcome": st})


def judge_heavy(run, name, dpt, kb, toml, classes):
    """stream 4: a deep account name, alone in a process under a watchdog (optionally in a thread with a small stack)"""
    text = "2024-01-01\n " + ":".join(["a"] * dpt) + "  1\n b\n"
    rq = {"conf": {"toml": toml}, "inputs": [{"text": text}], "ops": [{"op": "txns"}]}
    if kb is not None:
        rq["stack_kb"] = kb
    rr = run_one(rq, timeout=180)
    run.cov["evaluations"] += 1
    st = rr.get("stage")
    classes[("heavy", st)] = classes.get(("heavy", st), 0) + 1
    if st in ("panic", "abort", "timeout"):
        run.violation("loading ended in %s instead of a transaction set or an error" % st,
                      {"input": name, "outcome": rr, "case": {"stream": "heavy", "depth": dpt, "stack_kb": kb}})
    return st


def probe_finding(run, f, toml):
    """open known finding account_depth_memory: its witness under its address-space limit"""
    # memory quadratic in the number of components: the witness needs about 2.6 GiB; under a 1 GiB
    # address-space limit the allocation failure (abort) is reached within seconds
    dpt = int(f.get("witness_depth", 30000))
    text = "2024-01-01\n " + ":".join(["a"] * dpt) + "  1\n b\n"
    rr = run_one({"conf": {"toml": toml}, "inputs": [{"text": text}], "ops": [{"op": "txns"}]}, timeout=180, gib=int(f.get("witness_limit_gib", 1)))
    if rr.get("stage") in ("abort", "panic", "timeout"):
        run.known_finding(f["what"])
    else:
        run.violation("known finding %s no longer reproduces: model of the finding and implementation disagree" % f["id"],
                      {"finding": f, "outcome": rr.get("stage"), "case": {"stream": "finding"}}, found_input=False)


def multi_requests(toml, files):
    """stream 5: every file alone, then all of them as one input"""
    out = [{"conf": {"toml": toml}, "load": "paths", "inputs": [{"name": "f%d.txn" % j, "text": text}], "ops": [{"op": "txns"}]}
           for j, text in enumerate(files)]
    out.append({"conf": {"toml": toml}, "load": "paths", "inputs": [{"name": "f%d.txn" % j, "text": t} for j, t in enumerate(files)], "ops": [{"op": "txns"}]})
    return out


def judge_multi(run, mmeta, mres):
    terms, tm = [], []
    pos = 0
    for k, files in mmeta:
        singles = mres[pos:pos + k]; multi = mres[pos + k]; pos += k + 1
        run.cov["evaluations"] += 1

        def outcome(rr):
            st = rr.get("stage")
            if st == "done":
                return len(rr["results"][0].get("ok") or [])
            if st == "load":
                return None
            return "bad"
        outs = [outcome(x) for x in singles] + [outcome(multi)]
        if "bad" in outs:
            run.violation("multi-file loading ended in panic/abort", {"files": files, "stages": [x.get("stage") for x in singles + [multi]],
                                                                      "case": {"stream": "multi"}})
            continue
        terms.append("c15_case %s %s" % (g_list(["None" if o is None else "(Some %s)" % g_nat(o) for o in outs[:-1]]),
                                          "None" if outs[-1] is None else "(Some %s)" % g_nat(outs[-1])))
        tm.append((files, outs))
    vals, errs = coq_eval("C15", IMPORTS, terms)
    if errs:
        raise Infra("coq evaluation failed: " + errs[0])
    for (files, outs), v in zip(tm, vals):
        bits = as_N(v)
        if bits is None:
            raise Infra("no result")
        if not (bits & 2):
            run.violation("multi-file input: an error in one file did not reject the whole input, or transactions were lost",
                          {"files": files, "per_file_outcomes": outs[:-1], "all_files_outcome": outs[-1], "case": {"stream": "multi"}})
        elif not (bits & 1):
            run.violation("correspondence broken: Load.load_files differs from paths_to_txns", {"correspondence": "C15_corr.c15_case",
                          "per_file_outcomes": outs[:-1], "all_files_outcome": outs[-1], "files": files, "case": {"stream": "multi"}}, found_input=False)


UNREADABLE_SHAPES = ("dangling-file-link", "link-loop-dir", "dangling-link-in-subdir")


def unreadable_request(toml, shape):
    """stream 6: file-system storage with an entry that cannot be read"""
    good = "2024-01-01 'g\n a  1\n b  -1\n"
    inputs = [{"name": "txns/a.txn", "text": good}, {"name": "txns/sub/b.txn", "text": good}]
    if shape == "dangling-file-link":
        inputs.append({"name": "txns/bad.txn", "symlink_to": "does-not-exist.txn"})
    elif shape == "link-loop-dir":
        inputs.append({"name": "txns/loop", "symlink_to": "../txns"})
    else:
        inputs.append({"name": "txns/sub/bad.txn", "symlink_to": "../nowhere/x.txn"})
    return {"conf": {"toml": toml}, "load": "fsdir", "fs_dir": "txns", "fs_ext": "txn", "inputs": inputs, "ops": [{"op": "txns"}]}


def judge_unreadable(run, rq, shape, rr, classes):
    run.cov["evaluations"] += 1
    st = rr.get("stage")
    classes[("unreadable", st)] = classes.get(("unreadable", st), 0) + 1
    case = {"stream": "unreadable", "shape": shape}
    if st == "done":
        run.violation("file-system storage: an unreadable journal file or directory (%s) was silently skipped and a transaction set was produced from the others" % shape,
                      {"inputs": rq["inputs"], "loaded_transactions": len(rr["results"][0].get("ok") or []), "case": case})
    elif st in ("panic", "abort", "timeout"):
        run.violation("loading ended in %s instead of a transaction set or an error" % st, {"inputs": rq["inputs"], "case": case})


def main(run):
    info = proof_stage(run, "C15", extra_targets=["corr/C15_corr.vo"])
    harness_build()
    r = run.rng
    quick = run.tier == "quick"
    toml = J.make_toml()
    findings = [f for f in load_findings("C15") if f.get("status") == "open"]
    reqs, meta = [], []
    # ---- stream 1: valid journals; stream 2: mutations; stream 3: junk placed before/between/after complete transactions
    n = 150 if quick else 3000
    for i in range(n):
        ts = valid_journal(run)
        text = J.print_journal(ts)
        reqs.append({"conf": {"toml": toml}, "inputs": [{"text": text}], "ops": [{"op": "txns"}]}); meta.append(("valid", len(ts), text))
        for _ in range(2):
            mt, tag = mutate_text(r, text)
            reqs.append({"conf": {"toml": toml}, "inputs": [{"text": mt}], "ops": [{"op": "txns"}]}); meta.append(("mut:" + tag, None, mt))
        parts = [J.print_txn(t) for t in ts]
        pos = r.randint(0, len(parts))
        junk = r.choice(JUNK)
        jt = "\n".join(parts[:pos] + [junk + "\n"] + parts[pos:])
        reqs.append({"conf": {"toml": toml}, "inputs": [{"text": jt}], "ops": [{"op": "txns"}]}); meta.append(("junk", None, jt))
    # overflow sites of the load path (F6) and other extreme values
    big = str(MAX96)
    for text in ["2024-01-01\n a  %s\n b  %s\n c\n" % (big, big), "2024-01-01\n a  %s ACME @ 10 EUR\n b\n" % big,
                 "2024-01-01\n a  %s\n b  -%s\n" % (big, big), "2024-01-01\n a  0.%s1 X @ 0.%s1 Y\n b\n" % ("0" * 27, "0" * 27),
                 "2024-01-01\n a  %s\n b  1\n c  -%s\n d  -1\n" % (big, big),
                 "2024-01-01T00:00:00.1234567890\n a 1\n b\n", "9999-12-31T23:59:59.999999999+23:59\n a 1\n b\n",
                 "0000-01-01\n a 1\n b\n", "2024-02-30\n a 1\n b\n", "2024-01-01T23:59:60\n a 1\n b\n",
                 "2024-01-01\n " + ":".join(["a"] * 300) + "  1\n b\n", "2024-01-01\n " + "a" * 100000 + "  1\n b\n",
                 "2024-01-01 '" + "d" * 200000 + "\n a 1\n b\n", "", "\n\n\n", " ",
                 "2024-01-01\n a\u1680:b  1\n c\n", "2024-01-01\n a  1\n b\u1680:c\n", "2024-01-01\n a:\u1680b\u1680:c  1\n d\n",
                 "2024-01-01\n a  1 X\u1680\n b\n", "2024-01-01\n # tags: t\u1680\n a  1\n b\n", "2024-01-01\n a 1\n b\n" * 1 + "\n" * 1000]:
        reqs.append({"conf": {"toml": toml}, "inputs": [{"text": text}], "ops": [{"op": "txns"}]}); meta.append(("extreme", None, text))
    # a faulty line that is long and not ASCII (error messages echo the line)
    for L in list(range(470, 560, 4)) + [1000, 1021, 1022, 1023, 1024, 2047, 4096]:
        for ch in ("é", "€", "\U0001F600"):
            for text in ("2024-01-01\n a  1x ; " + ch * L + "\n b\n", "2024-01-01 '" + ch * L + "\n a  1 ; ok\n b  -2\n",
                         "2024-01-01\n a  1 ; " + ch * L + "\n b  1 @\n"):
                reqs.append({"conf": {"toml": toml}, "inputs": [{"text": text}], "ops": [{"op": "txns"}]}); meta.append(("extreme", None, text))
    res = harness_run(reqs, timeout=900)
    classes = {}
    distinct = set()
    for (kind, ntx, text), rr in zip(meta, res):
        judge_single(run, kind, ntx, text, rr, classes, distinct)
    # ---- stream 4: heavy inputs one per process under a watchdog (recursion depth, memory)
    heavy = []
    # F11 (repaired by a243d01): the recursive construction of account parents overflowed the stack. The regression
    # runs in a thread with a small stack ("stack_kb"), where the old code already overflows at 1000 components
    # (on the 8 MiB main stack it needed about 28000 components and 2.5 GiB because of F24)
    depth_cases = [(2000, None), (3000, 512)] if quick else [(2000, None), (4000, None), (3000, 512), (10000, 1024)]
    for dpt, kb in depth_cases:
        heavy.append(("deep-account-%d%s" % (dpt, "" if kb is None else "-stack%dk" % kb), dpt, kb))
    for name, dpt, kb in heavy:
        judge_heavy(run, name, dpt, kb, toml, classes)
    # open known findings: replay their witnesses
    for f in findings:
        if f.get("class") == "account_depth_memory":
            probe_finding(run, f, toml)
    # ---- stream 5: multi-file inputs, one bad file at each position
    mreqs, mmeta = [], []
    m = 25 if quick else 300
    for i in range(m):
        k = r.randint(2, 5)
        files = []
        bad = r.randrange(k + 1)          # k = no bad file
        for j in range(k):
            ts = valid_journal(run, n=r.randint(1, 3))
            text = J.print_journal(ts)
            if j == bad:
                text, _ = mutate_text(r, text)
            files.append(text)
        mreqs += multi_requests(toml, files)
        mmeta.append((len(files), files))
    mres = harness_run(mreqs)
    judge_multi(run, mmeta, mres)
    # ---- stream 6: file-system storage with an entry that cannot be read: the load must fail
    ureqs = [(unreadable_request(toml, shape), shape) for shape in UNREADABLE_SHAPES]
    ures = harness_run([u[0] for u in ureqs])
    for (rq, shape), rr in zip(ureqs, ures):
        judge_unreadable(run, rq, shape, rr, classes)
    # ---- site audit (informational): panic-capable constructs in the load path
    run.notes["panic_sites"] = panic_sites()
    run.notes["classes"] = {"%s/%s" % k: v for k, v in sorted(classes.items())}
    run.cov["distinct_nontrivial"] = len(distinct)
    run.cov["rule"] = ("valid generated journals; 2 mutations each (truncate, delete/insert char incl. Unicode blanks/BOM/CR/digit runs, "
                       "insert/delete/duplicate line, extreme numbers at the 96-bit/28-decimal edge, dropped separators); junk placed "
                       "before/between/after complete transactions (must be rejected); overflow and calendar extremes; deep account names "
                       "under a watchdog; multi-file inputs with one bad file at each position vs per-file outcomes (model load_files); "
                       "distinct = distinct (kind, outcome class, error prefix)")
    return run.finish(info)


def panic_sites():
    out = {}
    base = os.path.join(REPO, "tackler-core", "src")
    files = [os.path.join(dp, f) for sub in ("parser", "model") for dp, dn, fn in os.walk(os.path.join(base, sub)) for f in fn
             if f.endswith(".rs") and "tests" not in dp and f != "tests.rs"]
    for p in sorted(files):
        txt = open(p).read().split("#[cfg(test)]")[0]
        n = len(re.findall(r"\.unwrap\(\)|\.expect\(|assert!\(|unreachable!\(|panic!\(|\[[a-z_0-9\.]+\]", txt))
        if n:
            out[os.path.relpath(p, REPO)] = n
    return out


def replay(run, path):
    """the stored input again, by stream: one journal text in a session / a deep account name alone in a process / the
    witness of a known finding / a multi-file input + c15_case / an unreadable entry under file-system storage"""
    j, rp, rc = replay_begin(run, path)
    if rc is not None:
        return rc
    cs = rp.get("case") if isinstance(rp.get("case"), dict) else {}
    stream = cs.get("stream")
    if stream is None and isinstance(rp.get("files"), list):
        stream = "multi"                                      # files written before the key existed carry everything needed
    if stream is None and isinstance(rp.get("input_text"), str) and len(rp["input_text"]) == rp.get("input_length", len(rp["input_text"])) and \
            ("expected_transactions" in rp or "loaded_transactions" in rp or "kind" in rp):
        stream = "single"
        cs = {"kind": rp.get("kind") or ("valid" if "expected_transactions" in rp else "junk"), "ntx": rp.get("expected_transactions"), "text": rp["input_text"]}
    if stream not in ("single", "heavy", "finding", "multi", "unreadable"):
        return replay_print(j)
    print(j.get("what"))
    harness_build()
    toml = J.make_toml()
    classes, distinct = {}, set()
    if stream == "single":
        print("input (%s, %d characters):\n%s" % (cs["kind"], len(cs["text"]), cs["text"][:3000]))
        rr = harness_run([single_request(toml, cs["text"])], timeout=900)[0]
        judge_single(run, cs["kind"], cs.get("ntx"), cs["text"], rr, classes, distinct)
    elif stream == "heavy":
        print("account name of %s components%s" % (cs["depth"], "" if cs.get("stack_kb") is None else ", thread stack %s KiB" % cs["stack_kb"]))
        judge_heavy(run, rp.get("input"), int(cs["depth"]), cs.get("stack_kb"), toml, classes)
    elif stream == "finding":
        probe_finding(run, rp["finding"], toml)
    elif stream == "multi":
        files = list(rp["files"])
        for k, t in enumerate(files):
            print("file f%d.txn:\n%s" % (k, t[:1500]))
        corr_build("C15")
        judge_multi(run, [(len(files), files)], harness_run(multi_requests(toml, files)))
    else:
        shape = cs["shape"]
        print("file-system storage with %s" % shape)
        rq = unreadable_request(toml, shape)
        judge_unreadable(run, rq, shape, harness_run([rq])[0], classes)
    print("outcome now: %s" % {"%s/%s" % k: v for k, v in classes.items()})
    return replay_verdict(run, path, j, "the stored input (%s stream) ends in a transaction set or an error as specified%s"
                          % (stream, " and the model agrees" if stream == "multi" else ""))
