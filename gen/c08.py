# C08 — Git storage loads exactly the selected commit's journal files
import json, os, re, shutil, subprocess
from common import *
import journal as J

IMPORTS = "From TkModel Require Import Base Store.\nFrom TkCorr Require Import C08_corr.\n"
GENV = dict(os.environ, GIT_AUTHOR_NAME="v", GIT_AUTHOR_EMAIL="v@v", GIT_COMMITTER_NAME="v", GIT_COMMITTER_EMAIL="v@v",
            GIT_CONFIG_GLOBAL="/dev/null", GIT_CONFIG_SYSTEM="/dev/null", GIT_AUTHOR_DATE="2024-01-01T00:00:00Z",
            GIT_COMMITTER_DATE="2024-01-01T00:00:00Z")

# candidate paths: inside, near misses sharing a prefix or suffix with the configured ones
NAMES = ["{d}/a.{x}", "{d}/sub/b.{x}", "{d}/sub/deep/er/c.{x}", "{d}-old/c.{x}", "{d}file.{x}", "{d}/d.x{x}", "{d}/e.{x}",
         "{d}/.{x}", "{d}/f.{x}.bak", "other/g.{x}", "{d}/h.{X}", "x{d}/i.{x}", "{d}/j{x}", "{d}.{x}", "{d}/k.l.{x}", "{d}/{d}/m.{x}",
         "z/{d}/n.{x}", "{d}/o.{x}x", "readme.md",
         # dot directories and dot files below the directory are journal files like any other
         "{d}/.archive/p.{x}", "{d}/sub/.late.{x}", "{d}/.hidden/deep/q.{x}", "{d}/..r.{x}"]


def git(args, cwd, check=True):
    p = subprocess.run(["git"] + args, cwd=cwd, env=GENV, capture_output=True, text=True)
    if check and p.returncode != 0:
        raise Infra("git %s failed: %s" % (args, p.stderr))
    return p.stdout


class History:
    def __init__(self, root, run, d, x):
        self.root, self.d, self.x = root, d, x
        self.r = run.rng
        self.next_id = 1
        shutil.rmtree(root, ignore_errors=True)
        os.makedirs(root)
        git(["init", "-q", "-b", "main", "."], root)
        self.commits = []      # (sha, description)
        self.refs = {}

    def content(self):
        i = self.next_id
        self.next_id += 1
        amt = self.r.randint(1, 99)
        return i, "2024-01-%02d 'f%d\n a  %d\n b  -%d\n" % (self.r.randint(1, 28), i, amt, amt)

    def path(self):
        return self.r.choice(NAMES).format(d=self.d, x=self.x, X=self.x.upper())

    def write(self, rel, executable=False):
        p = os.path.join(self.root, rel)
        os.makedirs(os.path.dirname(p), exist_ok=True)
        i, text = self.content()
        open(p, "w").write(text)
        os.chmod(p, 0o755 if executable else 0o644)

    def step(self):
        r = self.r
        files = [os.path.relpath(os.path.join(dp, f), self.root) for dp, dn, fn in os.walk(self.root) if ".git" not in dp for f in fn]
        k = r.random()
        if k < 0.45 or not files:
            for _ in range(r.randint(1, 4)):
                self.write(self.path(), executable=(r.random() < 0.15))
        elif k < 0.62:
            # a byte-identical copy of an existing file under another name (same blob id)
            wanted = [f for f in files if f.startswith(self.d + "/") and f.endswith("." + self.x)]
            src = r.choice(wanted or files)
            dst = ("%s/copy%d.%s" % (self.d, self.next_id, self.x)) if r.random() < 0.7 else self.path()
            if not os.path.exists(os.path.join(self.root, dst)):
                os.makedirs(os.path.dirname(os.path.join(self.root, dst)) or self.root, exist_ok=True)
                shutil.copyfile(os.path.join(self.root, src), os.path.join(self.root, dst))
        elif k < 0.65:
            self.write(r.choice(files))                       # change
        elif k < 0.8:
            os.remove(os.path.join(self.root, r.choice(files)))     # remove
        else:
            src = r.choice(files)                              # rename (possibly across the boundary)
            dst = self.path()
            if not os.path.exists(os.path.join(self.root, dst)):
                os.makedirs(os.path.dirname(os.path.join(self.root, dst)) or self.root, exist_ok=True)
                os.rename(os.path.join(self.root, src), os.path.join(self.root, dst))
        git(["add", "-A"], self.root)
        git(["commit", "-q", "--allow-empty", "-m", "c%d" % len(self.commits)], self.root)
        sha = git(["rev-parse", "HEAD"], self.root).strip()
        self.commits.append(sha)
        return sha

    def build(self, n):
        r = self.r
        for i in range(n):
            self.step()
            if r.random() < 0.3:
                name = "tag%d" % i
                if r.random() < 0.5:
                    git(["tag", name], self.root)
                else:
                    git(["tag", "-a", "-m", "annotated " + name, name], self.root)     # a tag object: must be peeled to its commit
                self.refs[name] = self.commits[-1]
            if r.random() < 0.3 and len(self.commits) >= 2:
                b = "br%d" % i
                base = r.choice(self.commits)
                git(["checkout", "-q", "-b", b, base], self.root)
                self.step()
                self.refs[b] = self.commits[-1]
                git(["checkout", "-q", "main"], self.root)
        self.refs["main"] = git(["rev-parse", "main"], self.root).strip()
        # a branch whose NAME looks like the abbreviated id of another commit: selecting that
        # commit by its abbreviated id must still load that commit
        self.shadow = None
        if len(self.commits) >= 2:
            c1, c2 = r.sample(self.commits, 2)
            if c1 != c2:
                abbr = c1[:r.choice([7, 8, 10])]
                if git(["branch", abbr, c2], self.root, check=False) is not None:
                    self.shadow = (abbr, c1)
        # dirty working tree and index: must not matter
        self.write(self.d + "/dirty." + self.x)
        self.write(self.d + "/staged." + self.x)
        git(["add", self.d + "/staged." + self.x], self.root)

    def tree(self, sha):
        out = git(["ls-tree", "-r", "-z", sha], self.root)
        ents = []
        for rec in out.split("\0"):
            if not rec:
                continue
            meta, path = rec.split("\t", 1)
            mode, typ, oid = meta.split()
            ents.append((mode, typ, oid, path))
        return ents

    def blob_id(self, sha, path):
        txt = git(["show", "%s:%s" % (sha, path)], self.root, check=False)
        m = re.search(r"'f(\d+)", txt)
        return int(m.group(1)) if m else 0


def loaded_ids(rr):
    if rr.get("stage") != "done" or "ok" not in rr["results"][0]:
        return None
    out = []
    for t in rr["results"][0]["ok"]:
        m = re.match(r"^f(\d+)$", t["desc"] or "")
        if m:
            out.append(int(m.group(1)))
    return out


def git_in(args, cwd, inp=None, env=None):
    p = subprocess.run(["git"] + args, cwd=cwd, env=dict(GENV, **(env or {})), input=inp, capture_output=True, text=True)
    if p.returncode != 0:
        raise Infra("git %s failed: %s" % (args, p.stderr))
    return p.stdout


def history_desc(h):
    """the whole repository as data, for the replay file: every commit (parents first) with its message and complete tree
    [(mode, path, blob id)], the blobs, every ref (annotated tags marked), HEAD, and the uncommitted files"""
    if getattr(h, "_desc", None) is not None:
        return h._desc
    commits, blobs = [], {}
    for line in git(["rev-list", "--all", "--topo-order", "--reverse", "--parents"], h.root).split("\n"):
        if not line.strip():
            continue
        sha, parents = line.split()[0], line.split()[1:]
        tree = []
        for mode, typ, oid, path in h.tree(sha):
            if typ == "blob" and oid not in blobs:
                blobs[oid] = git(["cat-file", "blob", oid], h.root)
            tree.append([mode, path, oid])
        msg = git(["log", "-1", "--format=%B", sha], h.root).rstrip("\n")
        commits.append({"sha": sha, "parents": parents, "message": msg, "tree": tree})
    refs = []
    fmt = "%(refname)%09%(objecttype)%09%(objectname)%09%(*objectname)%09%(contents:subject)"
    for line in git(["for-each-ref", "--format=" + fmt], h.root).split("\n"):
        if line.strip():
            name, typ, oid, peeled, subj = (line.split("\t") + ["", "", "", ""])[:5]
            refs.append({"name": name, "annotated": typ == "tag", "commit": peeled if typ == "tag" else oid, "subject": subj})
    extra = []
    for nm, staged in (("dirty", False), ("staged", True)):
        rel = "%s/%s.%s" % (h.d, nm, h.x)
        fp = os.path.join(h.root, rel)
        if os.path.exists(fp):
            extra.append({"path": rel, "content": open(fp).read(), "staged": staged})
    h._desc = {"commits": commits, "blobs": blobs, "refs": refs, "head": git(["symbolic-ref", "-q", "HEAD"], h.root, check=False).strip(),
               "uncommitted": extra}
    return h._desc


def rebuild_history(desc, root):
    """the repository of history_desc() again (same author/committer/dates: the commit ids come out the same);
    -> {stored commit id: commit id in the rebuilt repository}"""
    shutil.rmtree(root, ignore_errors=True)
    os.makedirs(root)
    git(["init", "-q", "-b", "main", "."], root)
    newblob = {}
    for oid, text in desc["blobs"].items():
        newblob[oid] = git_in(["hash-object", "-w", "--stdin"], root, inp=text).strip()
    idx = {"GIT_INDEX_FILE": os.path.join(root, ".git", "replay-index")}
    new = {}
    for c in desc["commits"]:
        git_in(["read-tree", "--empty"], root, env=idx)
        info = "".join("%s %s\t%s\n" % (mode, newblob.get(oid, oid), path) for mode, path, oid in c["tree"])
        if info:
            git_in(["update-index", "--add", "--index-info"], root, inp=info, env=idx)
        tree = git_in(["write-tree"], root, env=idx).strip()
        args = ["commit-tree", tree]
        for p_ in c["parents"]:
            args += ["-p", new[p_]]
        new[c["sha"]] = git_in(args + ["-m", c["message"]], root).strip()
    for r in desc["refs"]:
        if r["annotated"]:
            git_in(["tag", "-a", "-m", r["subject"] or "annotated", r["name"].split("/", 2)[2], new[r["commit"]]], root)
        else:
            git_in(["update-ref", r["name"], new[r["commit"]]], root)
    if desc.get("head"):
        git_in(["symbolic-ref", "HEAD", desc["head"]], root)
        git(["reset", "-q", "--hard"], root, check=False)
    for e in desc.get("uncommitted") or []:
        fp = os.path.join(root, e["path"])
        os.makedirs(os.path.dirname(fp), exist_ok=True)
        open(fp, "w").write(e["content"])
        if e.get("staged"):
            git(["add", e["path"]], root)
    return new


def requests_for(h, kind, val, sha, cfg_dir, x, co_root, toml):
    """the two sessions of one selector: Git storage on the repository, file-system storage on `git archive` of the commit"""
    co = os.path.join(co_root, "co-%s" % sha[:12])
    if not os.path.exists(co):
        os.makedirs(co)
        ar = subprocess.run(["git", "archive", sha], cwd=h.root, env=GENV, capture_output=True)
        subprocess.run(["tar", "-x", "-C", co], input=ar.stdout, check=True)
    base = {"conf": {"toml": toml}, "ops": [{"op": "txns"}, {"op": "metadata"}]}
    g = dict(base, load="git", git_repo=h.root, git_dir=cfg_dir, git_ext=x)
    g["git_commit" if kind == "commit" else "git_ref"] = val
    f = dict(base, load="fsabs", fs_abs=os.path.join(co, cfg_dir), fs_ext=x)
    return [g, f]


def case_of(h, kind, val, sha, cfg_dir, x):
    """what ./check C08 --replay needs: the repository as data + the selector"""
    return {"selector": [kind, val], "commit": sha, "dir": cfg_dir, "ext": x, "history": history_desc(h)}


def main(run):
    info = proof_stage(run, "C08", extra_targets=["corr/C08_corr.vo"])
    harness_build()
    quick = run.tier == "quick"
    root = os.path.join(CACHE, "c08-%d" % os.getpid())
    shutil.rmtree(root, ignore_errors=True)
    toml = J.make_toml()
    reqs, meta = [], []
    try:
        nh = 4 if quick else 25
        for hi in range(nh):
            d = run.rng.choice(["txns", "txns", "journal"])
            x = run.rng.choice(["txn", "txn", "jrn"])
            h = History(os.path.join(root, "h%d" % hi, "repo"), run, d, x)
            h.build(run.rng.randint(3, 7) if quick else run.rng.randint(4, 12))
            cfg_dir = h.d
            sels = [("commit", c) for c in h.commits] + [("ref", n) for n in h.refs] + [("commit", h.commits[-1][:10])]
            if h.shadow:
                sels.append(("commit", h.shadow[0]))
            for kind, val in sels:
                sha = val if kind == "commit" and len(val) == 40 else (h.refs.get(val) or [c for c in h.commits if c.startswith(val)][0])
                reqs += requests_for(h, kind, val, sha, cfg_dir, x, os.path.join(root, "h%d" % hi), toml)
                meta.append((h, kind, val, sha, cfg_dir, x))
        res = harness_run(reqs)
        distinct = set()
        judge(run, meta, res, distinct)
    finally:
        shutil.rmtree(root, ignore_errors=True)
    run.cov["distinct_nontrivial"] = len(distinct)
    run.cov["rule"] = ("random repository histories made with the git CLI (add/change/remove/rename of files incl. near-miss names sharing a "
                       "prefix/suffix with the configured directory/extension, executable files, hidden files, branches, tags, dirty work "
                       "tree and index); every commit, every ref and one abbreviated id loaded through git_to_txns and compared with "
                       "paths_to_txns on `git archive` of the same commit and with the model on `git ls-tree`; distinct = distinct loaded sets")
    return run.finish(info)


def judge(run, meta, res, distinct):
    """meta[k] = (history, selector kind, selector, commit, dir, ext); res[2k], res[2k+1] = the Git and the file-system session"""
    terms, tmeta = [], []
    for k, (h, kind, val, sha, cfg_dir, x) in enumerate(meta):
        rg, rf = res[2 * k], res[2 * k + 1]
        run.cov["evaluations"] += 1
        gi = loaded_ids(rg)
        fi = loaded_ids(rf)
        if fi is None:
            # fs storage fails when the directory does not exist in that commit or holds no journal: then git must not load anything either
            fi = []
            if gi is not None and len(gi) > 0:
                pass
        tree = h.tree(sha)
        ents = []
        for mode, typ, oid, path in tree:
            kd = {"100644": "Blob", "100755": "BlobExec", "120000": "Link"}.get(mode, "Other")
            ents.append("(mkEntry %s %s %s)" % (g_list([g_str(c) for c in path.split("/")]), kd, g_N(h.blob_id(sha, path))))
        impl = "None" if gi is None and rg.get("stage") == "load" and "no transactions" not in (rg.get("err") or "") else \
               "(Some %s)" % g_list([g_N(i) for i in (gi or [])])
        terms.append("c08_case %s %s %s %s %s" % (g_list([g_str(c) for c in cfg_dir.split("/")]), g_str(x), g_list(ents), impl,
                                                 g_list([g_N(i) for i in fi])))
        tmeta.append(k)
        distinct.add((tuple(sorted(gi or [])), kind))
        # metadata: the commit id reported is the one used
        md = (rg.get("results") or [{}, {}])[1].get("ok") if rg.get("stage") == "done" else None
        if md and sha not in md:
            run.violation("the commit id reported in the Git metadata is not the commit that was selected",
                          {"selector": (kind, val), "expected_commit": sha, "metadata": md, "repository_history": [git(["log", "--all", "--oneline"], h.root)],
                           "case": case_of(h, kind, val, sha, cfg_dir, x)})
        if len(run.cov["samples"]) < 2:
            run.cov["samples"].append({"selector": (kind, val), "commit": sha, "dir": cfg_dir, "ext": x,
                                       "tree": [(m, p) for m, t, o, p in tree], "loaded_from_git": gi, "loaded_from_checkout": fi})
    vals, errs = coq_eval("C08", IMPORTS, terms)
    if errs:
        raise Infra("coq evaluation failed: " + errs[0])
    for k, v in zip(tmeta, vals):
        bits = as_N(v)
        if bits is None:
            raise Infra("no result")
        h, kind, val, sha, cfg_dir, x = meta[k]
        rg, rf = res[2 * k], res[2 * k + 1]
        if not (bits & 2):
            tree = h.tree(sha)
            run.violation("Git storage loads a different set of files than file-system storage on a checkout of the same commit",
                          {"selector": (kind, val), "commit": sha, "dir": cfg_dir, "ext": x,
                           "tree_of_commit": [(m, p, h.blob_id(sha, p)) for m, t, o, p in tree],
                           "loaded_from_git": loaded_ids(rg), "git_stage": rg.get("stage"), "git_err": (rg.get("err") or "")[:300],
                           "loaded_from_checkout": loaded_ids(rf), "fs_err": (rf.get("err") or "")[:200],
                           "replay_hint": "build the tree with git (modes as listed), then tackler --input.git.repository <repo> --input.git.dir %s --input.git.commit %s" % (cfg_dir, sha),
                           "case": case_of(h, kind, val, sha, cfg_dir, x)})
        elif not (bits & 1):
            run.cov["disagreements_checked"] += 1
            run.violation("correspondence broken: Store.select_git differs from git_to_txns",
                          {"correspondence": "C08_corr.c08_case", "selector": (kind, val), "commit": sha,
                           "loaded_from_git": loaded_ids(rg), "git_err": (rg.get("err") or "")[:300],
                           "case": case_of(h, kind, val, sha, cfg_dir, x)}, found_input=False)


def replay(run, path):
    """the stored repository is rebuilt with git plumbing (same commit ids), the stored selector is loaded through Git storage
    and through file-system storage on `git archive` of the commit, and judged as in the normal run"""
    j, rp, rc = replay_begin(run, path)
    if rc is not None:
        return rc
    cs = rp.get("case")
    if not (isinstance(cs, dict) and isinstance(cs.get("history"), dict)):
        return replay_print(j)
    print(j.get("what"))
    kind, val = cs["selector"]
    print("selector %s %s -> commit %s, dir %r, extension %r; %d commits, refs %s" % (kind, val, cs["commit"], cs["dir"], cs["ext"],
          len(cs["history"]["commits"]), [r["name"] for r in cs["history"]["refs"]]))
    print("tree of the commit: %s" % json.dumps([(m, p_) for c in cs["history"]["commits"] if c["sha"] == cs["commit"] for m, p_, o in c["tree"]]))
    corr_build("C08")
    harness_build()
    root = os.path.join(CACHE, "c08-replay-%d" % os.getpid())
    try:
        new = rebuild_history(cs["history"], os.path.join(root, "repo"))
        sha = new[cs["commit"]]
        if sha != cs["commit"]:
            print("note: commit ids differ in the rebuilt repository (%s is now %s): id selectors are translated" % (cs["commit"], sha))
            if kind == "commit":
                old = [c for c in new if c.startswith(val)]
                val = new[old[0]][:len(val)] if old else val
        h = History.__new__(History)
        h.root, h.d, h.x = os.path.join(root, "repo"), cs["dir"], cs["ext"]
        reqs = requests_for(h, kind, val, sha, cs["dir"], cs["ext"], root, J.make_toml())
        res = harness_run(reqs)
        print("Git storage now: %s; file-system storage on the checkout: %s" % (
            loaded_ids(res[0]) if loaded_ids(res[0]) is not None else (res[0].get("stage"), (res[0].get("err") or "")[:200]),
            loaded_ids(res[1]) if loaded_ids(res[1]) is not None else (res[1].get("stage"), (res[1].get("err") or "")[:200])))
        judge(run, [(h, kind, val, sha, cs["dir"], cs["ext"])], res, set())
    finally:
        shutil.rmtree(root, ignore_errors=True)
    return replay_verdict(run, path, j, "Git storage loads the files of the selected commit that file-system storage loads from its checkout, "
                                        "reports that commit, and the model agrees")
