# T06 (extension, not a numbered property) — a whole run of the tackler BINARY is one function of the model:
# T06_run.run_console (the complete standard output in console mode) and T06_run.run_files (the files of
# --output.dir and the announcements), composed of the existing models (journal text -> load -> filter -> metadata ->
# per report head and body -> separators; equity / identity exports).  coq/props/T06.v states the structure of that
# text, that the embedded reports are the texts of T01 / T05 / T04 (so their figure theorems hold for the transactions
# parsed from the journal text), all-or-nothing on errors, the file mode, and layout invariance.
# ./check T06 runs the proof audit of coq/props/T06.v and the correspondence stage (gen/t06_text.py: run_stage);
# ./check C19 runs the same stage with a small number of worlds.
import json
from common import *
import t06_text as T


def main(run):
    info = proof_stage(run, "T06", extra_targets=["corr/T06_corr.vo", "corr/T07_corr.vo"])
    st = T.run_stage(run)
    run.cov["evaluations"] += st["worlds"]
    run.cov["distinct_nontrivial"] = st["distinct_outputs"]
    if "sample" in st:
        run.cov["samples"].append(st.pop("sample"))
    run.cov["rule"] = T.RULE
    return run.finish(info)


def replay(run, path):
    """also the replay of the T06 / T07 stage inside C19 and of ./check T08 (run.prop is the host then): common.replay_begin"""
    j, rp = replay_load(path)
    if "theorem_file" in rp and "world" not in rp:
        return replay_theorem(run, path, j, rp)
    print(j.get("what"))
    w = rp.get("world")
    if not (isinstance(w, dict) and "journal" in w and "mode" in w):
        return replay_print(j)
    corr_build("T06")
    corr_build("T07")
    print(json.dumps({k: v for k, v in w.items() if k not in ("journal", "prices")}, ensure_ascii=False))
    print("configuration file:\n%s" % rp.get("config_file"))
    print("journal:\n%s" % w["journal"])
    if w.get("prices") is not None:
        print("price file:\n%s" % w["prices"])
    print("command line: --config tackler.toml --input.file j.txn %s" % " ".join(rp.get("command_line") or []))
    if rp.get("first_differing_character") is not None:
        print("first differing character of the standard output: %s\nimplementation: %r\nmodel:          %r"
              % (rp["first_differing_character"], rp.get("implementation_around"), rp.get("model_around")))
    w = dict(w)
    w["idx"] = 0
    w["src"] = "replay"
    st = T.new_stats()
    ws = T.check_worlds(run, [w], st)
    print("the binary now: exit status %s\nstandard output:\n%s" % (ws[0]["impl"]["rc"], ws[0]["impl"]["stdout"]))
    for f, c in ws[0]["impl"]["files"].items():
        print("file %s:\n%s" % (f, c))
    for what, rep, found in run.violations:
        if rep.get("model_stdout") is not None:
            print("model standard output now:\n%s" % rep["model_stdout"])
        for f, c in (rep.get("model_files") or {}).items():
            print("model file %s:\n%s" % (f, c))
    return replay_verdict(run, path, j, "whole-run stage: the binary's output is the model's and the oracles are clean now (%s)"
                          % {k: st[k] for k in ("compared_ok", "outside_domain")})
