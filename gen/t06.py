# T06 (extension, not a numbered property) — a whole run of the tackler BINARY is one function of the model:
# T06_run.run_console (the complete standard output in console mode) and T06_run.run_files (the files of
# --output.dir and the announcements), composed of the existing models (journal text -> load -> filter -> metadata ->
# per report head and body -> separators; equity / identity exports).  coq/props/T06.v states the structure of that
# text, that the embedded reports are the texts of T01 / T05 / T04 (so their figure theorems hold for the transactions
# parsed from the journal text), all-or-nothing on errors, the file mode, and layout invariance.
# ./check T06 runs the proof audit of coq/props/T06.v and the correspondence stage (gen/t06_text.py: run_stage);
# ./check C19 runs the same stage with a small number of worlds.
import json
from common import *
import t06_text as T


def main(run):
    info = proof_stage(run, "T06", extra_targets=["corr/T06_corr.vo"])
    st = T.run_stage(run)
    run.cov["evaluations"] += st["worlds"]
    run.cov["distinct_nontrivial"] = st["distinct_outputs"]
    if "sample" in st:
        run.cov["samples"].append(st.pop("sample"))
    run.cov["rule"] = T.RULE
    return run.finish(info)


def replay(run, path):
    j = json.load(open(path))
    rp = j.get("replay") or {}
    print(j.get("what"))
    w = rp.get("world")
    if not w:
        print(json.dumps(j, indent=1, ensure_ascii=False)[:6000])
        return 0
    print(json.dumps({k: v for k, v in w.items() if k not in ("journal", "prices")}, ensure_ascii=False))
    print("configuration file:\n%s" % rp.get("config_file"))
    print("journal:\n%s" % w["journal"])
    if w.get("prices") is not None:
        print("price file:\n%s" % w["prices"])
    print("command line: --config tackler.toml --input.file j.txn %s" % " ".join(rp.get("command_line") or []))
    if rp.get("first_differing_character") is not None:
        print("first differing character of the standard output: %s\nimplementation: %r\nmodel:          %r"
              % (rp["first_differing_character"], rp.get("implementation_around"), rp.get("model_around")))
    w = dict(w)
    w["idx"] = 0
    w["src"] = "replay"
    st = T.new_stats()
    ws = T.check_worlds(run, [w], st)
    print("the binary now: exit status %s\nstandard output:\n%s" % (ws[0]["impl"]["rc"], ws[0]["impl"]["stdout"]))
    for f, c in ws[0]["impl"]["files"].items():
        print("file %s:\n%s" % (f, c))
    for what, rep, found in run.violations:
        print("REPRODUCED: %s%s" % (what, "" if found else " (no failing input: correspondence only)"))
        if rep.get("model_stdout") is not None:
            print("model standard output now:\n%s" % rep["model_stdout"])
        for f, c in (rep.get("model_files") or {}).items():
            print("model file %s:\n%s" % (f, c))
    if not run.violations:
        print("not reproduced: binary and model agree and the oracles are clean now (%s)" % {k: st[k] for k in ("compared_ok", "outside_domain")})
    return 1 if run.violations else 0
