# C06 — identity export re-parses to the same transactions and is a fixed point
import json, os, copy
from fractions import Fraction
from common import *
import journal as J

IMPORTS = ("From TkModel Require Import Base Dec Acct Txn Accept Journal.\n"
           "From TkSpec Require Import Journal_spec.\nFrom TkCorr Require Import C06_corr.\n")

UNI_WS = [" ", " ", "　", "\u0085", "\x0b", "\x0c"]
ACC_FIRST = J.COMPS_FIRST + ["Ω", "$", "¥en", "µ", "½", "x·y", "ÅÄÖ"]
ACC_REST = J.COMPS_REST + ["0", "a-", "b_", "x·", "é́", "2024-01", "‿", "Ω1"]
ACC_BAD = ["-", "_", "·", "-x", "_1", "·a"]     # components the account check of the semantic layer refuses
COMM = ["EUR", "USD", "ACME", "He·bar", "€", "$", "£", "x-1", "µg"]
CODE_POOL = ["#1", "a b", "", " pad ", "X-17", "ünï ¢", "a;b", "a\tb", "12", "#", "a:b", " nb ", "@=", "\"q\""]
DESC_POOL = ["desc", "it's (c)", "ünï ¢", "  leading", "trailing  ", "", "'quoted'", "; not a comment", "(x) [y] {z} <w>",
             "tab\there", "ends with nbsp ", "a  b", "# uuid: x", "　"]
COMMENT_POOL = ["note", "  indented", "", "x ; y", " ", "\ttab", "trailing ", "ünï", "; ;", "# tags: a", "'", "a "]
TAG_POOL = ["t1", "a:b", "x-y", "t2:z:9", "Ω", "a_b:1", "é", "T1", "tag:2024:01"]
CODE_BAD = ["a[b", "a]b", "a<b", "a>b", "a{b", "a}b", "a(b", "a'b", "(", "]"]    # must be rejected
# ends of the ranges of identifier.rs (id_start_char / id_char) and their outer neighbours
ID_BOUNDS = sorted(set(sum([[a - 1, a, b, b + 1] for a, b in [
    (0x61, 0x7A), (0x41, 0x5A), (0x24, 0x24), (0xA2, 0xA5), (0xC0, 0xD6), (0xD8, 0xF6), (0xF8, 0x2FF), (0x370, 0x37D),
    (0x37F, 0x1FFF), (0x200C, 0x200D), (0x2070, 0x218F), (0x2C00, 0x2FEF), (0x3001, 0xD7FF), (0xF900, 0xFDCF),
    (0xFDF0, 0xFFFD), (0xB5, 0xB5), (0xB9, 0xB9), (0xB2, 0xB3), (0xB0, 0xB0), (0xBC, 0xBE), (0x30, 0x39), (0x5F, 0x5F),
    (0x2D, 0x2D), (0xB7, 0xB7), (0x300, 0x36F), (0x203F, 0x2040)]], [])))
# identifier characters that are also White_Space (U+1680) and other space-like neighbours: the semantic name
# rules (Commodity::from / AccountTreeNode::from) refuse what the grammar lets through
ID_BOUNDS = sorted(set(ID_BOUNDS + [0x167F, 0x1680, 0x1681, 0x2028, 0x3000, 0xA0, 0x85, 0x200B]))
ID_BOUNDS = [c for c in ID_BOUNDS if not (0xD800 <= c <= 0xDFFF) and c not in (0x0A, 0x0D)]
WS_CHARS = [0x09, 0x0B, 0x0C, 0x20, 0x85, 0xA0, 0x1680, 0x2000, 0x200A, 0x2028, 0x2029, 0x202F, 0x205F, 0x3000,
            0x1F, 0x84, 0x86, 0x9F, 0xA1, 0x167F, 0x180E, 0x1FFF, 0x200B, 0x2027, 0x202A, 0x2030, 0x2060, 0x2FFF, 0x3001, 0xFEFF]


def dec_str(m, s):
    return J.dec_str(m, s)


class G:
    """journal generator: AST from journal.Gen plus header features and free formatting"""

    def __init__(self, r, big=False):
        self.r = r
        self.jg = J.Gen(r, max_depth=4, n_accounts=r.randint(2, 6), big=big)
        # more exotic account names and commodities
        accs = []
        for _ in range(r.randint(2, 5)):
            comps = [r.choice(ACC_FIRST)] + [r.choice(ACC_REST) for _ in range(r.randint(0, 3))]
            if r.random() < 0.02:
                comps.append(r.choice(ACC_BAD))
            accs.append(":".join(comps))
        self.jg.accounts = sorted(set(self.jg.accounts + accs))
        self.jg.comms = r.sample(["", ""] + COMM, r.randint(1, 3))

    def ts(self):
        r = self.r
        k = r.random()
        if k < 0.06:
            y = r.choice([0, 1, 99, 1000, 1582, 1899, 1900, 1969, 1970, 2000, 2100, 9999])
        elif k < 0.12:
            y = r.randint(0, 9999)
        else:
            y = r.randint(1990, 2035)
        mo = r.randint(1, 12)
        dim = [31, 29 if (y % 4 == 0 and (y % 100 != 0 or y % 400 == 0)) else 28, 31, 30, 31, 30, 31, 31, 30, 31, 30, 31][mo - 1]
        d = r.choice([1, dim, r.randint(1, dim)])
        date = "%04d-%02d-%02d" % (y, mo, d)
        k = r.random()
        if k < 0.2:
            return date
        h, mi, s = r.choice([0, 23, r.randint(0, 23)]), r.choice([0, 59, r.randint(0, 59)]), r.choice([0, 59, r.randint(0, 59)])
        t = date + "T%02d:%02d:%02d" % (h, mi, s)
        if r.random() < 0.45:
            n = r.randint(1, 9)
            kind = r.random()
            if kind < 0.2:
                fr = "0" * n
            elif kind < 0.4:
                fr = ("%0*d" % (n, r.randint(0, 10 ** n - 1)))[:-1] + "0"
            elif kind < 0.5:
                fr = "0" * (n - 1) + "1"
            else:
                fr = "%0*d" % (n, r.randint(0, 10 ** n - 1))
            t += "." + fr[:n] if n > 0 else ""
        k = r.random()
        if k < 0.25:
            return t
        if k < 0.4:
            return t + "Z"
        if k < 0.5:
            oh, om = r.choice([(23, 59), (0, 0), (0, 1), (25, 59), (14, 0), (12, 45), (0, 99), (1, 60)])
        else:
            oh, om = r.randint(0, 14), r.choice([0, 0, 30, 45, r.randint(0, 59)])
        return t + r.choice("+-") + "%02d:%02d" % (oh, om)

    def txn(self, i):
        r = self.r
        t = self.jg.txn(i, prices=(r.random() < 0.7), implicit_p=0.35, meta=False)
        t["ts"] = self.ts()
        for p in t["posts"]:
            if r.random() < 0.3:
                p["comment"] = r.choice(COMMENT_POOL)
            if p.get("closing") and p["closing"][0] == "@" and r.random() < 0.4:
                # price with trailing zeros (same value, larger scale)
                k, (m, s), c = p["closing"]
                z = r.randint(1, 3)
                p["closing"] = (k, (m * 10 ** z, s + z), c)
        if t["last"] and r.random() < 0.4:
            t["last"]["comment"] = r.choice(COMMENT_POOL)
        if r.random() < 0.45:
            t["code"] = r.choice(CODE_POOL) if r.random() < 0.95 else r.choice(CODE_BAD)
            if r.random() < 0.15:
                t["code"] = chr(r.choice(WS_CHARS)) + "c" + chr(r.choice(WS_CHARS))      # str::trim
        if r.random() < 0.55:
            t["desc"] = r.choice(DESC_POOL + ["d%d" % i])
            if r.random() < 0.15:
                t["desc"] = chr(r.choice(WS_CHARS)) + "d" + chr(r.choice(WS_CHARS))      # str::trim_end
        if r.random() < 0.4:
            u = "%032x" % r.getrandbits(128)
            u = "-".join([u[:8], u[8:12], u[12:16], u[16:20], u[20:]])
            t["uuid"] = u.upper() if r.random() < 0.3 else u
        if r.random() < 0.35:
            k = r.random()
            if k < 0.25:
                lat, lon = r.choice([("90", "180"), ("-90", "-180"), ("0", "0"), ("-0.0", "0.00"), ("90.000", "-180.0")])
            else:
                lat, lon = dec_str(r.randint(-9000000, 9000000), 5), dec_str(r.randint(-18000000, 18000000), 5)
            alt = None
            if r.random() < 0.5:
                alt = r.choice(["0", "-6378137", "-6378137.0", "8848.86", dec_str(r.randint(-10 ** 6, 10 ** 6), r.randint(0, 3))])
            t["loc"] = (lat, lon, alt)
        if r.random() < 0.35:
            t["tags"] = r.sample(TAG_POOL, r.randint(1, 4))
            if r.random() < 0.06:
                t["tags"].append(r.choice(t["tags"]))                                     # duplicate: rejected
        if r.random() < 0.35:
            t["comments"] = [r.choice(COMMENT_POOL) for _ in range(r.randint(1, 3))]
        return t


def sp1(r, plain):
    if plain:
        return " "
    return r.choice([" ", "  ", "\t", " \t", "   "])


def sp0(r, plain):
    if plain:
        return ""
    return r.choice(["", "", " ", "\t", "  "])


def render_txn(r, t, plain):
    """free-format text of one transaction (all variations are meaning preserving)"""
    nl = "\n"
    ind = lambda: " " if plain else r.choice([" ", "   ", "\t", "  \t"])
    h = t["ts"]
    if t.get("code") is not None:
        h += sp1(r, plain) + "(" + t["code"] + ")"
    if t.get("desc") is not None:
        h += sp1(r, plain) + "'" + t["desc"]
    elif not plain and r.random() < 0.2:
        h += r.choice([" ", "\t "])
    lines = [h]
    order = "ult" if plain else "".join(r.sample("ult", 3))
    for k in order:
        if k == "u" and t.get("uuid"):
            lines.append(ind() + "#" + sp1(r, plain) + "uuid:" + sp1(r, plain) + t["uuid"] + sp0(r, plain))
        if k == "l" and t.get("loc"):
            lat, lon, alt = t["loc"]
            s = ind() + "#" + sp1(r, plain) + "location:" + sp1(r, plain) + "geo:" + sp0(r, plain) + lat + sp0(r, plain) + "," + sp0(r, plain) + lon
            if alt is not None:
                s += sp0(r, plain) + "," + sp0(r, plain) + alt
            lines.append(s + sp0(r, plain))
        if k == "t" and t.get("tags"):
            lines.append(ind() + "#" + sp1(r, plain) + "tags:" + sp1(r, plain)
                         + (sp0(r, plain) + "," + sp0(r, plain)).join(t["tags"]) + sp0(r, plain))
    for c in t.get("comments") or []:
        if c == "" and r.random() < 0.5:
            lines.append(ind() + ";")
        else:
            lines.append(ind() + ";" + (" " if plain or r.random() < 0.8 else "\t") + c)
    for p in t["posts"]:
        s = ind() + p["acc"] + sp1(r, plain) + sp0(r, plain) + dec_str(*p["amount"])
        if p["comm"]:
            s += sp1(r, plain) + p["comm"]
        if p.get("opening"):
            (v, c) = p["opening"]
            s += sp1(r, plain) + "{" + sp0(r, plain) + dec_str(*v) + sp1(r, plain) + c + sp0(r, plain) + "}"
        if p.get("closing"):
            k, v, c = p["closing"]
            s += sp1(r, plain) + k + sp1(r, plain) + dec_str(*v) + sp1(r, plain) + c
        if p.get("comment") is not None:
            s += sp0(r, plain) + ";" + ((" " + p["comment"]) if (p["comment"] != "" or r.random() < 0.5) else "")
        else:
            s += sp0(r, plain)
        lines.append(s)
    if t.get("last"):
        s = ind() + t["last"]["acc"]
        if t["last"].get("comment") is not None:
            c = t["last"]["comment"]
            s += sp0(r, plain) + ";" + ((" " + c) if (c != "" or r.random() < 0.5) else "")
        else:
            s += sp0(r, plain)
        lines.append(s)
    return lines


def render(r, ts, plain=False):
    eol = "\n" if plain or r.random() < 0.85 else "\r\n"
    out = ""
    if not plain and r.random() < 0.2:
        out += r.choice(["", " ", "\t"]) + eol
    for i, t in enumerate(ts):
        out += "".join(l + eol for l in render_txn(r, t, plain))
        if i + 1 < len(ts) or r.random() < 0.5:
            out += eol if plain else "".join(r.choice(["", "", " ", "\t "]) + eol for _ in range(r.randint(1, 3)))
    return out


MUT_CHARS = list(" \t;:#@={}().-'0a,Z+T[]<>") + ["\r", "\n", "€", " ", "1", "9", "x", "/", "\""]


def mutate_text(r, text):
    k = r.randint(0, 11)
    if not text:
        return text, "empty"
    i = r.randrange(len(text))
    if k <= 2:
        return text[:i] + text[i + 1:], "delete-char"
    if k <= 5:
        return text[:i] + r.choice(MUT_CHARS) + text[i:], "insert-char"
    if k <= 7:
        return text[:i] + r.choice(MUT_CHARS) + text[i + 1:], "replace-char"
    lines = text.split("\n")
    if k == 8:
        return text.rstrip("\n") if r.random() < 0.5 else text[:i], "truncate"
    if k == 9 and len(lines) > 2:
        j = r.randrange(len(lines) - 1)
        return "\n".join(lines[:j + 1] + [lines[j]] + lines[j + 1:]), "duplicate-line"
    if k == 10 and len(lines) > 2:
        j = r.randrange(len(lines) - 1)
        return "\n".join(lines[:j] + lines[j + 1:]), "delete-line"
    if len(lines) > 3:
        j = r.randrange(len(lines) - 2)
        lines[j], lines[j + 1] = lines[j + 1], lines[j]
        return "\n".join(lines), "swap-lines"
    return text + " ", "trailing-blank"


# ---------------------------------------------------------------- Gallina emitters for the dump
def g_ostr(s):
    return "None" if s is None else "(Some %s)" % g_str(s)


def g_jtxn(t):
    ts = t["ts"]
    loc = "None"
    if t["loc"] is not None:
        l = t["loc"]
        loc = "(Some (mkGeo %s %s %s))" % (g_dec(l["lat"]), g_dec(l["lon"]), g_opt(l["alt"], g_dec))
    hdr = "(mkHeader %s %s %s %s %s %s %s %s)" % (
        g_Z(int(ts["ns"])), g_Z(int(ts["off"])), g_ostr(t["code"]), g_ostr(t["desc"]), g_ostr(t["uuid"]), loc,
        g_list([g_str(x) for x in (t["tags"] or [])]), g_list([g_str(x) for x in (t["comments"] or [])]))
    ps = []
    for p in t["posts"]:
        ps.append("(mkJPost (mkPosting %s %s %s %s %s %s) %s)" % (
            g_acct(p["acc"]), g_str(p["comm"]), g_dec(p["amount"]), g_dec(p["txn_amount"]), g_bool(p["total"]),
            g_str(p["txn_comm"]), g_ostr(p["comment"])))
    return "(mkJTxn %s %s)" % (hdr, g_list(ps))


def g_session(s):
    """s: None or (dump, identity text)"""
    if s is None:
        return "None"
    return "(Some (%s, %s))" % (g_list([g_jtxn(t) for t in s[0]]), g_str(s[1]))


def has_neg_zero(dump):
    def nz(d):
        return d is not None and d["n"] and int(d["m"]) == 0
    for t in dump:
        if t["loc"] and (nz(t["loc"]["lat"]) or nz(t["loc"]["lon"]) or nz(t["loc"]["alt"])):
            return True
        for p in t["posts"]:
            if nz(p["amount"]) or nz(p["txn_amount"]):
                return True
    return False


def session_of(rr):
    """harness result -> ('rejected', None) | ('accepted', (dump, identity)) | (other stage, None)"""
    st = rr.get("stage") if rr else "none"
    if st == "load":
        return "rejected", None
    if st == "done":
        a, b = rr["results"][0], rr["results"][1]
        if "ok" in a and "ok" in b:
            return "accepted", (b["ok"], a["ok"])
        return "op-failed", None
    return st, None


def val(d):
    return Fraction((-1 if d["n"] else 1) * int(d["m"]), 10 ** int(d["s"]))


def same_by_value(d1, d2):
    if len(d1) != len(d2):
        return False
    for a, b in zip(d1, d2):
        for k in ("ts", "code", "desc", "uuid", "loc", "tags", "comments"):
            if a[k] != b[k]:
                return False
        if len(a["posts"]) != len(b["posts"]):
            return False
        for p, q in zip(a["posts"], b["posts"]):
            for k in ("acc", "comm", "total", "txn_comm", "comment"):
                if p[k] != q[k]:
                    return False
            if val(p["amount"]) != val(q["amount"]) or val(p["txn_amount"]) != val(q["txn_amount"]):
                return False
    return True


CFGS = [("UTC", 'name = "UTC"', "00:00:00", 0, 0),
        ("+02:00", 'offset = "+02:00"', "12:34:56.789", 7200, ((12 * 60 + 34) * 60 + 56) * 10 ** 9 + 789000000),
        ("-05:30", 'offset = "-05:30"', "23:59:59.999999999", -19800, 86400 * 10 ** 9 - 1)]


def gen_cases(run, n):
    r = run.rng
    cases = []
    cdir = os.path.join(VERIF, "corpus", "C06")
    if os.path.isdir(cdir):
        for f in sorted(os.listdir(cdir)):
            if f.endswith(".json"):
                c = json.load(open(os.path.join(cdir, f)))
                for k, text in enumerate(c.pop("texts", [c.get("text")])):
                    cases.append({"text": text, "cfg": c.get("cfg", 0), "tags": list(c.get("tags", [])),
                                  "src": "corpus/%s#%d" % (f, k)})
    for i in range(n):
        k = r.random()
        g = G(r, big=(r.random() < 0.08))
        ts = [g.txn(j) for j in range(r.randint(1, 3))]
        tags = []
        cfg = 0 if r.random() < 0.7 else r.randint(1, 2)
        if k < 0.08:
            # separate stream: unit prices whose product is NOT exact (scale > 28): observed only
            t = ts[0]
            base = t["posts"][0]["closing"][2] if t["posts"][0].get("closing") else t["posts"][0]["comm"]
            if base == "":
                base = "EUR"
                for p in t["posts"]:
                    p["comm"] = p["comm"] or base
            fc = r.choice([c for c in COMM if c != base])
            a = (r.choice([1, -1]) * r.randint(1, 10 ** 18), r.randint(15, 22))
            pr = (r.randint(1, 10 ** 12), r.randint(10, 14))
            t["posts"].insert(0, {"acc": "x:inexact", "amount": a, "comm": fc, "closing": ("@", pr, base), "opening": None, "comment": None})
            t["last"] = {"acc": "x:rest", "comment": None}
            tags.append("inexact-price-product")
        if 0.38 <= k < 0.46:
            # identifier.rs range ends: one code point at the start or inside an account / commodity / tag name
            cp = chr(r.choice(ID_BOUNDS))
            where = r.randint(0, 4)
            t = ts[0]
            p = t["posts"][0]
            if where == 0:
                p["acc"] = cp + "x:y"
            elif where == 1:
                p["acc"] = "x" + cp + ":y"
            elif where == 2:
                p["acc"] = r.choice(["x:" + cp + "y", "x:y" + cp, "x:" + cp + "y:z", "x:y" + cp + "z:w", "x:" + cp])
            elif where == 3:
                t["tags"] = ["t" + cp, cp + "t"][r.randint(0, 1):][:1]
            else:
                old = p["comm"]
                new = ("c" + cp) if r.random() < 0.5 else (cp + "c")
                if old:
                    for q in t["posts"]:
                        if q["comm"] == old:
                            q["comm"] = new
                        if q.get("closing") and q["closing"][2] == old:
                            q["closing"] = (q["closing"][0], q["closing"][1], new)
                        if q.get("opening") and q["opening"][1] == old:
                            q["opening"] = (q["opening"][0], new)
            tags.append("name-boundary-U+%04X" % ord(cp))
        text = render(r, ts, plain=(r.random() < 0.25))
        if 0.08 <= k < 0.38:
            text, tag = mutate_text(r, text)
            tags.append(tag)
            if r.random() < 0.3:
                text, tag = mutate_text(r, text)
                tags.append(tag)
        cases.append({"text": text, "cfg": cfg, "tags": tags, "src": "gen"})
    return cases


def make_reqs(cases, key):
    reqs = []
    for c in cases:
        name, tz, deftime, _, _ = CFGS[c["cfg"]]
        reqs.append({"conf": {"toml": J.make_toml(tz=tz, deftime=deftime)}, "inputs": [{"text": c[key]}],
                     "ops": [{"op": "identity"}, {"op": "txns"}]})
    return reqs


def div_cases(run, n):
    r = run.rng
    out = []
    for _ in range(n):
        q = (r.choice([1, -1]) * r.randint(0, 10 ** r.randint(1, 12)), r.randint(0, 8))
        b = (r.choice([1, -1]) * r.randint(1, 10 ** r.randint(1, 12)), r.randint(0, 8))
        k = r.random()
        if k < 0.7:
            a = (q[0] * b[0], q[1] + b[1])            # a product: the case the printer meets
        elif k < 0.85:
            a = (q[0] * b[0], r.randint(0, 8))        # divisible mantissas, any scales
        else:
            a = (r.randint(-10 ** 6, 10 ** 6), r.randint(0, 6))
        out.append((a, b))
    return out


def jd(p):
    return {"n": p[0] < 0, "m": str(abs(p[0])), "s": p[1]}


F13_WITNESS = {"zone": 'name = "Europe/Helsinki"', "journal": "1900-01-01\n a  1\n b\n"}


def f13_probe(run):
    """finding F13 (open): a named journal zone with a sub-minute offset (+01:39:49) is exported with seconds
    in the offset, which the grammar rejects.  Outside cfg_ok (C06_subminute_zone_refuted is the model's
    counterpart).  Reported as KNOWN-FINDING only if known-findings.jsonl lists it for C06; never a violation."""
    req = {"conf": {"toml": J.make_toml(tz=F13_WITNESS["zone"])}, "inputs": [{"text": F13_WITNESS["journal"]}],
           "ops": [{"op": "identity"}, {"op": "txns"}]}
    st, s = session_of(harness_run([req])[0])
    out = {"first": st}
    if s is not None:
        out["export"] = s[1]
        req2 = dict(req)
        req2["inputs"] = [{"text": s[1]}]
        st2, s2 = session_of(harness_run([req2])[0])
        out["second"] = st2
        out["reproduces"] = (st2 == "rejected")
    run.notes["F13_witness"] = out
    for f in load_findings("C06"):
        if f.get("id") == "F13" and f.get("status") == "open":
            if out.get("reproduces"):
                run.known_finding(f.get("what", "F13"))
            else:
                run.violation("known finding F13 no longer reproduces: model (cfg_ok hypothesis) and code disagree",
                              {"witness": F13_WITNESS, "observed": out}, found_input=False)


def main(run, only=None, only_div=None):
    """only / only_div: the journal cases / the division cases of a replay (no generation, no proof stage, no F13 probe, no verdict)"""
    replaying = only is not None or only_div is not None
    if not replaying:
        info = proof_stage(run, "C06", extra_targets=["corr/C06_corr.vo"])
        harness_build()
        n = 220 if run.tier == "quick" else 4000
        cases = gen_cases(run, n)
    else:
        cases = only or []
    res1 = harness_run(make_reqs(cases, "text"))
    second = []
    for c, rr in zip(cases, res1):
        st, s = session_of(rr)
        c["st1"], c["s1"] = st, s
        if s is not None:
            c["id1"] = s[1]
            second.append(c)
    res2 = harness_run(make_reqs(second, "id1"))
    for c, rr in zip(second, res2):
        c["st2"], c["s2"] = session_of(rr)
    terms, idx = [], []
    stages, tagc = {}, {}
    inexact = {"cases": 0, "accepted": 0, "fixed_point_holds": 0, "example_broken": None}
    for i, c in enumerate(cases):
        stages[c["st1"]] = stages.get(c["st1"], 0) + 1
        for t in c["tags"] or ["valid"]:
            tagc[t] = tagc.get(t, 0) + 1
        if "inexact-price-product" in c["tags"]:
            inexact["cases"] += 1
            if c["s1"] is not None:
                inexact["accepted"] += 1
                ok = c.get("s2") is not None and c["s2"][1] == c["s1"][1] and same_by_value(c["s1"][0], c["s2"][0])
                if ok:
                    inexact["fixed_point_holds"] += 1
                elif inexact["example_broken"] is None:
                    inexact["example_broken"] = {"journal": c["text"], "export": c["s1"][1],
                                                 "second": (c["s2"][1] if c.get("s2") else "rejected (%s)" % c.get("st2"))}
        if c["st1"] not in ("rejected", "accepted"):
            continue                              # panic / abort: C15's business
        if c["s1"] is not None and c.get("st2") not in ("rejected", "accepted"):
            continue
        if c["s1"] is not None and (has_neg_zero(c["s1"][0]) or (c.get("s2") and has_neg_zero(c["s2"][0]))):
            continue                              # sign of zero is not modelled
        _, _, _, off, dt = CFGS[c["cfg"]]
        terms.append("c06_case (mkCfg %s %s) %s %s %s" % (g_Z(off), g_Z(dt), g_str(c["text"]), g_session(c["s1"]),
                                                        g_session(c.get("s2"))))
        idx.append(i)
    if not replaying:
        f13_probe(run)
    # Decimal division contract
    dcs = div_cases(run, 60 if run.tier == "quick" else 1500) if not replaying else (only_div or [])
    dres = harness_run([{"kind": "dec", "op": "div", "a": jd(a), "b": jd(b)} for a, b in dcs])
    dterms, didx = [], []
    for k, ((a, b), rr) in enumerate(zip(dcs, dres)):
        if rr and rr.get("stage") == "done" and rr.get("ok"):
            dterms.append("c06_div_case %s %s %s" % (g_dec(a), g_dec(b), g_dec(rr["ok"])))
            didx.append(k)
    vals, errs = coq_eval("C06", IMPORTS, terms + dterms)
    if errs:
        raise Infra("coq evaluation failed: " + errs[0])
    distinct = set()
    n_dom = n_acc = n_rej_dom = 0
    for j, v in zip(idx, vals[:len(terms)]):
        c = cases[j]
        bits = as_N(v)
        if bits is None:
            raise Infra("no result for case %d" % j)
        run.cov["evaluations"] += 1
        if len(run.cov["samples"]) < 3 and c["s1"] is not None:
            run.cov["samples"].append({"journal": c["text"], "tags": c["tags"], "identity_export": c["s1"][1], "bits": bits})
        if not (bits & 4):
            continue
        n_dom += 1
        if c["s1"] is not None:
            n_acc += 1
            distinct.add(c["s1"][1])
        else:
            n_rej_dom += 1
        if not (bits & 2):
            run.violation("identity export of an accepted journal does not re-load to the same transactions / is not a fixed point",
                          {"journal": c["text"], "config_zone": CFGS[c["cfg"]][0], "injected": c["tags"],
                           "identity_export": c["s1"][1] if c["s1"] else None,
                           "second_session": ({"identity_export": c["s2"][1], "txns": c["s2"][0]} if c.get("s2") else "rejected"),
                           "first_txns": c["s1"][0] if c["s1"] else None,
                           "replay_hint": "tackler --export.targets identity on the journal, then again on its output"})
        elif not (bits & 1):
            run.cov["disagreements_checked"] += 1
            what = []
            if not (bits & 8):
                what.append("Journal.load_journal vs parser::string_to_txns on the journal text")
            if not (bits & 16):
                what.append("Journal.print_journal vs IdentityExporter on the dumped transactions")
            if not (bits & 32):
                what.append("Journal.load_journal vs parser::string_to_txns on the identity export")
            if not (bits & 64):
                what.append("the loaded transactions do not satisfy Journal_spec.journal_wf (hypothesis of C06_roundtrip)")
            run.violation("correspondence broken: " + "; ".join(what) + " (spec oracle clean on this input)",
                          {"correspondence": "C06_corr.c06_case", "bits": bits, "journal": c["text"], "config_zone": CFGS[c["cfg"]][0],
                           "injected": c["tags"], "implementation": {"first": c["st1"], "identity_export": c["s1"][1] if c["s1"] else None,
                                                                     "txns": c["s1"][0] if c["s1"] else None}},
                          found_input=False)
    n_div = n_div_def = 0
    for k, v in zip(didx, vals[len(terms):]):
        b = as_N(v)
        n_div += 1
        if b == 3:
            continue
        n_div_def += 1
        if b != 1:
            a, d = dcs[k]
            run.violation("correspondence broken: Journal.ddiv differs from rust_decimal division on an exact quotient",
                          {"correspondence": "C06_corr.c06_div_case", "a": a, "b": d, "implementation": dres[k].get("ok")}, found_input=False)
    run.cov["evaluations"] += n_div_def
    if replaying:
        return None
    run.cov["distinct_nontrivial"] = len(distinct)
    run.cov["rule"] = ("seeded journals of 1-3 transactions in free format (blanks/TABs, CRLF, metadata in any order, every header, metadata and comment "
                       "feature, Unicode names, '@' '=' '{..}' positions, trailing-zero prices, implicit last posting, years 0000-9999, offsets to "
                       "+-25:59, 1-9 fraction digits, three journal-zone configurations), 30% with 1-2 character/line level mutations (parser "
                       "accept/reject agreement), 8% with an inexact price product (observed only); each accepted journal: export, re-load, "
                       "re-export through the implementation, model printer and loader on the same data; non-trivial = accepted journal; "
                       "distinct = distinct identity exports; plus Decimal division contract cases")
    run.notes.update({"stages_first_session": stages, "injected": tagc, "in_exact_domain": n_dom, "accepted_in_domain": n_acc,
                      "rejected_in_domain": n_rej_dom, "division_cases": n_div, "division_cases_in_contract": n_div_def,
                      "inexact_price_products_observed": inexact})
    return run.finish(info)


def replay(run, path):
    """the stored journal under its journal-zone configuration: export, re-load, re-export through the harness + c06_case;
    a division case through the harness + c06_div_case; the F13 witness through f13_probe"""
    j, rp, rc = replay_begin(run, path)
    if rc is not None:
        return rc
    print(j.get("what"))
    if isinstance(rp.get("journal"), str):
        zone = rp.get("config_zone", "UTC")
        cfg = [k for k, c in enumerate(CFGS) if c[0] == zone] or [0]
        c = {"text": rp["journal"], "cfg": cfg[0], "tags": list(rp.get("injected") or []), "src": "replay"}
        print("journal (journal zone %s):\n%s" % (zone, c["text"]))
        corr_build("C06")
        harness_build()
        main(run, only=[c])
        print("first session: %s" % c.get("st1"))
        if c.get("s1"):
            print(c["s1"][1])
            s2 = c.get("s2")
            print("second session: %s | export identical: %s | same transactions (by value): %s"
                  % (c.get("st2"), bool(s2 and s2[1] == c["s1"][1]), bool(s2 and same_by_value(c["s1"][0], s2[0]))))
        return replay_verdict(run, path, j, "the stored journal is %s; an accepted journal's identity export re-loads to the same transactions and is a fixed "
                                            "point, and the model agrees (or the case is outside the exact domain)" % c.get("st1"))
    if "c06_div_case" in str(rp.get("correspondence")) and "a" in rp and "b" in rp:
        a, b = tuple(rp["a"]), tuple(rp["b"])
        print("division %s / %s" % (a, b))
        corr_build("C06")
        harness_build()
        main(run, only_div=[(a, b)])
        return replay_verdict(run, path, j, "Journal.ddiv agrees with rust_decimal on the stored quotient (or the case is outside the contract)")
    if isinstance(rp.get("witness"), dict) and "observed" in rp:
        harness_build()
        f13_probe(run)
        print("F13 witness now: %s" % json.dumps(run.notes.get("F13_witness"), ensure_ascii=False))
        return replay_verdict(run, path, j, "the F13 witness behaves as known-findings.jsonl says")
    return replay_print(j)
