# T01 (extension, not a numbered property) — the text of the balance, balance-group and register
# reports is the text of the model coq/model/ReportText.v, byte for byte.
# ./check T01 runs the proof audit of coq/props/T01.v and the three text stages standalone; the
# stages are also run as extra stages of other checks (see gen/t01_text.py: run_text_stage).
import json
from common import *
import t01_text as T


def main(run):
    info = proof_stage(run, "T01", extra_targets=["corr/T01_corr.vo"])
    harness_build()
    distinct = 0
    for kind in T.KINDS:
        st = T.run_text_stage(run, kind)
        run.cov["evaluations"] += st["compared"]
        distinct += st["distinct_texts"]
        if "sample" in st:
            run.cov["samples"].append(st.pop("sample"))
    run.cov["distinct_nontrivial"] = distinct
    run.cov["rule"] = ("per report kind (balance, balance-group, register): seeded journals (1-6 txns, account trees with names longer than 33 "
                       "characters, 1-4 commodities of different lengths incl. multi-byte ones and none, figures of 18 and more characters, figures "
                       "whose rounding adds a digit, negative / zero / tiny figures, listed accounts (non-zero deltas) and empty selections; register "
                       "headers with code, description, uuid, location, tags, comments, 3 time stamp styles x 3 fixed-offset report zones; balance-group "
                       "under all five group-by settings) rendered under scale (min,max) in {(0,0),(2,2),(2,7),(0,28),(28,28)} + random; the "
                       "implementation's text from the title line on is compared character by character with ReportText.v evaluated on the figures "
                       "dumped by the hooks of the same run, and must pass the reading oracle of ReportText_spec.v; non-trivial = more than 3 lines; "
                       "distinct = distinct report texts")
    return run.finish(info)


def replay(run, path):
    """also the replay of the T01 stage inside C02 / C03 (run.prop is the host then): common.replay_begin"""
    j, rp = replay_load(path)
    if "theorem_file" in rp and "case" not in rp:
        return replay_theorem(run, path, j, rp)
    print(j.get("what"))
    c = rp.get("case")
    if not (isinstance(c, dict) and "kind" in c and "text" in c):
        return replay_print(j)
    print("journal:\n%s\nscale %s, listed accounts %s" % (c["text"], rp.get("scale"), rp.get("listed_accounts")))
    print("first differing character: %s\nimplementation: %r\nmodel:          %r" % (rp.get("first_differing_character"), rp.get("implementation_around"), rp.get("model_around")))
    harness_build()
    st = T.new_stats()
    T.check_cases(run, [dict(c)], st)
    for what, rep, found in run.violations:
        print("implementation text now:\n" + rep["implementation_text"])
        print("model text now:\n" + rep["model_text"])
    return replay_verdict(run, path, j, "T01 stage: the %s report text is the model's text now (compared=%d, stages=%s)" % (c["kind"], st["compared"], st["stages"]))
