# C18 — filter definitions mean the same in every encoding and survive re-serialisation
import json, os, re, base64, datetime
from common import *
import journal as J

IMPORTS = ("From TkModel Require Import Base Dec Codec.\nFrom TkSpec Require Import Codec_spec.\n"
           "From TkCorr Require Import C18_corr.\n")

ARMOR = "base64:"


# ---------------------------------------------------------------- JSON text <-> tree (the driver's part)
class Num(str):
    """a JSON number, kept as its own text (serde_json arbitrary_precision)"""


class Obj(list):
    """a JSON object as the list of its (key, value) entries, duplicates and order kept"""


def _bad_const(x):
    raise ValueError("constant " + x)


def parse_json(text):
    try:
        return json.loads(text, object_pairs_hook=lambda p: Obj(p), parse_float=Num, parse_int=Num,
                          parse_constant=_bad_const)
    except Exception:
        return None


NOT_JSON = object()


def tree_of(text):
    try:
        return json.loads(text, object_pairs_hook=lambda p: Obj(p), parse_float=Num, parse_int=Num,
                          parse_constant=_bad_const)
    except Exception:
        return NOT_JSON


def g_jv(v):
    if v is None:
        return "JNull"
    if v is True or v is False:
        return "(JBool %s)" % g_bool(v)
    if isinstance(v, Num):
        return "(JNum %s)" % g_str(str(v))
    if isinstance(v, str):
        return "(JStr %s)" % g_str(v)
    if isinstance(v, Obj):
        return "(JObj %s)" % g_list(["(%s, %s)" % (g_str(k), g_jv(x)) for k, x in v])
    if isinstance(v, list):
        return "(JArr %s)" % g_list([g_jv(x) for x in v])
    raise Infra("g_jv: %r" % (v,))


def strings_of(v, out):
    if isinstance(v, Num):
        return
    if isinstance(v, str):
        out.add(str(v))
    elif isinstance(v, Obj):
        for k, x in v:
            strings_of(x, out)
    elif isinstance(v, list):
        for x in v:
            strings_of(x, out)


def regex_leaves(v, out):
    """values found under a key "regex" (what the codec compiles)"""
    if isinstance(v, Obj):
        for k, x in v:
            if k == "regex":
                if isinstance(x, str) and not isinstance(x, Num):
                    out.add(str(x))
            else:
                regex_leaves(x, out)
    elif isinstance(v, list):
        for x in v:
            regex_leaves(x, out)


JSON_NUM = re.compile(r"^-?(0|[1-9][0-9]*)(\.[0-9]+)?([eE][-+]?[0-9]+)?$")


def emit(v, r, ws=True):
    """tree -> JSON text with random insignificant white space"""
    sp = (lambda: r.choice(["", "", "", " ", "\n ", "\t"])) if ws else (lambda: "")
    if v is None:
        return "null"
    if v is True:
        return "true"
    if v is False:
        return "false"
    if isinstance(v, Num):
        return str(v)
    if isinstance(v, str):
        return json.dumps(str(v), ensure_ascii=(r.random() < 0.5))
    if isinstance(v, Obj):
        return "{" + ",".join(sp() + json.dumps(k) + sp() + ":" + sp() + emit(x, r, ws) + sp() for k, x in v) + "}"
    if isinstance(v, list):
        return "[" + ",".join(sp() + emit(x, r, ws) + sp() for x in v) + "]"
    raise Infra("emit: %r" % (v,))


# ---------------------------------------------------------------- leaf spellings
PATTERNS = ["abc", "a.*", ".*", "", "e.*", "[a-z]+", "a|b", "^a|b$", "^abc$", "é+", r"\d{2}", "a:b.*", "x-y", "t1",
            "^(?:x)$", "^(?:^(?:x)$)$", "^(?:a.*)$", "^(?:", ")$x", "(?:abc)", "^(?:a|b)$", "desc.*", ".*same.*", "it's.*",
            "ünï.*", "#1", "X-.*", "note", "c", "EUR", "USD|EUR", "He·bar", "€", "Assets.*", ".*:b.*", "ab(:.*)?"]
BAD_PATTERNS = ["(", "a)", "[a", "(?:", ")$", "*a", "a{2,1}", "\\"]
F15_PATTERNS = ["a)|(?:b", "(?x) a # c"]

# patterns with the same meaning in Python's re and the regex crate; the expected selection is re.fullmatch
WHOLE_PATTERNS = ["desc", "desc #1", "desc #1|same #2", "desc.*", ".*#1", "#1", "^desc #1$", "^desc", "#1$", "d|e", "(desc|same) #[0-9]+",
                  "", ".", "a #2|b #2|abc #2", "^(?:desc #1)$", "^(?:desc)$|same #.*", "[a-z]+ #1", "[a-z]+", ".* #1.*"]

DEC_OK_NUM = ["1", "1.0", "1.00", "-1.5", "0.0015", "1e2", "1.5E-3", "1E+2", "-0.0", "0", "0.0", "100", "12.50", "-7",
              "3.141592653589793238462643383", "79228162514264337593543950335", "0.0000000000000000000000000001",
              "1.50e1", "1.5e1", "2e0", "25e-1", "1e28", "1e-28", "-2.5E+1"]
DEC_OK_STR = DEC_OK_NUM + ["+4", "1_000", ".5", "5.", "00.10", "-.5", "1e-+5", "1_0.0_1", "007"]
DEC_BAD = ["", "abc", "1.2.3", "1e", "e5", "--1", "1e99", "1e-29", ".", "-", "+", "1 ", " 1", "1,5", "0x10", "_1", "1e2e3",
           "1.5e-28", "1e+"]
DEC_OUT = ["79228162514264337593543950336", "0.00000000000000000000000000001", "1.23456789012345678901234567890123",
           "9e28", "123456789012345678901234567890", "1_0000000000000000000"]

TS_BAD = ["2024-01-01T00:00:00", "2024-13-01T00:00:00Z", "2024-00-10T00:00:00Z", "2024-02-30T00:00:00Z",
          "2023-02-29T00:00:00Z", "2024-01-32T00:00:00Z", "2024-01-00T00:00:00Z", "2024-01-01T24:00:00Z",
          "2024-01-01T23:60:00Z", "2024-01-01T23:59:61Z", "2024-01-01", "", "2024", "yesterday", "2024-01-01T00:00:00+26:00",
          "2024-01-01T00:00:00+02:60", "2024-01-01T00:00:00.Z", "2024-01-01T00:00:00.1234567890Z", "9999-12-31T23:59:59Z",
          "2024-01-01T00:00:00+02:00:60", "2024-01-01T00:00:00.5", "2024-04-31T12:00:00+02:00", "1900-02-29T00:00:00Z"]
TS_OUT = ["20240101T000000Z", "2024-01-01T00:00Z", "2024-01-01T00Z", "2024-01-01T00:00:00+0200", "2024-01-01T00:00:00Z[UTC]",
          "+002024-01-01T00:00:00Z", "2024-01-01T00:00:00+02:00[Europe/Helsinki]"]
TS_EDGE = ["0000-01-01T00:00:00Z", "9999-12-30T22:00:00Z", "9999-12-30T22:00:00.999999999Z", "2000-02-29T23:59:60Z",
           "2024-02-29T12:00:00.000000001-00:00", "1969-12-31T23:59:59.999999999Z", "1970-01-01T00:00:00+00:00",
           "1970-01-01T00:00:00.5+01:00", "1969-12-31T23:30:00.5-01:00",
           "2024-12-31T23:59:59,5+25:59", "2024-01-01 00:00:00z", "2024-06-15t07:08:09.120-03:30",
           "2024-01-01T00:00:00+05:30:15", "2100-02-28T23:59:59Z", "2400-02-29T00:00:00Z", "0001-01-01T00:00:00-12:00"]

UUID_BAD = ["a66b0e0d-a1a5-4c5a-9a3f-8a4b1f1f7f8", "a66b0e0d-a1a5-4c5a-9a3f-8a4b1f1f7f8eg", "g66b0e0d-a1a5-4c5a-9a3f-8a4b1f1f7f8e",
            "a66b0e0da1a5-4c5a-9a3f-8a4b1f1f7f8e-", "{a66b0e0d-a1a5-4c5a-9a3f-8a4b1f1f7f8e", "urn:uuid:a66b0e0da1a54c5a9a3f8a4b1f1f7f8e",
            "", "a66b0e0d_a1a5_4c5a_9a3f_8a4b1f1f7f8e", "a66b0e0d-a1a5-4c5a-9a3f-8a4b1f1f7f8é", "a66b0e0d-a1a54-c5a-9a3f-8a4b1f1f7f8e"]


def ts_text(r, ns, style=None):
    """a spelling (inside the modelled sub-grammar) of the instant `ns` nanoseconds after the epoch"""
    off = r.choice([0, 0, 0, 7200, -12600, 19815, -3600, 93540, -43200]) if style is None else style
    secs, frac = divmod(ns, 10 ** 9)
    local = secs + off
    dt = datetime.datetime(1970, 1, 1) + datetime.timedelta(seconds=local)
    sep = r.choice(["T", "T", "T", "t", " "])
    s = "%04d-%02d-%02d%s%02d:%02d:%02d" % (dt.year, dt.month, dt.day, sep, dt.hour, dt.minute, dt.second)
    if frac or r.random() < 0.15:
        digs = "%09d" % frac
        keep = r.choice([9, len(digs.rstrip("0")) or 1, max(len(digs.rstrip("0")), r.randint(1, 9))])
        s += r.choice([".", ".", ","]) + digs[:max(keep, len(digs.rstrip("0")) or 1)]
    if off == 0:
        return s + r.choice(["Z", "z", "+00:00", "-00:00", "+00"])
    sign = "+" if off > 0 else "-"
    a = abs(off)
    h, m, sec = a // 3600, (a // 60) % 60, a % 60
    if sec:
        return s + "%s%02d:%02d:%02d" % (sign, h, m, sec)
    if m == 0 and r.random() < 0.3:
        return s + "%s%02d" % (sign, h)
    return s + "%s%02d:%02d" % (sign, h, m)


def uuid_text(r, u):
    h = "%032x" % u
    hy = "-".join([h[0:8], h[8:12], h[12:16], h[16:20], h[20:32]])
    k = r.randrange(6)
    return [hy, hy.upper(), h, "{" + hy + "}", "urn:uuid:" + hy, "".join(c.upper() if r.random() < 0.5 else c for c in hy)][k]


class Env:
    """what the generated definitions talk about (so that they select something)"""

    def __init__(self, instants, uuids, amounts, patterns):
        self.instants, self.uuids, self.amounts, self.patterns = instants, uuids, amounts, patterns


def gen_filter(r, env, depth, st):
    """returns a tree (Obj/list/str/Num); st["clean"] is cleared when a non-canonical shape is used,
    st["tags"] collects what was injected"""
    sel = st.get("selective", False)

    def variant(name, fields):
        body = Obj(fields)
        if sel:
            return Obj([(name, body)])
        k = r.random()
        if k < 0.04:
            body = Obj(fields + [("comment", r.choice([Num("1"), "x", Obj([("regex", "(")]), [None, True]]))])
            st["clean"] = False; st["tags"].append("unknown-key")
        elif k < 0.07:
            body = [v for _, v in fields]
            st["clean"] = False; st["tags"].append("struct-as-array")
        elif k < 0.10 and len(fields) > 1:
            fs = list(fields); r.shuffle(fs); body = Obj(fs)
            st["clean"] = False; st["tags"].append("permuted-keys")
        elif k < 0.12 and fields:
            body = Obj(fields + [fields[0]])
            st["clean"] = False; st["tags"].append("duplicate-key")
        elif k < 0.14 and fields:
            fs = list(fields); fs.pop(r.randrange(len(fs))); body = Obj(fs)
            st["clean"] = False; st["tags"].append("missing-key")
        elif k < 0.15:
            body = r.choice([None, "x", Num("1"), True])
            st["clean"] = False; st["tags"].append("body-wrong-type")
        elif k < 0.16 and fields:
            fs = list(fields); i = r.randrange(len(fs)); fs[i] = (fs[i][0], r.choice([None, True, [], Obj([]), Num("7")]))
            body = Obj(fs); st["tags"].append("leaf-wrong-type")
        k = r.random()
        if k < 0.015:
            st["clean"] = False; st["tags"].append("unknown-variant")
            return Obj([(name + "X", body)])
        if k < 0.03:
            st["clean"] = False; st["tags"].append("two-variants")
            return Obj([(name, body), ("NullaryTRUE", Obj([]))])
        if k < 0.04:
            st["clean"] = False; st["tags"].append("variant-as-string")
            return name
        if k < 0.05:
            st["clean"] = False; st["tags"].append("variant-lowercase")
            return Obj([(name.lower(), body)])
        return Obj([(name, body)])

    def pattern():
        if sel or (env.patterns and r.random() < 0.3):
            return r.choice(env.patterns)
        k = r.random()
        if k < 0.05:
            st["tags"].append("bad-regex"); return r.choice(BAD_PATTERNS)
        if k < 0.07:
            st["tags"].append("pattern-valid-alone-xor-wrapped"); return r.choice(F15_PATTERNS)
        return r.choice(PATTERNS)

    def decimal(as_number_ok=True):
        k = r.random() if not sel else 0.2 + 0.29 * r.random()
        if k < 0.06:
            st["tags"].append("bad-number"); t = r.choice(DEC_BAD); return t
        if k < 0.09:
            st["tags"].append("number-outside-exact-domain"); t = r.choice(DEC_OUT)
        elif k < 0.5 and env.amounts:
            m, s = r.choice(env.amounts)
            s2 = s + r.choice([0, 0, 1, 2]); t = J.dec_str(m * 10 ** (s2 - s), s2)      # equal value, other scale
        else:
            t = r.choice(DEC_OK_STR)
        if JSON_NUM.match(t) and as_number_ok and r.random() < 0.6:
            return Num(t)
        if r.random() < 0.03:
            st["clean"] = False; st["tags"].append("private-number-map")
            return Obj([("$serde_json::private::Number", t)])
        return t

    def instant():
        k = r.random() if not sel else 1.0
        if k < 0.07:
            st["tags"].append("bad-timestamp"); return r.choice(TS_BAD)
        if k < 0.10:
            st["tags"].append("timestamp-outside-subgrammar"); return r.choice(TS_OUT)
        if k < 0.2:
            return r.choice(TS_EDGE)
        base = r.choice(env.instants) if env.instants else 1704067200 * 10 ** 9
        return ts_text(r, base + r.choice([0, 0, -1, 1, 10 ** 9, -10 ** 9, 500000000]))

    def uuid_leaf():
        if not sel and r.random() < 0.12:
            st["tags"].append("bad-uuid"); return r.choice(UUID_BAD)
        u = r.choice(env.uuids) if env.uuids and r.random() < 0.7 else r.getrandbits(128)
        return uuid_text(r, u)

    kinds = ["NullaryTRUE", "NullaryFALSE", "TxnFilterTxnTSBegin", "TxnFilterTxnTSEnd", "TxnFilterTxnCode",
             "TxnFilterTxnDescription", "TxnFilterTxnUUID", "TxnFilterBBoxLatLon", "TxnFilterBBoxLatLonAlt",
             "TxnFilterTxnTags", "TxnFilterTxnComments", "TxnFilterPostingAccount", "TxnFilterPostingComment",
             "TxnFilterPostingAmountEqual", "TxnFilterPostingAmountLess", "TxnFilterPostingAmountGreater",
             "TxnFilterPostingCommodity"]
    if depth > 0 and r.random() < 0.45:
        k = r.choice(["TxnFilterAND", "TxnFilterOR", "TxnFilterNOT"])
        if k == "TxnFilterNOT":
            return variant(k, [("txnFilter", gen_filter(r, env, depth - 1, st))])
        n = r.choice([0, 1, 2, 2, 3])
        return variant(k, [("txnFilters", [gen_filter(r, env, depth - 1, st) for _ in range(n)])])
    k = r.choice(kinds)
    if k.startswith("Nullary"):
        return variant(k, [])
    if k == "TxnFilterTxnTSBegin":
        return variant(k, [("begin", instant())])
    if k == "TxnFilterTxnTSEnd":
        return variant(k, [("end", instant())])
    if k == "TxnFilterTxnUUID":
        return variant(k, [("uuid", uuid_leaf())])
    if k == "TxnFilterBBoxLatLon":
        return variant(k, [(f, decimal()) for f in ("south", "west", "north", "east")])
    if k == "TxnFilterBBoxLatLonAlt":
        return variant(k, [(f, decimal()) for f in ("south", "west", "depth", "north", "east", "height")])
    if "Amount" in k:
        return variant(k, [("regex", pattern()), ("amount", decimal())])
    return variant(k, [("regex", pattern())])


def b64_strict(t):
    """bytes iff t is the canonical STANDARD encoding of them"""
    try:
        raw = base64.b64decode(t.encode("ascii"), validate=True)
    except Exception:
        return None
    return raw if base64.b64encode(raw).decode("ascii") == t else None


def b64_lenient(t):
    try:
        core = re.sub(r"[^A-Za-z0-9+/]", "", t)
        return base64.b64decode(core + "=" * (-len(core) % 4))
    except Exception:
        return None


def armor_variants(r, text):
    """(definition text, tag) — armored spellings of the JSON text, most of them broken"""
    b = base64.b64encode(text.encode("utf-8")).decode("ascii")
    k = r.randrange(12)
    if k <= 4:
        return ARMOR + b, "armor"
    if k == 5:
        return ARMOR + ARMOR + b, "armor-double-prefix"
    if k == 6:
        return ARMOR + b.rstrip("="), "armor-no-padding" if b.endswith("=") else "armor"
    if k == 7:
        return ARMOR + b + "\n", "armor-trailing-newline"
    if k == 8:
        i = r.randrange(len(b) + 1)
        return ARMOR + b[:i] + r.choice(["-", "_", " ", ":", "é", "\n"]) + b[i:], "armor-foreign-character"
    if k == 9:
        return r.choice(["BASE64:", "base64", " base64:", "base32:"]) + b, "armor-wrong-tag"
    if k == 10:
        bad = base64.b64encode(text.encode("utf-8")[:-1] + b"\xff\xfe").decode("ascii")
        return ARMOR + bad, "armor-invalid-utf8"
    # non-zero trailing bits in the last symbol before padding
    if b.endswith("="):
        core = b.rstrip("=")
        alpha = "ABCDEFGHIJKLMNOPQRSTUVWXYZabcdefghijklmnopqrstuvwxyz0123456789+/"
        core = core[:-1] + alpha[(alpha.index(core[-1]) + 1) % 64]
        return ARMOR + core + "=" * (len(b) - len(core)), "armor-trailing-bits"
    return ARMOR + b, "armor"


def mutate_text(r, text):
    k = r.randrange(7)
    if k == 0:
        return text[:r.randrange(max(1, len(text)))], "json-truncated"
    if k == 1:
        return text + r.choice(["}", "x", ",", "{}"]), "json-trailing-garbage"
    if k == 2:
        return text.replace('"', "'"), "json-single-quotes"
    if k == 3:
        return text.replace("}", ",}", 1), "json-trailing-comma"
    if k == 4:
        return text.replace(":", "=", 1), "json-equals"
    if k == 5:
        return "", "json-empty"
    return text.replace("{", "", 1), "json-missing-brace"


# ---------------------------------------------------------------- journals for the behavioural comparison
def make_env(r):
    g = J.Gen(r, max_depth=3, n_accounts=6)
    txns = g.journal(r.randint(8, 14), prices=False, meta=True, implicit_p=0.2)
    instants, uuids, amounts = [], [], []
    base = 1704067200   # 2024-01-01T00:00:00Z
    for i, t in enumerate(txns):
        secs = base + r.randrange(0, 400) * 86400 + r.randrange(86400)
        frac = r.choice([0, 0, 0, 1, 500000000, 999999999, 120000000])
        if i < 2:
            # two transactions next to the epoch with a fraction: bounds spelled from them with an offset have civil date
            # and instant on different sides of 1970-01-01T00:00Z (mixed-sign pair in jiff 0.2.5; repaired finding F17)
            secs, frac = r.choice([-3600, -1800, -1, 0, 1800]), r.choice([400000000, 500000000, 600000000, 1, 999999999])
        ns = secs * 10 ** 9 + frac
        instants.append(ns)
        dt = datetime.datetime(1970, 1, 1) + datetime.timedelta(seconds=secs)
        t["ts"] = "%04d-%02d-%02dT%02d:%02d:%02d" % (dt.year, dt.month, dt.day, dt.hour, dt.minute, dt.second) \
                  + (".%09d" % frac if frac else "") + "Z"
        t["desc"] = r.choice(["desc", "it's (c)", "ünï ¢", "same", "abc", "a", "b"]) + " #%d" % i if r.random() < 0.7 else "#%d" % i
        if t.get("uuid"):
            import uuid as _u
            uuids.append(_u.UUID(t["uuid"]).int)
        for p in t["posts"]:
            amounts.append(p["amount"])
    pats = ["desc #[0-4]", "desc.*", ".* #1", ".* #[13579]", "same.*|abc.*", "^a #.*$", "^(?:b #.*)$", ".*#\\d", "it's.*", "ünï.*",
            "#1", "X-.*", ".*", "t1", "a:b", "x-y|t2:z", "note", ".*indented", "c", "EUR", "USD|EUR", "He·bar", "€", ""]
    for a in g.accounts[:4]:
        pats += [a, a.split(":")[0] + "(:.*)?", ".*:" + a.split(":")[-1] if ":" in a else a + ".*"]
    return Env(instants, uuids, amounts, pats), J.print_journal(txns)


def selected(rr):
    if not rr or rr.get("stage") != "done":
        return ("stage", rr.get("stage") if rr else None)
    ok = rr["results"][0].get("ok")
    if ok is None:
        return ("op-error",)
    return tuple(t.get("desc") for t in ok)


# ---------------------------------------------------------------- cases
def load_corpus():
    out = []
    cdir = os.path.join(VERIF, "corpus", "C18")
    if os.path.isdir(cdir):
        for f in sorted(os.listdir(cdir)):
            if f.endswith(".json"):
                c = json.load(open(os.path.join(cdir, f)))
                for k, item in enumerate(c["cases"]):
                    out.append({"s": item["s"], "tags": ["corpus"] + item.get("tags", []), "clean": bool(item.get("clean", False)),
                                "expect": item.get("expect"), "src": "corpus/%s#%d" % (f, k), "env": None})
    return out


def gen_cases(run, n, envs):
    r = run.rng
    cases = []
    for i in range(n):
        ei = r.randrange(len(envs))
        st = {"clean": True, "tags": [], "selective": r.random() < 0.3}
        tree = Obj([("txnFilter", gen_filter(r, envs[ei][0], r.choice([0, 1, 2, 3, 5]) if not st["selective"] else r.choice([0, 0, 1, 2]), st))])
        if st["selective"]:
            st["tags"].append("selective")
        k = r.random() if not st["selective"] else 1.0
        if k < 0.03:
            tree = Obj(list(tree) + [("extra", [Num("1")])]); st["clean"] = False; st["tags"].append("unknown-key-top")
        elif k < 0.05:
            tree = [tree[0][1]]; st["clean"] = False; st["tags"].append("definition-as-array")
        elif k < 0.06:
            tree = Obj([("txnfilter", tree[0][1])]); st["clean"] = False; st["tags"].append("missing-key-top")
        text = emit(tree, r, ws=(r.random() < 0.5))
        if r.random() < 0.5:
            text += r.choice(["", "\n", " \n"])
        s = text
        k = r.random() if not st["selective"] else 0.08 + 0.92 * r.random()
        if st["selective"] and 0.08 <= k < 0.45:
            s = ARMOR + base64.b64encode(text.encode("utf-8")).decode("ascii"); st["tags"].append("armor"); k = 1.0
        if k < 0.08:
            s, tag = mutate_text(r, text); st["tags"].append(tag); st["clean"] = False
        elif k < 0.45:
            s, tag = armor_variants(r, text); st["tags"].append(tag)
        cases.append({"s": s, "tags": st["tags"], "clean": st["clean"], "expect": None, "src": "gen", "env": ei,
                      "selective": st["selective"]})
    # whole-string matching: single description filters whose selection is known independently
    for ei, (env, text) in enumerate(envs):
        for p in WHOLE_PATTERNS:
            t = json.dumps({"txnFilter": {"TxnFilterTxnDescription": {"regex": p}}}, ensure_ascii=False)
            if r.random() < 0.4:
                t = ARMOR + base64.b64encode(t.encode("utf-8")).decode("ascii")
            cases.append({"s": t, "tags": ["whole-string"], "clean": True, "expect": "accept", "src": "gen", "env": ei,
                          "selective": True, "whole": p})
    return cases


def prepare(c):
    """driver-side reading of the definition text: the JSON texts involved and the tree that was given"""
    s = c["s"]
    jp = {}
    given = NOT_JSON
    if s.startswith(ARMOR):
        rest = s[len(ARMOR):]
        raw = b64_strict(rest)
        if raw is not None:
            try:
                given = tree_of(raw.decode("utf-8"))
                jp[raw.decode("utf-8")] = given
            except UnicodeDecodeError:
                given = NOT_JSON
        else:
            for cand in (b64_lenient(rest), b64_lenient(rest.replace(ARMOR, ""))):
                if cand is not None:
                    try:
                        jp[cand.decode("utf-8")] = tree_of(cand.decode("utf-8"))
                    except UnicodeDecodeError:
                        pass
    else:
        given = tree_of(s)
        jp[s] = given
    c["given"] = given
    c["jp"] = {k: v for k, v in jp.items() if v is not NOT_JSON}
    strs = set()
    for v in c["jp"].values():
        strings_of(v, strs)
    c["strings"] = strs
    rl = set()
    if given is not NOT_JSON:
        regex_leaves(given, rl)
    c["regex_leaves"] = rl


def main(run, only=None, only_b64=None, envs=None, behaviour=False):
    """only / only_b64: the definition cases / base64 cases of a replay; envs: the journals the definitions of `only` are
    applied to when behaviour is set (no generation, no proof stage, no F15 bookkeeping, no verdict)"""
    replaying = only is not None or only_b64 is not None
    r = run.rng
    quick = run.tier == "quick"
    if not replaying:
        info = proof_stage(run, "C18", extra_targets=["corr/C18_corr.vo"])
        harness_build()
        envs = [make_env(r) for _ in range(3 if quick else 8)]
        cases = load_corpus() + gen_cases(run, 260 if quick else 4000, envs)
    else:
        cases, envs = (only or []), (envs or [])
    for c in cases:
        prepare(c)
    # --- implementation: codec op, regex validity of every string involved
    res = harness_run([{"kind": "filter_codec", "s": c["s"], "via": "auto"} for c in cases])
    allstr = sorted(set().union(*[c["strings"] for c in cases]) | set(PATTERNS + BAD_PATTERNS + F15_PATTERNS))
    chunks = [allstr[i:i + 200] for i in range(0, len(allstr), 200)]
    rres = harness_run([{"kind": "regex_ok", "ps": ch} for ch in chunks])
    rx = {}
    for ch, rr in zip(chunks, rres):
        if not rr or "ok" not in rr:
            raise Infra("regex_ok failed: %r" % (rr,))
        for p, o in zip(ch, rr["ok"]):
            rx[p] = (o["raw"], o["wrapped"])
    findings = {f["id"]: f for f in load_findings("C18")}
    terms, idx = [], []
    tagc, outcome = {}, {"accepted": 0, "rejected": 0}
    for i, (c, rr) in enumerate(zip(cases, res)):
        for t in c["tags"] or ["plain"]:
            tagc[t] = tagc.get(t, 0) + 1
        if not rr or rr.get("stage") != "done":
            c["impl"] = {"stage": rr.get("stage") if rr else None}
            raise Infra("filter_codec op failed on case %d: %r" % (i, rr))
        if "ok" in rr:
            o = rr["ok"]
            if "json" not in o:
                raise Infra("serialisation failed: %r" % (o,))
            t1 = tree_of(o["json"])
            if t1 is NOT_JSON:
                raise Infra("implementation output is not JSON for the driver: " + o["json"])
            strings_of(t1, c["strings"])
            c["impl"] = {"accepted": o}
            impl = "(Some (mkImpl %s %s %s %s %s %s))" % (g_str(o["json"]), g_jv(t1), g_str(o["text"]), g_bool(o["reparse_ok"]),
                                                        g_str(o["json2"]), g_str(o["text2"]))
            outcome["accepted"] += 1
        else:
            c["impl"] = {"rejected": rr.get("err", "")[:160]}
            impl = "None"
            outcome["rejected"] += 1
        for p in c["strings"]:
            if p not in rx:
                q = harness_run([{"kind": "regex_ok", "ps": [p]}])[0]
                rx[p] = (q["ok"][0]["raw"], q["ok"][0]["wrapped"])
        rxw = g_list(["(%s, %s)" % (g_str("^(?:" + p + ")$"), g_bool(rx[p][1])) for p in sorted(c["strings"])])
        rxr = g_list(["(%s, %s)" % (g_str(p), g_bool(rx[p][0])) for p in sorted(c["strings"])])
        jp = g_list(["(%s, %s)" % (g_str(k), g_jv(v)) for k, v in c["jp"].items()])
        tree = "None" if c["given"] is NOT_JSON else "(Some %s)" % g_jv(c["given"])
        # F15 class (open half): a regular expression on its own that does not compile inside ^(?:..)$
        c["f15"] = sorted(p for p in c["regex_leaves"] if rx[p][0] and not rx[p][1])
        terms.append("c18_case %s %s %s %s %s %s %s" % (g_str(c["s"]), jp, rxw, rxr, tree, g_bool(c["clean"]), impl))
        idx.append(i)
    # --- base64 engine against the model
    alpha = "ABCDEFGHIJKLMNOPQRSTUVWXYZabcdefghijklmnopqrstuvwxyz0123456789+/"
    b64_in = ["", "QQ==", "QQ", "QR==", "QUI=", "QUJ=", "QUJD", "QUJDRA==", "====", "Q===", "QQ=Q", "=QQ=", "QQ==QQ==", "QUJD\n",
              "base64:QQ==", "QQ=", "QUJDR"]
    for _ in range((60 if quick else 1500) if not replaying else 0):
        n = r.choice([0, 1, 2, 3, 4, 5, 6, 7, 8, 9, 12, 16])
        raw = bytes(r.getrandbits(8) for _ in range(n))
        t = base64.b64encode(raw).decode("ascii")
        k = r.random()
        if k < 0.35:
            pass
        elif k < 0.5 and t:
            i = r.randrange(len(t)); t = t[:i] + r.choice(alpha + "=-_ :\n") + t[i + 1:]
        elif k < 0.65:
            t = t.rstrip("=") + r.choice(["", "=", "==", "==="])
        elif k < 0.8 and t:
            t = t[:r.randrange(len(t))]
        else:
            t = "".join(r.choice(alpha + "=") for _ in range(r.choice([4, 8, 8, 12])))
        b64_in.append(t)
    if replaying:
        b64_in = [t for t in (only_b64 or []) if isinstance(t, str)]
    bres = harness_run([{"kind": "b64_decode", "s": t} for t in b64_in])
    if not replaying:
        b64_enc_in = [[r.getrandbits(8) for _ in range(n)] for n in range(0, 10)] + [[0, 0, 0], [255, 255, 255], [255], [0], [251, 255]]
    else:
        b64_enc_in = [list(t) for t in (only_b64 or []) if isinstance(t, list)]
    eres = harness_run([{"kind": "b64_encode", "bytes": b} for b in b64_enc_in])
    bterms = []
    for t, rr in zip(b64_in, bres):
        impl = "(Some %s)" % g_list([g_N(x) for x in rr["ok"]]) if "ok" in rr else "None"
        bterms.append("c18_b64_case %s %s" % (g_str(t), impl))
    for b, rr in zip(b64_enc_in, eres):
        bterms.append("c18_b64_enc_case %s %s" % (g_list([g_N(x) for x in b]), g_str(rr["ok"])))
    vals, errs = coq_eval("C18", IMPORTS, terms + bterms)
    if errs:
        raise Infra("coq evaluation failed: " + errs[0])
    nmain = len(terms)
    distinct = set()
    n_dom = n_out = n_out_dis = 0
    f15_seen = False
    for j, v in zip(idx, vals[:nmain]):
        c = cases[j]
        bits = as_N(v)
        if bits is None:
            raise Infra("no result for case %d (%s)" % (j, c["src"]))
        c["bits"] = bits
        run.cov["evaluations"] += 1
        acc = "accepted" in c["impl"]
        if acc:
            distinct.add(c["impl"]["accepted"]["json"])
        if len(run.cov["samples"]) < 4 and (acc or len(run.cov["samples"]) < 2):
            run.cov["samples"].append({"definition": c["s"][:400], "injected": c["tags"], "implementation": c["impl"], "bits": bits})
        rep = {"definition_text": c["s"], "injected": c["tags"], "source": c["src"], "implementation_output": c["impl"],
               "case": {"stream": "codec", "clean": bool(c["clean"]), "expect": c.get("expect")},
               "replay_hint": "harness: {\"kind\":\"filter_codec\",\"s\":<definition_text>} ; CLI: tackler --api-filter-def <definition_text>"}
        if c["f15"]:
            # a valid pattern (e.g. verbose mode with a trailing comment) rejected because of the wrapper
            if not acc:
                f15_seen = True
            if not (bits & 1) and (bits & 4):
                run.violation("correspondence broken on an F15-class definition (model and implementation differ)",
                              dict(rep, correspondence="C18_corr.c18_case"), found_input=False)
            continue
        if c.get("expect") == "reject" and acc:
            run.violation("a malformed filter definition (corpus) is accepted instead of rejected", rep)
            continue
        if c.get("expect") == "accept" and not acc:
            run.violation("a well-formed filter definition (corpus) is rejected", rep)
            continue
        # outside the modelled text domain: decided in Coq on the leaves it recognises (bit 4) and, for a number or
        # time stamp the generator itself injected as unrepresentable, by its tag (in a struct written as an array the
        # leaf's field is not known to the domain predicate)
        if not (bits & 4) or any(t in ("number-outside-exact-domain", "timestamp-outside-subgrammar") for t in c["tags"]):
            n_out += 1
            n_out_dis += 0 if (bits & 1) else 1
            continue
        n_dom += 1
        if not (bits & 2):
            run.violation("filter definition codec: re-serialisation is not a fixed point with the same description and the same "
                          "patterns/numbers/instants, or a malformed definition/armor/leaf was accepted", rep)
        elif not (bits & 1):
            run.cov["disagreements_checked"] += 1
            run.violation("correspondence broken: model Codec.from_any / def_to_jv / describe_def differs from the implementation "
                          "(spec oracle clean on this input)", dict(rep, correspondence="C18_corr.c18_case"), found_input=False)
    n_b64 = 0
    for t, v in zip(b64_in + b64_enc_in, vals[nmain:]):
        bits = as_N(v)
        if bits is None:
            raise Infra("no result for a base64 case")
        run.cov["evaluations"] += 1
        n_b64 += 1
        if not (bits & 2):
            run.violation("base64 armor engine accepts a non-canonical text or decodes/encodes wrongly", {"base64_case": t})
        elif not (bits & 1):
            run.violation("correspondence broken: model b64_enc/b64_dec differs from base64 STANDARD engine",
                          {"base64_case": t, "correspondence": "C18_corr.c18_b64_case"}, found_input=False)
    if replaying:
        pass
    elif "F15" in findings and findings["F15"].get("status") == "open":
        if f15_seen:
            run.known_finding(findings["F15"]["what"])
        else:
            run.violation("open finding F15 no longer reproduces (valid verbose-mode pattern rejected inside the wrapper): update the model and known-findings",
                          {"witness": "corpus/C18", "finding": "F15"}, found_input=False)
    elif f15_seen:
        run.violation("a valid pattern is rejected because it does not compile inside the ^(?:..)$ wrapper",
                      {"patterns": F15_PATTERNS, "witness": "corpus/C18"})
    # --- behaviour: the given, the re-serialised and the armored definition select the same transactions
    toml = J.make_toml()
    breqs, bmeta = [], []
    budget = (70 if quick else 600) if not replaying else (len(cases) if behaviour else 0)
    if replaying and not behaviour:
        cases_b = []
    else:
        cases_b = cases
    order = sorted(range(len(cases_b)), key=lambda j: (0 if cases[j].get("whole") is not None else 1 if cases[j].get("selective") else 2, j))
    for j in order:
        c = cases[j]
        if "accepted" not in c["impl"] or (budget <= 0 and c.get("whole") is None):
            continue
        o = c["impl"]["accepted"]
        ei = c["env"] if c["env"] is not None else 0
        texts = [c["s"], o["json"], ARMOR + base64.b64encode(o["json"].encode("utf-8")).decode("ascii"), o["json2"]]
        if not c["s"].startswith(ARMOR):
            texts.append(ARMOR + base64.b64encode(c["s"].encode("utf-8")).decode("ascii"))
        for k, t in enumerate(texts):
            breqs.append({"conf": {"toml": toml}, "inputs": [{"text": envs[ei][1]}], "filter": t, "ops": [{"op": "txns"}]})
            bmeta.append((j, k, t))
        if c.get("whole") is None:
            budget -= 1
    bres2 = harness_run(breqs)
    allres = harness_run([{"conf": {"toml": toml}, "inputs": [{"text": e[1]}], "ops": [{"op": "txns"}]} for e in envs])
    alln = [len(selected(x)) for x in allres]
    n_whole = 0
    per = {}
    for (j, k, t), rr in zip(bmeta, bres2):
        per.setdefault(j, []).append((k, t, selected(rr)))
    n_beh = 0
    beh_distinct = set()
    for j, lst in per.items():
        c = cases[j]
        n_beh += 1
        run.cov["evaluations"] += 1
        ref = lst[0][2]
        if ref and ref[0] in ("stage", "op-error"):
            raise Infra("session failed for an accepted definition: %r" % (ref,))
        ei = c["env"] if c["env"] is not None else 0
        if 0 < len(ref) < alln[ei]:
            beh_distinct.add((c["impl"]["accepted"]["json"], ref))
        if c.get("whole") is not None:
            n_whole += 1
            exp = tuple(d for d in selected(allres[ei]) if d is not None and re.fullmatch(c["whole"], d))
            if exp != ref:
                run.violation("a description pattern is not applied as one whole-string match",
                              {"definition_text": c["s"], "pattern": c["whole"], "journal": envs[ei][1],
                               "selected": list(ref), "expected_whole_string_matches": list(exp),
                               "case": {"stream": "behaviour", "clean": bool(c["clean"]), "whole": c["whole"]}})
                continue
        for k, t, sel in lst[1:]:
            if sel != ref:
                run.violation("the same filter definition selects different transactions depending on its encoding "
                              "(given / re-serialised / armored)",
                              {"definition_text": c["s"], "other_encoding": t, "journal": envs[ei][1],
                               "selected_given": list(ref), "selected_other": list(sel),
                               "case": {"stream": "behaviour", "clean": bool(c["clean"]), "whole": c.get("whole")}})
                break
    if replaying:
        return None
    run.cov["distinct_nontrivial"] = len(distinct)
    run.cov["rule"] = ("corpus + seeded definitions: all 20 variants nested to depth 5, leaf spellings (patterns incl. anchors and the wrapper text, "
                       "decimal spellings as numbers and strings, time stamps in several offsets/separators/fractions, UUID formats), ~25% with an "
                       "injected malformation (structure, JSON text, armor, regex, number, time stamp, UUID), 37% armored; plus base64 engine cases; "
                       "plus behavioural comparison of given/re-serialised/armored definitions on generated journals; "
                       "non-trivial = accepted definition; distinct = distinct serialisations")
    run.notes.update({"injected": tagc, "outcome": outcome, "in_text_domain": n_dom, "outside_text_domain_skipped": n_out, "outside_text_domain_model_differs": n_out_dis, "base64_cases": n_b64,
                      "behaviour_cases": n_beh, "whole_string_cases": n_whole, "behaviour_distinct_partial_selections": len(beh_distinct)})
    return run.finish(info)


def replay(run, path):
    """the stored definition text through the codec op + c18_case; a behaviour case additionally applied to the stored
    journal in its encodings; a base64 case through the engine + c18_b64_case"""
    j, rp, rc = replay_begin(run, path)
    if rc is not None:
        return rc
    cs = rp.get("case") if isinstance(rp.get("case"), dict) else {}
    print(j.get("what"))
    if "base64_case" in rp:
        print("base64 case: %r" % (rp["base64_case"],))
        corr_build("C18")
        harness_build()
        main(run, only_b64=[rp["base64_case"]])
        return replay_verdict(run, path, j, "the base64 engine treats the stored text / bytes as the model and the oracle say")
    if not (isinstance(rp.get("definition_text"), str) and cs.get("stream") in ("codec", "behaviour")):
        return replay_print(j)
    print("definition text: %s" % rp["definition_text"][:3000])
    c = {"s": rp["definition_text"], "tags": list(rp.get("injected") or []), "clean": bool(cs.get("clean")), "expect": cs.get("expect"),
         "src": "replay", "env": None, "selective": False}
    corr_build("C18")
    harness_build()
    if cs["stream"] == "behaviour":
        if cs.get("whole") is not None:
            c["whole"] = cs["whole"]
        print("journal:\n%s" % rp.get("journal"))
        c["env"] = 0
        main(run, only=[c], envs=[(None, rp["journal"])], behaviour=True)
    else:
        main(run, only=[c])
    print("implementation now: %s" % json.dumps(c.get("impl"), ensure_ascii=False)[:3000])
    return replay_verdict(run, path, j, "the stored filter definition is accepted / rejected and re-serialised as specified, the model agrees%s (bits %s)"
                          % (", and its encodings select the same transactions" if cs["stream"] == "behaviour" else "", c.get("bits")))
