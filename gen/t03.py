# T03 (extension, not a numbered property) — the TEXT of the price data base is inside the model:
# coq/model/PriceText.v transcribes pricedb_from_str / parse_price_entry character for character, and
# coq/props/T03.v proves the round trip of every layout the grammar allows, what it does not allow, totality,
# and that C07's theorems apply to file texts (T03_text_rate, T03_line_order).  ./check T03 runs the proof audit
# of coq/props/T03.v and the text stage standalone (gen/t03_text.py: run_text_stage); the C07 check runs the
# stage as an extra stage.
import json
from common import *
import t03_text as T


def main(run):
    info = proof_stage(run, "T03", extra_targets=["corr/T03_corr.vo"])
    harness_build()
    st = T.run_text_stage(run)
    run.cov["evaluations"] += st["compared"]
    run.cov["distinct_nontrivial"] = st["distinct_data_bases"]
    if "sample" in st:
        run.cov["samples"].append(st.pop("sample"))
    run.cov["rule"] = ("corpus/T03 (the grammar's edges with the recorded outcome) + seeded price files, two thirds from the valid stream: 1-9 lines over "
                       "1-5 commodities (ASCII, Latin-1, currency signs, Greek, CJK, combining marks, digits/-/_/middle dot inside), time stamps as date only / "
                       "date-time / with 1-9 fraction digits / Z / +-hh:mm (years 0001-9999, mostly recent; 7% within a day of 1970-01-01T00:00Z with fractions and offsets across the epoch), rates with sign, "
                       "leading zeros, scale 0-28, mantissas up to 2^96-1, 0 and -0; 1-6 blanks/TABs between the fields, trailing blanks, comments "
                       "(';', '; text', ';<TAB>text', with and without a blank before the ';'), LF or CRLF, after each line nothing / blank lines / "
                       "white-space lines / indentation of the next entry / lone CRs, leading blank lines, duplicate keys (same or different spelling of the "
                       "instant), shuffled lines; journal zone UTC or a fixed offset, default time 00:00 or not; not strict without chart / not strict with a "
                       "chart / strict with every name declared.  One third from the malformed stream: missing final newline, lower-case p, TABs, '1.' '.5' '+1' "
                       "numbers, 2^96 and scale 29, missing fields, garbage after the eq commodity, empty file, blanks only, BOM, indented first entry, lone CR "
                       "before the first entry / inside a comment, ';x', impossible dates and times, 10 fraction digits, offsets out of range, 'T' without time, "
                       "two entries on a line, NBSP, identifiers starting with a digit or containing ':', form feed / NUL, strict mode with an undeclared "
                       "commodity, U+1680 in a name, instants at the ends of jiff's range, a text line between entries, one random character edit of a valid "
                       "file.  Compared: accept/reject and the stored entries (instant, base, rate mantissa and scale, eq); then the model's canonical text of "
                       "the entries it read is loaded by the implementation and must give the same data base.  non-trivial = accepted file; distinct = distinct "
                       "stored data bases")
    return run.finish(info)


def replay(run, path):
    """also the replay of the T03 stage inside C07 (run.prop is the host then): common.replay_begin"""
    j, rp = replay_load(path)
    if "theorem_file" in rp and "case" not in rp:
        return replay_theorem(run, path, j, rp)
    print(j.get("what"))
    c = rp.get("case")
    if not (isinstance(c, dict) and all(k in c for k in ('text', 'off', 'strict'))):
        return replay_print(j)
    print("price file: %r\njournal zone %+d min, default time %s, strict %s, chart %s, report commodity %s" %
          (c["text"], c["off"], [c["dsec"], c["dns"]], c["strict"], c["comms"], c["rc"]))
    print("then:  implementation %s\n       model          %s" % (json.dumps(rp.get("implementation_data_base"), ensure_ascii=False),
                                                                 json.dumps(rp.get("model_data_base"), ensure_ascii=False)))
    harness_build()
    c = dict(c)
    c["tags"] = list(c.get("tags") or ["replay"])
    st = T.new_stats()
    T.check_cases(run, [c], st)
    for what, rep, found in run.violations:
        print("now:   implementation %s\n       model          %s" % (json.dumps(rep.get("implementation_data_base"), ensure_ascii=False),
                                                                     json.dumps(rep.get("model_data_base"), ensure_ascii=False)))
    return replay_verdict(run, path, j, "T03 stage: model and implementation read the price file alike now (compared=%d, accepted=%d, rejected=%d, "
                                        "canonical text reloaded=%d)" % (st["compared"], st["accepted"], st["rejected"], st["canonical_reloaded"]))
