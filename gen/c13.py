# C13 — the balance-group report partitions the selected transactions by the period of
# their instant in the report time zone
import json, os, re, datetime
from common import *
import journal as J

try:
    import zoneinfo
except Exception:                      # pragma: no cover
    zoneinfo = None

IMPORTS = ("From TkModel Require Import Base Dec Acct Txn Balance Time Group.\n"
           "From TkSpec Require Import Balance_spec Group_spec.\nFrom TkCorr Require Import C13_corr.\n")

GBS = {"year": "GbYear", "month": "GbMonth", "date": "GbDate", "iso-week": "GbIsoWeek", "iso-week-date": "GbIsoWeekDate"}

# report-timezone accepts IANA names only (TimeZone::get); fixed offsets are the Etc zones.
# Their offsets are NOT taken from the tz database here (POSIX sign: Etc/GMT-14 = +14:00).
FIXED = {"UTC": 0, "Etc/UTC": 0, "Etc/GMT": 0}
for _h in range(-12, 15):
    if _h != 0:
        FIXED["Etc/GMT%+d" % (-_h)] = _h * 3600
# named zones: offsets from Python's zoneinfo (independent reader of the same tz data)
NAMED = ["Europe/Helsinki", "America/New_York", "America/Goose_Bay", "Australia/Lord_Howe", "Asia/Kolkata",
         "Asia/Kathmandu", "Pacific/Apia", "Pacific/Kiritimati", "America/St_Johns", "Africa/Monrovia",
         "Europe/Amsterdam", "Antarctica/Troll", "Europe/Dublin", "America/Sao_Paulo", "Asia/Tehran", "America/Moncton"]
# instants (s) at which the zone's clock fell back from 00:01 to 23:01 (or 22:01) of the previous day:
# the local date DEcreases with time there (the F10 shape; 60 s window with the later date before the instant)
FALLBACK = {"America/Goose_Bay": [562129260, 594180060, 625633260, 1130641260, 1289098860],
            "America/St_Johns": [562127460, 594178260, 1130639460, 1289097060],
            "America/Moncton": [752036460, 1162090860]}
# local dates around which named zones change their offset (fall back / spring forward / skipped day)
DST_DATES = {
    "America/Goose_Bay": [(2005, 10, 30), (2005, 4, 3), (2010, 11, 7), (1990, 10, 28)],
    "Pacific/Apia": [(2011, 12, 30), (2011, 12, 31), (2012, 4, 1)],
    "Australia/Lord_Howe": [(2024, 4, 7), (2024, 10, 6)],
    "Europe/Helsinki": [(2024, 3, 31), (2024, 10, 27)],
    "America/New_York": [(2024, 3, 10), (2024, 11, 3)],
    "America/St_Johns": [(2005, 10, 30), (2006, 10, 29), (2024, 11, 3)],
    "America/Sao_Paulo": [(2017, 10, 15), (2018, 2, 18)],
    "Asia/Tehran": [(2021, 3, 22), (2021, 9, 22)],
    "Europe/Dublin": [(1971, 10, 31), (2024, 10, 27)],
    "Pacific/Kiritimati": [(1994, 12, 31), (1995, 1, 1)],
    "Africa/Monrovia": [(1972, 1, 7)],
    "Europe/Amsterdam": [(1937, 7, 1), (1940, 5, 16)],
}

UTC = datetime.timezone.utc
EPOCH = datetime.datetime(1970, 1, 1, tzinfo=UTC)
DAY0 = 719163                                  # date(1970,1,1).toordinal()
NS = 10 ** 9
LO_SEC = (datetime.date(1, 1, 3).toordinal() - DAY0) * 86400
HI_SEC = (datetime.date(9999, 12, 29).toordinal() - DAY0) * 86400
_ZC = {}


def tz_offset(zone, sec):
    """UTC offset (seconds) of the report zone at the instant `sec`"""
    if zone in FIXED:
        return FIXED[zone]
    z = _ZC.get(zone)
    if z is None:
        z = _ZC[zone] = zoneinfo.ZoneInfo(zone)
    dt = EPOCH + datetime.timedelta(seconds=sec)
    return int(dt.astimezone(z).utcoffset().total_seconds())


def days_of(y, m, d):
    return datetime.date(y, m, d).toordinal() - DAY0


def fmt_ts(inst_ns, off):
    """journal time stamp of the instant, written with UTC offset `off` (whole minutes)"""
    sec, ns = divmod(inst_ns, NS)
    days, sod = divmod(sec + off, 86400)
    d = datetime.date.fromordinal(days + DAY0)
    s = "%04d-%02d-%02dT%02d:%02d:%02d" % (d.year, d.month, d.day, sod // 3600, sod % 3600 // 60, sod % 60)
    if ns:
        s += (".%09d" % ns).rstrip("0")
    a = abs(off)
    return s + ("Z" if off == 0 else "%s%02d:%02d" % ("+" if off > 0 else "-", a // 3600, a % 3600 // 60))


def esc_re(s):
    out = ""
    for ch in s:
        out += ("\\" + ch) if ch in r"\.+*?()|[]{}^$-" else ch
    return out


ACCOUNTS = ["a", "a:b", "c", "e:f:g", "a:b:d"]
JOFFS = [0, 0, 3600, 7200, -18000, 19800, -34200, 50400, -50400, 45900, -43200]
YEARS = [1000, 1001, 1582, 1899, 1900, 1999, 2000, 2004, 2009, 2010, 2015, 2020, 2021, 2024, 2026, 2100, 9998, 9999]


def gen_anchor(r, zone, gb):
    """a local-clock boundary (seconds since the epoch on the local clock) relevant for gb"""
    k = r.random()
    if zone in DST_DATES and k < 0.45:
        y, m, d = r.choice(DST_DATES[zone])
        return days_of(y, m, d) * 86400 + r.choice([0, 0, 3600, 7200, 86400, 60])
    y = r.choice(YEARS) if r.random() < 0.7 else r.randint(1000, 9999)
    if r.random() < 0.04:
        y = r.randint(2, 999)                  # outside the property's quantifier: correspondence only
    kind = r.choice({"year": ["year", "year", "isoedge"], "month": ["month", "month", "year", "leap"],
                     "date": ["day", "month", "year", "leap"], "iso-week": ["week", "isoedge", "isoedge", "year"],
                     "iso-week-date": ["week", "isoedge", "day", "year"]}[gb])
    if kind == "year":
        dn = days_of(y, 1, 1)
    elif kind == "month":
        dn = days_of(y, r.randint(1, 12), 1)
    elif kind == "leap":
        dn = days_of(y, 3, 1) - r.choice([0, 1])
    elif kind == "isoedge":
        dn = days_of(y, 1, 1) + r.randint(-3, 3)
    elif kind == "week":
        dn = days_of(y, r.randint(1, 12), r.randint(1, 28))
        dn -= (dn + 3) % 7                     # back to Monday
    else:
        dn = days_of(y, r.randint(1, 12), r.randint(1, 28))
    return dn * 86400


def gen_case(r):
    gb = r.choice(list(GBS))
    zone = r.choice(list(FIXED)) if r.random() < 0.5 else r.choice(NAMED)
    if r.random() < 0.15:
        zone = r.choice(["Etc/GMT-14", "Etc/GMT+12", "Etc/GMT-13", "Etc/GMT+11"])
    n = r.randint(2, 8)
    anchors = [gen_anchor(r, zone, gb) for _ in range(r.choice([1, 1, 2]))]
    insts = []
    if r.random() < 0.12:
        zone = r.choice(list(FALLBACK))
        T = r.choice(FALLBACK[zone])
        for i in range(n):
            k = r.randrange(5)
            sec = [T - r.randint(1, 60), T - r.randint(1, 60), T + r.randint(0, 3539), T - r.randint(61, 7200), T + r.randint(3540, 90000)][k]
            insts.append((sec * NS + r.choice([0, 0, 1, NS - 1]), r.choice(JOFFS)))
        n = 0
    for i in range(n):
        L = r.choice(anchors)
        off = tz_offset(zone, min(max(L, LO_SEC), HI_SEC))
        joff = r.choice(JOFFS)
        base = r.choice([L - off, L - off, L - off, L, L - joff])    # boundary in the zone / in UTC / in the txn's own offset
        k = r.random()
        if k < 0.35:
            d = r.choice([-1, 0, 1])
        elif k < 0.6:
            d = r.choice([-NS, NS, -NS + 1, NS - 1, -60 * NS, 60 * NS])
        elif k < 0.75:
            d = r.choice([-1, 1]) * 3600 * NS * r.randint(1, 14) + r.choice([-1, 0, 1])
        elif k < 0.85:
            d = r.choice([-1, 1]) * 86400 * NS * r.randint(1, 8) + r.choice([-1, 0, 1])
        elif k < 0.9 and insts:
            insts.append((insts[-1][0], joff))     # same instant again (ties in the canonical order)
            continue
        else:
            d = r.randint(-40 * 86400 * NS, 40 * 86400 * NS)
        inst = base * NS + d
        inst = min(max(inst, LO_SEC * NS), HI_SEC * NS)
        insts.append((inst, joff))
    r.shuffle(insts)
    accs = r.sample(ACCOUNTS, r.randint(2, 4))
    lines = []
    for i, (inst, joff) in enumerate(insts):
        comm = r.choice(["", "", "EUR", "ACME"])
        two = r.sample(accs, 2) if r.random() < 0.8 else [r.choice(ACCOUNTS), r.choice(ACCOUNTS)]
        m, s = r.choice([1, -1]) * r.randint(1, 10 ** r.choice([1, 3, 6])), r.choice([0, 0, 1, 2, 5])
        if r.random() < 0.01:
            m = r.choice([1, -1]) * r.randint(2 ** 93, 2 ** 95)      # may leave the exact domain (skipped then)
        amt = J.dec_str(m, s) + ((" " + comm) if comm else "")
        namt = J.dec_str(-m, s) + ((" " + comm) if comm else "")
        lines.append("%s 't%d\n %s  %s\n %s  %s\n" % (fmt_ts(inst, joff), i, two[0], amt, two[1], namt))
    names = []
    if r.random() < 0.4:
        names = r.sample(ACCOUNTS, r.randint(1, 2))
    return {"text": "\n".join(lines), "group_by": gb, "rtz": zone, "names": names, "src": "gen"}


def load_corpus():
    cases = []
    d = os.path.join(VERIF, "corpus", "C13")
    if os.path.isdir(d):
        for f in sorted(os.listdir(d)):
            if f.endswith(".json"):
                c = json.load(open(os.path.join(d, f)))
                c["src"] = "corpus/" + f
                c.setdefault("names", [])
                cases.append(c)
    return cases


def g_txn(t):
    ps = ["(mkPosting %s %s %s %s %s %s)" % (g_acct(p["acc"]), g_str(p["comm"]), g_dec(p["amount"]), g_dec(p["txn_amount"]),
                                             g_bool(p["total"]), g_str(p["txn_comm"])) for p in t["posts"]]
    return "(mkTxn (mkHeader %s %s None None None None [] []) %s)" % (g_Z(int(t["ts"]["ns"])), g_Z(int(t["ts"]["off"])), g_list(ps))


def g_groups(gs):
    out = []
    for g in gs:
        rows = ["(mkBrow %s %s %s %s)" % (g_acct(x["acc"]), g_str(x["comm"]), g_dec(x["own"]), g_dec(x["tree"])) for x in g["rows"]]
        ds = ["(%s, %s)" % (g_str(d["comm"]), g_dec(d["delta"])) for d in g["deltas"]]
        out.append("(mkGroup %s (mkBal %s %s))" % (g_str(g["title"]), g_list(rows), g_list(ds)))
    return g_list(out)


def text_titles(txt):
    """group titles of the text report: a line underlined by dashes of its own length, after the report title"""
    lines = txt.split("\n")
    try:
        i = next(k for k in range(len(lines) - 1) if lines[k] == "BALGRP" and lines[k + 1] == "------") + 2
    except StopIteration:
        return None
    out = []
    while i + 1 < len(lines):
        if lines[i] and lines[i + 1] == "-" * len(lines[i]):
            out.append(lines[i])
            i += 2
        else:
            i += 1
    return out


def evaluate(run, cases):
    """run the cases through implementation, model and oracle; returns per-case verdict dicts"""
    reqs = []
    for c in cases:
        pats = [esc_re(x) for x in c["names"]]
        acc = (", accounts = " + J.toml_list(pats)) if pats else ""
        toml = J.make_toml(group_by=c["group_by"], rtz=c["rtz"], balgrp_acc=acc)
        reqs.append({"conf": {"toml": toml}, "inputs": [{"text": c["text"]}],
                     "ops": [{"op": "txns"}, {"op": "balgrp", "ras": pats}, {"op": "text_balgrp"}]})
    res = harness_run(reqs)
    terms, idx = [], []
    stages = {}
    for i, (c, rr) in enumerate(zip(cases, res)):
        st = rr.get("stage") if rr else "none"
        stages[st] = stages.get(st, 0) + 1
        c["stage"] = st
        c["verdict"] = "skipped:" + str(st)
        if st != "done":
            c["impl"] = {"stage": st, "err": (rr or {}).get("err", "")[:300]}
            if c["src"].startswith("corpus/") or st in ("config", "settings", "load"):
                # every generated journal and zone name is valid: a rejection is a broken generator, not a finding
                raise Infra("case %s not accepted by the implementation (%s): %s" % (c["src"], st, c["impl"]["err"]))
            continue
        txns = rr["results"][0].get("ok")
        grp = rr["results"][1]
        txt = rr["results"][2].get("ok")
        if txns is None:
            raise Infra("txns dump failed")
        c["txns"] = txns
        c["impl"] = grp
        c["text_titles"] = text_titles(txt) if isinstance(txt, str) else None
        tab = {}
        for t in txns:
            ns = int(t["ts"]["ns"])
            tab[ns] = tz_offset(c["rtz"], ns // NS)
        c["offsets"] = sorted(set(tab.values()))
        ldays = [(ns + tab[ns] * NS) // (86400 * NS) for ns in sorted(tab)]
        c["day_inversion"] = any(a > b for a, b in zip(ldays, ldays[1:]))   # the F10 shape: local date decreases with time
        impl = "None" if "ok" not in grp else "(Some %s)" % g_groups(grp["ok"])
        terms.append("c13_case %s %s %s %s %s" % (
            GBS[c["group_by"]], g_list(["(%s, %s)" % (g_Z(k), g_Z(v)) for k, v in sorted(tab.items())]),
            g_list([g_txn(t) for t in txns]), g_list([g_acct(a) for a in c["names"]]), impl))
        idx.append(i)
    vals, errs = coq_eval("C13", IMPORTS, terms)
    if errs:
        raise Infra("coq evaluation failed: " + errs[0])
    for j, v in zip(idx, vals):
        c = cases[j]
        bits = as_N(v)
        if bits is None:
            raise Infra("no result for case %d" % j)
        c["bits"] = bits
        titles = [g["title"] for g in c["impl"].get("ok", [])] if "ok" in c["impl"] else None
        c["titles"] = titles
        rep = {"journal": c["text"], "group_by": c["group_by"], "report_timezone": c["rtz"], "selected_accounts": c["names"],
               "implementation_groups": c["impl"], "text_report_titles": c["text_titles"], "source": c["src"],
               "replay_hint": "tackler --config <toml with report-timezone, balance-group.group-by> --input.file <journal> --reports balance-group; ./check C13 --replay <this file>"}
        if c.get("expect_titles") is not None:
            rep["expect_titles"] = c["expect_titles"]           # hand-checked corpus case: the expectation belongs to the case
        c["replay"] = rep
        if not (bits & 4):
            c["verdict"] = "outside-exact-domain"
            continue
        if not (bits & 2):
            c["verdict"] = "spec"
            c["what"] = ("balance-group report is not the partition by period: a period listed twice / out of order, a group "
                         "that is not the balance of the transactions of its period, an empty group listed or a non-empty one missing, "
                         "or group sums not adding up to the overall sums")
        elif titles is not None and c["text_titles"] is not None and c["text_titles"] != titles:
            c["verdict"] = "text"
            c["what"] = ("text balance-group report (BalanceGroupReporter::get_group_by_op) lists other periods than "
                         "accumulator::balance_groups with the specified period key")
        elif c.get("expect_titles") is not None and titles != c["expect_titles"]:
            c["verdict"] = "expect"
            c["what"] = "hand-checked corpus case: group titles differ from the expected periods %s" % c["expect_titles"]
        elif not (bits & 1):
            c["verdict"] = "corr"
            c["what"] = "correspondence broken: model Group.balance_groups / Time.period_key differs from implementation (spec oracle clean on this input)"
        else:
            c["verdict"] = "ok"
    return stages


def main(run):
    if zoneinfo is None:
        raise Infra("python zoneinfo not available")
    info = proof_stage(run, "C13", extra_targets=["corr/C13_corr.vo"])
    harness_build()
    n = 200 if run.tier == "quick" else 2500
    cases = load_corpus() + [gen_case(run.rng) for _ in range(n)]
    stages = evaluate(run, cases)
    distinct = set()
    dist = {"fixed_zone": 0, "named_zone": 0, "with_selector": 0, "selector_emptied_a_group": 0, "four_digit_years": 0,
            "named_zone_two_offsets": 0, "in_exact_domain": 0, "corpus": 0, "local_date_decreases_with_time": 0}
    by_gb = {}
    for c in cases:
        if "bits" not in c:
            continue
        run.cov["evaluations"] += 1
        bits = c["bits"]
        by_gb[c["group_by"]] = by_gb.get(c["group_by"], 0) + 1
        dist["fixed_zone" if c["rtz"] in FIXED else "named_zone"] += 1
        dist["with_selector"] += bool(c["names"])
        dist["four_digit_years"] += bool(bits & 8)
        dist["named_zone_two_offsets"] += (c["rtz"] not in FIXED and len(c["offsets"]) > 1)
        dist["in_exact_domain"] += bool(bits & 4)
        dist["local_date_decreases_with_time"] += bool(c.get("day_inversion"))
        dist["corpus"] += c["src"].startswith("corpus/")
        if c["titles"] and len(c["titles"]) >= 2:
            distinct.add(json.dumps(c["impl"], sort_keys=True))
        if len(run.cov["samples"]) < 3 and c["src"] == "gen":
            run.cov["samples"].append({"journal": c["text"], "group_by": c["group_by"], "report_timezone": c["rtz"],
                                       "selected": c["names"], "titles": c["titles"], "bits": bits})
        v = c["verdict"]
        if v in ("spec", "text", "expect"):
            run.violation(c["what"], c["replay"])
        elif v == "corr":
            run.cov["disagreements_checked"] += 1
            r = dict(c["replay"]); r["correspondence"] = "C13_corr.c13_case"
            run.violation(c["what"], r, found_input=False)
    # groups emptied by the selector: measured by an unselected run of the same cases
    sel_cases = [dict(text=c["text"], group_by=c["group_by"], rtz=c["rtz"], names=[], src="aux") for c in cases if c.get("names") and c.get("titles") is not None]
    if sel_cases:
        reqs = [{"conf": {"toml": J.make_toml(group_by=c["group_by"], rtz=c["rtz"])}, "inputs": [{"text": c["text"]}],
                 "ops": [{"op": "balgrp", "ras": []}]} for c in sel_cases]
        full = harness_run(reqs)
        k = 0
        for c in cases:
            if c.get("names") and c.get("titles") is not None:
                fr = full[k]; k += 1
                if fr and fr.get("stage") == "done" and "ok" in fr["results"][0]:
                    dist["selector_emptied_a_group"] += len(fr["results"][0]["ok"]) > len(c["titles"])
    run.cov["distinct_nontrivial"] = len(distinct)
    run.cov["rule"] = ("corpus + seeded journals of 2-8 transactions whose instants lie within 1 ns / 1 s / hours / days of period "
                       "boundaries (year, month, leap day, Monday, Dec 29-Jan 3) taken in the report zone, in UTC and in the "
                       "transaction's own offset; report zones: fixed offsets -12h..+14h (Etc/GMT*, offsets known without tz data) and "
                       "16 named zones incl. DST fall-back across midnight (12% of the cases sit on such an instant), a skipped day, 30/45-minute and sub-minute offsets "
                       "(offset per instant from Python zoneinfo); all five group-by settings; 40% with an account selector; "
                       "non-trivial = report with >= 2 groups; distinct = distinct implementation outputs")
    run.notes["stages"] = stages
    run.notes["distribution"] = dist
    run.notes["group_by"] = by_gb
    return run.finish(info)


def replay(run, path):
    """the stored journal under the stored group-by / report zone / selection through evaluate() (harness + c13_case)"""
    j, rp, rc = replay_begin(run, path)
    if rc is not None:
        return rc
    if not (isinstance(rp.get("journal"), str) and "group_by" in rp and "report_timezone" in rp):
        return replay_print(j)
    if zoneinfo is None:
        raise Infra("python zoneinfo not available")
    print(j.get("what"))
    print("journal:\n%s\ngroup-by %s, report zone %s, selected accounts %s" % (rp["journal"], rp["group_by"], rp["report_timezone"], rp.get("selected_accounts")))
    harness_build()
    corr_build("C13")
    c = {"text": rp["journal"], "group_by": rp["group_by"], "rtz": rp["report_timezone"],
         "names": rp.get("selected_accounts", []), "src": "replay"}
    m = re.search(r"group titles differ from the expected periods (\[.*\])$", str(j.get("what") or ""))
    if rp.get("expect_titles") is not None:
        c["expect_titles"] = rp["expect_titles"]
    elif m:                                                        # files written before the key existed
        try:
            import ast
            c["expect_titles"] = ast.literal_eval(m.group(1))      # a hand-checked corpus case: its expectation is part of the case
        except Exception:
            pass
    evaluate(run, [c])
    print(json.dumps({"verdict": c.get("verdict"), "bits": c.get("bits"), "titles": c.get("titles"),
                      "text_titles": c.get("text_titles"), "what": c.get("what")}, indent=1, ensure_ascii=False))
    v = c.get("verdict")
    if v in ("spec", "text", "expect"):
        run.violation(c["what"], c["replay"])
    elif v == "corr":
        run.violation(c["what"], dict(c["replay"], correspondence="C13_corr.c13_case"), found_input=False)
    return replay_verdict(run, path, j, "verdict of the stored case now: %s (titles %s)" % (v, c.get("titles")))
