# T09 (extension) — SHA-256, tackler's default checksum algorithm, inside the model (coq/model/Sha256.v).
# run_stage(run, n=None) is the stage of ./check T09 (gen/t09.py) and an extra stage of the C09 check.
#   (a) raw digests
#       raw : byte strings of every length 0..130 (block boundaries 55/56, 63/64, 119/120) and random lengths up to
#             300 (thorough: 1000) through Sha256.sha256_hex in Coq (vm_compute) against Python's hashlib
#                                                                                           (T09_corr.t09_raw_case)
#       sel : account-selector lists whose pre-image (sorted patterns, a newline after each) has every length 1..131
#             and random lengths up to 300, non-ASCII included: the value tackler prints as `Account Selector Checksum`
#             (harness session, audit mode, hash = "SHA-256", balance report) against the model — which builds the
#             pre-image itself (Audit.selector_checksum with H := sha256) — and against hashlib over the pre-image
#             built here                                                                    (t09_sel_digest_case)
#       set : journals of 0..8 transactions (pre-images of 0, 37, .., 296 bytes; the empty set through a filter that
#             selects nothing): the printed `Txn Set Checksum` against Audit.audit_pipeline sha256 on the uuid texts
#             as written and against hashlib                                                (t09_set_digest_case)
#       (the harness has no operation that exposes Hash::checksum directly; these two are the paths by which a
#        digest reaches the user)
#   (b) end to end: sessions with hash = "SHA-256" (audit on in 90%), filters, selectors, report zones: the metadata
#       text block of the set, the heads of the three reports and the comment block of the equity export are compared
#       byte for byte with MetaText.meta_text / report_head / equity_md where the digest is computed BY THE MODEL
#       (H := sha256; no table of digests as in T04) from the uuid texts as written in the journal and the
#       observed selection                                          (t09_md_case, t09_head_case, t09_equity_case)
# Verdicts: Coq differs from hashlib -> the model is not SHA-256: broken correspondence (no-failing-input-found);
# the implementation differs from both (they agree) -> a plain violation with the concrete input; the implementation
# differs from the model only -> broken correspondence; (b) a text difference is a broken correspondence, an oracle
# failure (the text read by MetaText_spec's reader is not the expected items with hashlib's digest) a violation.
import json, os, re, hashlib
from common import *
import journal as J
import t04_text as T

IMPORTS = ("From TkModel Require Import Base Dec MetaText Sha256.\nFrom TkModel Require Audit Codec.\n"
           "From TkSpec Require Import MetaText_spec.\nFrom TkCorr Require Import T04_corr T09_corr.\n")
NAME = "SHA-256"
BOUNDARY = 130          # every length 0..BOUNDARY at least once
# characters that are literal in a regular expression, by UTF-8 length
CH1 = "abcdefghijklmnopqrstuvwxyzABCDEFGHIJKLMNOPQRSTUVWXYZ0123456789:_ -"
CHN = {2: "\u00e9\u00df\u00f1\u00f8\u03a9\u0436", 3: "\u20ac\u2603\u3042\u2028", 4: "\U0001f600\U0001d518\U00010348"}     # incl. U+2028 (no line end for the hash)
SEL_ITEM = re.compile(r"^ *Account Selector Checksum\n *(\S+) : (.*)$", re.M)
MD_ITEM = re.compile(r"^Txn Set Checksum\n *(\S+) : (\S*)\n *Set size : (\d+)$", re.M)
NO_PRICES = "(@nil (option (Z * Z * dec) * list N * list N))"

RULE = ("(a) raw: random byte strings of every length 0..130 (+ all-zero / all-0xff / 0x80-filled ones at the block boundaries 55, 56, 63, 64, "
        "119, 120) and random lengths up to 300 (thorough: up to 1000) through Sha256.sha256_hex (vm_compute) against hashlib; "
        "implementation digests: account-selector lists of 1-3 patterns (regex-literal characters incl. 2-, 3- and 4-byte UTF-8) whose pre-image "
        "has every length 1..131 and random lengths up to 300, printed by a balance report in audit mode with hash = SHA-256, and journals of "
        "0..8 transactions with mixed-case uuids (pre-images of 0, 37, .., 296 bytes), against the model (which builds the pre-image itself: "
        "Audit.selector_checksum / Audit.audit_pipeline with H := sha256) and against hashlib over the pre-image built here; "
        "(b) sessions with hash = SHA-256 (audit on in 90%), transaction filter in 55% (depth<=2 trees), selectors none / command line / per report "
        "(T04's patterns and long random ones), nine report zones, 1-7 transactions with mixed-case uuids: metadata text, three report heads and the "
        "equity comment block byte for byte against MetaText with H := sha256 computed by the model from the uuid texts as written and the observed "
        "selection; the implementation's texts must also read back as the expected items with hashlib's digest; "
        "non-trivial = a digest was compared; distinct = distinct digests")


def g_bytes(b):
    return "[" + "; ".join("%d" % x for x in b) + "]%N" if b else "(@nil N)"


def sha(b):
    return hashlib.sha256(b).hexdigest()


# ---------------------------------------------------------------- (a) generation
def rand_bytes(r, n, mode=None):
    mode = mode or r.choice(["rnd", "rnd", "rnd", "rnd", "ascii", "low"])
    if mode == "zero":
        return bytes(n)
    if mode == "ff":
        return b"\xff" * n
    if mode == "x80":
        return b"\x80" * n
    if mode == "ascii":
        return bytes(r.randint(32, 126) for _ in range(n))
    if mode == "low":
        return bytes(r.choice([0, 1, 0x7f, 0x80, 0xff, 10]) for _ in range(n))
    return bytes(r.getrandbits(8) for _ in range(n))


def gen_raw(r, tier):
    out = [{"kind": "raw", "bytes": list(rand_bytes(r, n))} for n in range(BOUNDARY + 1)]
    for n in (55, 56, 63, 64, 119, 120):
        for mode in ("zero", "ff", "x80"):
            out.append({"kind": "raw", "bytes": list(rand_bytes(r, n, mode))})
    hi, k = (300, 100) if tier == "quick" else (1000, 700)
    out += [{"kind": "raw", "bytes": list(rand_bytes(r, r.randint(BOUNDARY + 1, hi)))} for _ in range(k)]
    if tier != "quick":
        out += [{"kind": "raw", "bytes": list(rand_bytes(r, n))} for n in range(BOUNDARY + 1, 301)]
    return out


def rand_pattern(r, nbytes):
    """a regex-literal text of exactly nbytes UTF-8 bytes"""
    s, left = [], nbytes
    wide = r.random() < 0.5
    while left > 0:
        k = r.choice([1, 1, 1, 2, 3, 4]) if wide else 1
        if k > left:
            k = 1
        s.append(r.choice(CH1 if k == 1 else CHN[k]))
        left -= k
    return "".join(s)


def gen_sel_digest(r, total):
    """a selector list whose pre-image has exactly `total` >= 1 bytes"""
    k = 1 if total < 4 else r.choice([1, 1, 1, 2, 3])
    body = total - k                       # one newline per pattern
    cuts = sorted(r.randint(0, body) for _ in range(k - 1))
    sizes = [b - a for a, b in zip([0] + cuts, cuts + [body])]
    return {"kind": "sel", "pats": [rand_pattern(r, n) for n in sizes]}


def gen_set_digest(r, n):
    raws = []
    for _ in range(n):
        u = T.rand_uuid(r)
        raws.append("".join(ch.upper() if r.random() < 0.3 else ch for ch in u))
    return {"kind": "set", "raws": raws}


def gen_digest_cases(r, tier):
    out = [gen_sel_digest(r, n) for n in range(1, BOUNDARY + 2)]
    out += [gen_sel_digest(r, r.randint(BOUNDARY + 2, 300)) for _ in range(80 if tier == "quick" else 600)]
    out += [gen_set_digest(r, n) for n in range(0, 9)]
    if tier != "quick":
        out += [gen_set_digest(r, r.randint(1, 8)) for _ in range(60)]
    return out


SEL_JOURNAL = "2024-01-01 'x\n # uuid: 0e3f2e08-1ebb-45e8-832d-58caf54ed95f\n a  1\n e\n"


def set_journal(raws):
    if not raws:
        return SEL_JOURNAL
    return "\n".join("2024-01-%02d 's%d\n # uuid: %s\n a  %d\n e\n" % (k + 1, k, u, k + 1) for k, u in enumerate(raws))


def digest_request(c):
    toml = J.make_toml(audit="true", hash=NAME, targets='"balance"')
    if c["kind"] == "sel":
        return {"conf": {"toml": toml}, "inputs": [{"text": SEL_JOURNAL}], "overlaps": {"accounts": c["pats"]}, "ops": [{"op": "text_balance"}]}
    rq = {"conf": {"toml": toml}, "inputs": [{"text": set_journal(c["raws"])}], "ops": [{"op": "metadata"}]}
    if not c["raws"]:
        rq["filter"] = json.dumps({"txnFilter": {"NullaryFALSE": {}}})
    return rq


def digest_preimage(c):
    """built here, independently of the model"""
    if c["kind"] == "raw":
        return bytes(c["bytes"])
    if c["kind"] == "sel":
        return b"".join(p + b"\n" for p in sorted(p.encode("utf-8") for p in c["pats"]))
    return "".join(sorted(u.lower() + "\n" for u in c["raws"])).encode("ascii")


def digest_observe(c, rr):
    """-> the digest text the implementation printed (None: nothing to compare), fills c["impl"]"""
    st = rr.get("stage") if rr else "none"
    c["impl"] = {"stage": st}
    if st != "done":
        return None
    res = rr["results"][0]
    if "ok" not in res or not isinstance(res["ok"], str):
        c["impl"]["stage"] = "op-error"          # e.g. a pattern the regex crate rejects
        c["impl"]["err"] = str(res.get("err"))[:200]
        return None
    m = (SEL_ITEM if c["kind"] == "sel" else MD_ITEM).search(res["ok"])
    if not m:
        c["impl"]["stage"] = "no-item"
        c["impl"]["text"] = res["ok"][:400]
        return None
    c["impl"].update({"algorithm": m.group(1), "value": m.group(2)})
    if c["kind"] == "set":
        c["impl"]["size"] = int(m.group(3))
    return m.group(2)


def digest_term(c, ref, impl):
    if c["kind"] == "raw":
        return "t09_raw_case %s %s" % (g_bytes(bytes(c["bytes"])), g_str(ref))
    if c["kind"] == "sel":
        return "t09_sel_digest_case %s %s %s" % (g_list([g_bytes(p.encode("utf-8")) for p in c["pats"]]), g_str(ref), g_str(impl))
    raws = g_list([g_str(u) for u in c["raws"]]) if c["raws"] else "(@nil (list N))"
    return "t09_set_digest_case %s %s %s %s" % (raws, g_str(ref), g_str(impl), g_N(c["impl"]["size"]))


def digest_replay(c):
    o = {"stage": "T09", "case": {k: c[k] for k in ("kind", "bytes", "pats", "raws") if k in c}, "preimage_hex": digest_preimage(c).hex(),
         "preimage_length": len(digest_preimage(c)), "hashlib_sha256": sha(digest_preimage(c)), "implementation": c.get("impl"),
         "replay_hint": "./check T09 --replay <this file>"}
    if c["kind"] != "raw":
        o["request"] = digest_request(c)
    return o


def check_digests(run, cases, st, distinct=None):
    """evaluate + judge the (a) cases; generation is the caller's"""
    net = [c for c in cases if c["kind"] != "raw"]
    res = harness_run([digest_request(c) for c in net]) if net else []
    impl = {}
    for c, rr in zip(net, res):
        impl[id(c)] = digest_observe(c, rr)
        key = c["kind"] + ":" + str(c["impl"]["stage"])
        st["digest_stages"][key] = st["digest_stages"].get(key, 0) + 1
        if rr and rr.get("stage") in ("panic", "abort"):
            run.violation("the implementation panicked while computing a SHA-256 checksum", digest_replay(c))
    terms, meta = [], []
    for c in cases:
        ref = sha(digest_preimage(c))
        if c["kind"] != "raw":
            if impl.get(id(c)) is None:
                if c["impl"]["stage"] in ("no-item", "load", "txnset", "config"):
                    run.violation("audit mode with hash = SHA-256: the %s item is missing (stage %s)"
                                  % ("Account Selector Checksum" if c["kind"] == "sel" else "Txn Set Checksum", c["impl"]["stage"]), digest_replay(c))
                continue
            if c["impl"]["algorithm"] != NAME:
                run.violation("the reported algorithm %r is not the configured SHA-256" % c["impl"]["algorithm"], digest_replay(c))
                continue
        terms.append(digest_term(c, ref, impl.get(id(c))))
        meta.append((c, ref))
    vals, errs = coq_eval("T09-" + run.prop, IMPORTS, terms) if terms else ([], [])
    if errs:
        raise Infra("coq evaluation failed: " + errs[0])
    for (c, ref), v in zip(meta, vals):
        n = as_N(v)
        if n is None:
            raise Infra("no result for a T09 digest case (%s, %d bytes)" % (c["kind"], len(digest_preimage(c))))
        L = len(digest_preimage(c))
        st["compared"][c["kind"]] += 1
        st["lengths"][c["kind"]].add(L)
        if distinct is not None:
            distinct.add(ref)
        if "sample_digest" not in st and c["kind"] == "sel" and L > 64:
            st["sample_digest"] = {"case": digest_replay(c)["case"], "preimage_length": L, "digest": ref, "result_bits": n}
        if not (n & 8):
            # the model is not what hashlib computes: no statement about tackler
            st["model_differs_from_hashlib"] += 1
            run.cov["disagreements_checked"] += 1
            run.violation("correspondence broken: Sha256.sha256 (Coq) differs from hashlib.sha256 on a %d-byte message%s"
                          % (L, "" if c["kind"] == "raw" else " (pre-image built by the model: Audit.%s)" % ("selector_checksum" if c["kind"] == "sel" else "audit_pipeline")),
                          dict(digest_replay(c), correspondence="T09_corr.t09_%s_case" % {"raw": "raw", "sel": "sel_digest", "set": "set_digest"}[c["kind"]]),
                          found_input=False)
        elif c["kind"] != "raw" and not (n & 2):
            # model and hashlib agree, the implementation prints something else
            st["implementation_differs"] += 1
            run.violation("the %s printed by tackler (%s) is not the SHA-256 of the %s, each followed by a newline (%d bytes; hashlib and the Coq model both give %s)"
                          % ("Account Selector Checksum" if c["kind"] == "sel" else "Txn Set Checksum", c["impl"].get("value"),
                             "sorted selector patterns" if c["kind"] == "sel" else "sorted lower-case uuids of the set", L, ref), digest_replay(c))
        elif c["kind"] != "raw" and not (n & 1):
            # only possible for a set case whose reported size differs
            st["implementation_differs"] += 1
            run.violation("Txn Set Checksum: the reported set size %s is not the number of transactions (%d)" % (c["impl"].get("size"), len(c["raws"])),
                          digest_replay(c))


# ---------------------------------------------------------------- (b) sessions
def gen_session(r, idx):
    c = {"idx": idx, "src": "gen", "tags": [], "hash": NAME, "git": None, "price": None}
    c["audit"] = r.random() < 0.9
    c["rtz"] = r.choice(T.ZONES)
    c["journal"], uuids = T.gen_journal(r, c["audit"] or r.random() < 0.5, ["", "", "USD"])
    if r.random() < 0.55:
        j, g, tag = T.gen_filter(r, 2, c["rtz"] == "UTC", uuids)
        c["filter"] = {"json": {"txnFilter": j}, "coq": g, "tag": tag}
    else:
        c["filter"] = None

    def pat():
        return rand_pattern(r, r.randint(20, 140)) if r.random() < 0.35 else r.choice(T.SEL_PATTERNS)
    k = r.random()
    if k < 0.3:
        c["sel"] = {"mode": "none"}
    elif k < 0.65:
        c["sel"] = {"mode": "overlap", "pats": [pat() for _ in range(r.choice([1, 1, 2, 3]))]}
    else:
        c["sel"] = {"mode": "own"}
        for key in ("bal", "balgrp", "reg", "eq"):
            c["sel"][key] = [pat() for _ in range(r.choice([0, 1, 2]))]
    return c


def written_uuids(journal):
    """per transaction of the journal text (journal order): the uuid text as written, or None"""
    out = []
    for blk in journal.split("\n\n"):
        if not blk.strip():
            continue
        m = re.search(r"^ # uuid: (\S+)$", blk, re.M)
        out.append(m.group(1) if m else None)
    return out


def session_replay(c):
    return {"stage": "T09", "case": {k: c.get(k) for k in ("audit", "hash", "rtz", "price", "filter", "sel", "git", "journal", "src", "idx")},
            "request": T.request_of(c), "implementation_metadata_text": c.get("impl_md"), "expected_checksum": c.get("expected_checksum"),
            "selected_transactions": c.get("n_selected"), "replay_hint": "./check T09 --replay <this file>"}


def prepare_session(c, rr, st):
    """-> list of (what, term, model-text term or None)"""
    stg = rr.get("stage") if rr else "none"
    st["stages"][stg] = st["stages"].get(stg, 0) + 1
    if stg != "done":
        if stg in ("panic", "abort"):
            c["panic"] = True
        return []
    res = {o: x for o, x in zip(["metadata", "txns", "pricectx", "pricedb", "text_balance", "text_balgrp", "text_register", "equity", "eqbal"], rr["results"])}
    if any(x.get("panic") for x in rr["results"]):
        c["panic"] = True
    if "ok" not in res["metadata"] or "ok" not in res["txns"]:
        st["op_failed"] += 1
        return []
    st["sessions"] += 1
    txns = res["txns"]["ok"]
    c["impl_md"] = res["metadata"]["ok"]
    c["n_selected"] = len(txns)
    raws = written_uuids(c["journal"])
    got = set()
    for t in txns:
        m = re.match(r"t(\d+) ", t.get("desc") or "")
        if m:
            got.add(int(m.group(1)))
    if len(got) != len(txns) or any(k >= len(raws) for k in got):
        raise Infra("T09: cannot tell the selected transactions from the dump")
    j = g_list(["(%s, %s)" % (g_opt(u, g_str), g_bool(k in got)) for k, u in enumerate(raws)])
    # expected values: hashlib over the uuids of the structured dump / the configured patterns
    ecs = "None"
    if c["audit"]:
        P = "".join(sorted((t.get("uuid") or "").lower() + "\n" for t in txns)).encode("ascii", "replace")
        c["expected_checksum"] = sha(P)
        ecs = "(Some (%s, mkCk %s %s))" % (g_N(len(txns)), g_str(NAME), g_str(sha(P)))
    sels = {}
    for key in ("bal", "balgrp", "reg", "eq"):
        pats = T.pats_of(c, key)
        bs = [p.encode("utf-8") for p in pats]
        if c["audit"] and pats:
            esel = "(Some (mkCk %s %s))" % (g_str(NAME), g_str(sha(b"".join(b + b"\n" for b in sorted(bs)))))
        elif c["audit"]:
            esel = "(Some (mkCk s_none s_select_all))"
        else:
            esel = "None"
        sels[key] = (g_list([g_bytes(b) for b in bs]) if bs else "(@nil (list N))", esel)
    flt = "(Some %s)" % c["filter"]["coq"] if c["filter"] else "None"
    common = "%s %s None %s" % (g_bool(c["audit"]), j, flt)
    out = [("metadata", "t09_md_case %s None %s %s" % (common, ecs, g_opt(c["impl_md"], g_str)), "t09_md_text %s" % common)]
    c["impl_heads"] = {}
    for op, kind, title, key in T.KINDS:
        x = res[op]
        if "ok" not in x or not isinstance(x["ok"], str):
            st["op_failed"] += 1          # e.g. a selector pattern the regex crate rejects
            continue
        c["impl_heads"][key] = x["ok"]
        args = "%s %s %s %s %s %s" % (kind, g_bool(c["audit"]), sels[key][0], g_str(c["rtz"]), NO_PRICES, g_str(title))
        out.append((key, "t09_head_case %s %s %s" % (args, sels[key][1], g_str(x["ok"])), "t09_head_model %s" % args))
    x = res["equity"]
    if "ok" in x and isinstance(x["ok"], str) and x["ok"] != "":
        c["impl_equity"] = x["ok"]
        eargs = "%s %s" % (common, sels["eq"][0])
        out.append(("equity", "t09_equity_case %s %s" % (eargs, g_str(x["ok"])), "t09_equity_model %s" % eargs))
    elif "ok" not in x:
        st["op_failed"] += 1
    w = st["with"]
    w["audit"] += c["audit"]; w["filter"] += bool(c["filter"]); w["selector"] += c["sel"]["mode"] != "none"
    w["zone_not_utc"] += c["rtz"] != "UTC"; w["selection_smaller_than_journal"] += len(got) < len(raws)
    return out


def session_python_oracle(c):
    md = c.get("impl_md")
    has = isinstance(md, str) and re.search(r"^Txn Set Checksum$", md, re.M) is not None
    if c["audit"] and not has:
        return "audit mode is on but the metadata text has no Txn Set Checksum item"
    if not c["audit"] and has:
        return "audit mode is off but the metadata text has a Txn Set Checksum item"
    if c["audit"]:
        m = MD_ITEM.search(md)
        if not m:
            return "the Txn Set Checksum item does not have the shape <algorithm> : <hex> / Set size : <n>"
        if m.group(1) != NAME or m.group(2) != c["expected_checksum"] or int(m.group(3)) != c["n_selected"]:
            return ("the line after 'Txn Set Checksum' does not carry the SHA-256 (hashlib) of the selected set: shown %s : %s, size %s; expected %s : %s, size %d"
                    % (m.group(1), m.group(2), m.group(3), NAME, c["expected_checksum"], c["n_selected"]))
    return None


def check_sessions(run, cases, st, distinct=None):
    res = harness_run([T.request_of(c) for c in cases]) if cases else []
    terms, meta = [], []
    for c, rr in zip(cases, res):
        for what, term, mterm in prepare_session(c, rr, st):
            terms.append(term)
            meta.append((c, what, mterm))
        if c.get("panic"):
            run.violation("the implementation panicked while producing the transaction set metadata or a report text", session_replay(c))
    vals, errs = coq_eval("T09s-" + run.prop, IMPORTS, terms) if terms else ([], [])
    if errs:
        raise Infra("coq evaluation failed: " + errs[0])
    bad, seen = [], set()
    for (c, what, mterm), v in zip(meta, vals):
        n = as_N(v)
        if n is None:
            raise Infra("no result for a T09 text case (%s %s)" % (c.get("src"), what))
        st["compared"]["text_" + ("head" if what in ("bal", "balgrp", "reg") else what)] += 1
        if distinct is not None and what == "metadata" and c.get("expected_checksum"):
            distinct.add(c["expected_checksum"])
        if what == "metadata" and c["idx"] not in seen:
            seen.add(c["idx"])
            pv = session_python_oracle(c)
            if pv:
                st["oracle_failed"] += 1
                run.violation(pv, session_replay(c))
            if "sample_session" not in st and c["audit"] and c["filter"] and c.get("impl_md"):
                st["sample_session"] = {"case": session_replay(c)["case"], "metadata_text": c["impl_md"], "result_bits": n}
        wf = bool(n & 8)
        if not wf:
            st["not_well_formed_items"] += 1
        if not (n & 1):
            bad.append((c, what, mterm, n))
        if wf and not (n & 2):
            st["oracle_failed"] += 1
            rep = session_replay(c)
            rep.update({"what_was_read": what, "implementation_text": c.get("impl_md") if what == "metadata" else c["impl_heads"].get(what)})
            run.violation("the %s text, read by the independent reader (MetaText_spec.read_meta / read_head), is not exactly the expected items "
                          "(Txn Set Checksum iff audit, with SHA-256 and hashlib's digest of the selected uuids and the number selected; Filter iff a "
                          "filter was applied; selector checksum iff audit; zone; in this order)" % what, rep)
    if bad:
        withm = [b for b in bad if b[2]][:5]
        mv, errs = coq_eval("T09s-%s-model" % run.prop, IMPORTS, [b[2] for b in withm]) if withm else ([], [])
        if errs:
            raise Infra("coq evaluation of the model text failed: " + errs[0])
        texts = {id(b): T.parse_str(v) for b, v in zip(withm, mv)}
        for b in bad[:5]:
            c, what, mterm, n = b
            i = (n >> 4) - 1
            impl = c.get("impl_md") if what == "metadata" else (c.get("impl_heads") or {}).get(what) if what != "equity" else \
                c.get("impl_equity", "").split("\n", 1)[-1]
            mt = texts.get(id(b))
            rep = session_replay(c)
            rep.update({"correspondence": "T09_corr.t09_%s_case" % ("md" if what == "metadata" else "equity" if what == "equity" else "head"),
                        "compared": what, "first_differing_character": i, "implementation_text": impl, "model_text": mt,
                        "implementation_around": impl[max(0, i - 60):i + 20] if impl is not None and i >= 0 else None,
                        "model_around": mt[max(0, i - 60):i + 20] if mt is not None and i >= 0 else None,
                        "oracle_on_implementation_text": bool(n & 2)})
            run.cov["disagreements_checked"] += 1
            run.violation("correspondence broken: the %s text with the digest computed by the model (MetaText with H := Sha256.sha256) differs from "
                          "the implementation's text" % what, rep, found_input=False)
    st["different"] += len(bad)


# ---------------------------------------------------------------- the stage
def new_stats():
    return {"compared": {"raw": 0, "sel": 0, "set": 0, "text_metadata": 0, "text_head": 0, "text_equity": 0},
            "lengths": {"raw": set(), "sel": set(), "set": set()}, "digest_stages": {}, "model_differs_from_hashlib": 0,
            "implementation_differs": 0, "sessions": 0, "stages": {}, "different": 0, "oracle_failed": 0, "not_well_formed_items": 0,
            "op_failed": 0, "with": {"audit": 0, "filter": 0, "selector": 0, "zone_not_utc": 0, "selection_smaller_than_journal": 0}}


def close_stats(st):
    ls = st.pop("lengths")
    st["preimage_lengths"] = {k: {"distinct": len(v), "min": min(v) if v else None, "max": max(v) if v else None,
                                  "all_of_0_to_%d" % BOUNDARY: all(n in v for n in range(0 if k == "raw" else 1, BOUNDARY + 1)) if k != "set" else None}
                              for k, v in ls.items()}
    return st


def build_coq(run):
    """./check T09: the proofs were audited by proof_stage (a failure is registered there), only the case functions are
    needed; as a stage of another check the theorems of the extension must build as well"""
    if run.prop == "T09":
        corr_build("T09")
        return True
    ok, log = coq_make(["props/T09.vo", "corr/T09_corr.vo"])
    if not ok:
        run.violation("proof obligation does not check: props/T09.v (SHA-256 inside the model) failed to build",
                      {"theorem_file": "coq/props/T09.v", "log": log[-2000:]}, found_input=False)
    return ok


def run_stage(run, n=None):
    """the harness must be built (harness_build()).  n = number of end-to-end sessions.  The caller wraps the call in
    `with run.in_stage("T09")` (gen/c09.py); the replay objects carry "stage": "T09" in any case.
    Returns the counts (also stored in run.notes["sha256_in_model"])."""
    if n is None:
        n = 60 if run.tier == "quick" else 800
    if not build_coq(run):
        return {"skipped": "props/T09.v does not build"}
    r = run.rng
    # as a stage of another check the raw part is thinned out (every boundary length stays): ./check T09 runs all of it
    raw = gen_raw(r, run.tier)
    dig = gen_digest_cases(r, run.tier)
    if run.prop != "T09" and run.tier == "quick":
        keep = set([0, 1, 54, 55, 56, 57, 62, 63, 64, 65, 118, 119, 120, 121, 127, 128, 129])
        raw = [c for i, c in enumerate(raw) if len(c["bytes"]) in keep or i % 4 == 0]
        dig = [c for i, c in enumerate(dig) if c["kind"] == "set" or len(digest_preimage(c)) in keep or i % 3 == 0]
    sessions = [gen_session(r, i) for i in range(n)]
    st = new_stats()
    distinct = set()
    check_digests(run, raw + dig, st, distinct)
    check_sessions(run, sessions, st, distinct)
    st["distinct_digests"] = len(distinct)
    close_stats(st)
    run.notes["sha256_in_model"] = st
    return st
