# C01 — accepted transactions are balanced in one commodity; others are rejected
import json, os, copy
from common import *
import journal as J

IMPORTS = "From TkModel Require Import Base Dec Acct Txn Accept.\nFrom TkSpec Require Import Accept_spec.\nFrom TkCorr Require Import C01_corr.\n"


def g_decp(d):
    return "(mkDec %s %s)" % (g_Z(d[0]), g_N(d[1]))


def g_raw_txn(t):
    ps = []
    for p in t["posts"]:
        if p["comm"] == "":
            unit = "None"
        else:
            op = "None" if not p.get("opening") else "(Some (%s, %s))" % (g_decp(p["opening"][0]), g_str(p["opening"][1]))
            if p.get("closing"):
                k, v, c = p["closing"]
                cl = "(Some (%s, %s, %s))" % ("UnitPrice" if k == "@" else "TotalPrice", g_decp(v), g_str(c))
            else:
                cl = "None"
            unit = "(Some (mkUnit %s %s %s))" % (g_str(p["comm"]), op, cl)
        ps.append("(mkRawPost %s %s %s)" % (g_acct(p["acc"]), g_decp(p["amount"]), unit))
    last = "None" if not t.get("last") else "(Some %s)" % g_acct(t["last"]["acc"])
    return "(mkRawTxn %s %s)" % (g_list(ps), last)


def g_posting(p):
    return "(mkPosting %s %s %s %s %s %s)" % (g_acct(p["acc"]), g_str(p["comm"]), g_dec(p["amount"]),
                                              g_dec(p["txn_amount"]), g_bool(p["total"]), g_str(p["txn_comm"]))


def mutate(r, t):
    """inject one of the shapes C01 speaks about (most must be rejected)"""
    t = copy.deepcopy(t)
    k = r.randint(0, 11)
    ps = t["posts"]
    p = r.choice(ps)
    tag = "none"
    if k == 0:
        p["amount"] = (0, r.choice([0, 1, 3])); tag = "zero-amount"
    elif k == 1:
        p["amount"] = (p["amount"][0] + r.choice([1, -1]), p["amount"][1]); tag = "off-by-one-ulp"
    elif k == 2:
        p["comm"] = r.choice([c for c in J.COMMS if c != p["comm"]]); p["closing"] = None; p["opening"] = None; tag = "other-commodity"
    elif k == 3 and p["comm"]:
        p["closing"] = ("@", (r.randint(1, 50), r.randint(0, 2)), p["comm"]); tag = "same-commodity-price"
    elif k == 4 and p["comm"]:
        c2 = r.choice([c for c in J.COMMS if c not in ("", p["comm"])])
        p["closing"] = ("@", (-r.randint(1, 50), r.randint(0, 2)), c2); tag = "negative-unit-price"
    elif k == 5 and p["comm"]:
        c2 = r.choice([c for c in J.COMMS if c not in ("", p["comm"])])
        sgn = -1 if p["amount"][0] > 0 else 1
        p["closing"] = ("=", (sgn * r.randint(1, 500), r.randint(0, 2)), c2); tag = "total-opposite-sign"
    elif k == 6 and p["comm"]:
        p["opening"] = ((r.randint(1, 500), r.randint(0, 2)), r.choice(J.COMMS[2:])); tag = "opening-only-or-both"
    elif k == 7 and p["comm"]:
        p["opening"] = ((-r.randint(1, 500), r.randint(0, 2)), r.choice(J.COMMS[2:])); tag = "negative-opening"
    elif k == 8:
        # implicit last posting although the others already cancel (F2 shape)
        if not t["last"]:
            t["last"] = {"acc": r.choice(ps)["acc"], "comment": None}
        tag = "implicit-last-on-zero-sum"
    elif k == 9:
        t["last"] = None
        ps.pop(); tag = "dropped-last"
        if not ps:
            return None, tag
    elif k == 10 and p["comm"]:
        c2 = r.choice([c for c in J.COMMS if c not in ("", p["comm"])])
        p["closing"] = ("=", (0, r.choice([0, 2])), c2); tag = "zero-total"
    elif k == 11:
        p["amount"] = (p["amount"][0], p["amount"][1] + r.randint(1, 3)); tag = "rescaled"
    if p.get("closing") and p["comm"] and not p.get("opening") and r.random() < 0.4:
        # the same shape together with an opening position
        p["opening"] = ((r.randint(1, 500), r.randint(0, 2)), r.choice(J.COMMS[2:])); tag += "+opening"
    return t, tag


def gen_cases(run, n):
    cases = []
    r = run.rng
    cdir = os.path.join(VERIF, "corpus", "C01")
    if os.path.isdir(cdir):
        for f in sorted(os.listdir(cdir)):
            if f.endswith(".json"):
                c = json.load(open(os.path.join(cdir, f)))
                c["src"] = "corpus/" + f
                cases.append(c)
    for i in range(n):
        g = J.Gen(r, max_depth=3, n_accounts=r.randint(2, 6), big=(r.random() < 0.08))
        ts = g.journal(r.randint(1, 4), prices=(r.random() < 0.6), meta=False, implicit_p=0.4)
        tags = []
        if r.random() < 0.45:
            k = r.randrange(len(ts))
            m, tag = mutate(r, ts[k])
            if m is not None:
                ts[k] = m
                tags.append(tag)
        for k, t in enumerate(ts):
            t["desc"] = "t%d" % k
        cases.append({"txns": ts, "tags": tags, "src": "gen"})
    # sums that leave the 96-bit range and come back (or not)
    MAX = 2 ** 96 - 1
    for i in range(max(14, n // 12)):
        sc = r.choice([0, 0, 3])
        big = (MAX - r.randint(0, 5), sc)
        shape = i % 7 if i < 14 else r.randint(0, 6)
        P = lambda acc, amt: {"acc": acc, "amount": amt, "comm": "", "closing": None, "opening": None, "comment": None}
        if shape == 0:
            posts, last = [P("e", big), P("e2", big), P("a", (-big[0], sc))], None
        elif shape == 1:
            posts, last = [P("e", big), P("e2", big)], {"acc": "a", "comment": None}
        elif shape == 2:
            posts, last = [P("e", big), P("a", (-big[0], sc))], None                     # balanced, representable
        elif shape == 3:
            posts, last = [P("e", big), P("e2", (1, sc)), P("a", (-big[0], sc)), P("b", (-1, sc))], None
        else:
            # two huge cancelling postings and a tiny one which the decimal library's rounding absorbs: the exact sum
            # is the tiny amount, so the transaction must be rejected whatever the order of the postings
            B = r.randint(1, 9) * 10 ** r.randint(22, 27) + r.randint(0, 10 ** 6)
            tiny = (r.randint(1, 9), r.randint(5, 28))
            trio = [P("e", (B, 0)), P("t", tiny), P("a", (-B, 0))]
            if shape == 5:
                trio = [trio[1], trio[0], trio[2]]
            elif shape == 6:
                trio = [trio[0], trio[2], trio[1]]
            posts, last = trio, None
        t = {"ts": "2024-01-01", "code": None, "desc": "t0", "uuid": None, "loc": None, "tags": None, "comments": [], "posts": posts, "last": last}
        cases.append({"txns": [t], "tags": ["big-sum-shape-%d" % shape], "src": "gen"})
    return cases


def case_of(c):
    """what ./check C01 --replay needs to rebuild the case: the structured journal the model is evaluated on"""
    return {"txns": c["txns"], "tags": c["tags"], "src": c.get("src")}


def main(run, only=None):
    """only: the cases of a replay (no generation, no proof stage, no verdict)"""
    if only is None:
        info = proof_stage(run, "C01", extra_targets=["corr/C01_corr.vo"])
        harness_build()
        n = 200 if run.tier == "quick" else 3000
        cases = gen_cases(run, n)
    else:
        cases = only
    toml = J.make_toml()
    reqs = [{"conf": {"toml": toml}, "inputs": [{"text": J.print_journal(c["txns"])}], "ops": [{"op": "txns"}]} for c in cases]
    res = harness_run(reqs)
    terms, idx = [], []
    stages, tagc = {}, {}
    for i, (c, rr) in enumerate(zip(cases, res)):
        st = rr.get("stage") if rr else "none"
        stages[st] = stages.get(st, 0) + 1
        for t in c["tags"] or ["valid"]:
            tagc[t] = tagc.get(t, 0) + 1
        c["stage"] = st
        if st == "load":
            impl = "None"; c["impl"] = {"rejected": rr.get("err", "")[:200]}
        elif st == "done":
            txns = rr["results"][0].get("ok")
            by = {t["desc"]: t for t in txns}
            if len(by) != len(c["txns"]):
                raise Infra("txn mapping failed")
            ordered = [by["t%d" % k] for k in range(len(c["txns"]))]
            impl = "(Some %s)" % g_list([g_list([g_posting(p) for p in t["posts"]]) for t in ordered])
            c["impl"] = {"accepted": [[(p["acc"], p["comm"], dec_parts(p["amount"]), dec_parts(p["txn_amount"]), p["total"], p["txn_comm"]) for p in t["posts"]] for t in ordered]}
        else:
            c["impl"] = {"stage": st}
            continue   # panic/abort: outside C01 (C15)
        terms.append("c01_case %s %s" % (g_list([g_raw_txn(t) for t in c["txns"]]), impl))
        idx.append(i)
    vals, errs = coq_eval("C01", IMPORTS, terms)
    if errs:
        raise Infra("coq evaluation failed: " + errs[0])
    findings = load_findings("C01")
    distinct = set()
    n_dom = n_acc = 0
    for j, v in zip(idx, vals):
        c = cases[j]
        bits = as_N(v)
        if bits is None:
            raise Infra("no result for case %d" % j)
        run.cov["evaluations"] += 1
        text = J.print_journal(c["txns"])
        if c["stage"] == "done":
            n_acc += 1
            distinct.add(json.dumps(c["impl"], sort_keys=True))
        if len(run.cov["samples"]) < 3:
            run.cov["samples"].append({"journal": text, "tags": c["tags"], "implementation": c["impl"], "bits": bits})
        if bits & 8:
            run.violation("accepted transaction whose postings do not sum to zero (exact sum, independent of the number type)",
                          {"journal": text, "injected": c["tags"], "implementation_output": c["impl"], "case": case_of(c)})
            continue
        if not (bits & 4):
            continue
        n_dom += 1
        if not (bits & 2):
            run.violation("accepted journal is not balanced in one commodity (or contains a shape that must be rejected)",
                          {"journal": text, "injected": c["tags"], "implementation_output": c["impl"],
                           "replay_hint": "parser::string_to_txns on the journal text; ./check C01 --replay <this file>", "case": case_of(c)})
        elif not (bits & 1):
            run.cov["disagreements_checked"] += 1
            run.violation("correspondence broken: model Accept.accept_journal differs from implementation (spec oracle clean on this input)",
                          {"correspondence": "C01_corr.c01_case", "journal": text, "injected": c["tags"],
                           "implementation_output": c["impl"], "case": case_of(c)}, found_input=False)
    if only is not None:
        return None
    run.cov["distinct_nontrivial"] = len(distinct)
    run.cov["rule"] = ("seeded journals of 1-4 transactions (2-6 postings, 0-3 commodities, '@' '=' '{..}' positions, implicit last posting), "
                       "45% with one injected shape of the property (zero amount, off by one ulp, foreign commodity, same-commodity price, negative price, "
                       "opposite-sign total, opening only, implicit last on zero sum, ...); non-trivial = accepted journal; distinct = distinct accepted results")
    run.notes.update({"stages": stages, "injected": tagc, "in_exact_domain": n_dom, "accepted": n_acc})
    return run.finish(info)


def replay(run, path):
    """the stored structured journal again: harness (parser::string_to_txns) + c01_case; see common.replay_verdict"""
    j, rp, rc = replay_begin(run, path)
    if rc is not None:
        return rc
    c = rp.get("case")
    if not (isinstance(c, dict) and c.get("txns")):
        return replay_print(j)
    print(j.get("what"))
    c = {"txns": c["txns"], "tags": list(c.get("tags") or []), "src": "replay"}
    print("journal:\n%s" % J.print_journal(c["txns"]))
    corr_build("C01")
    harness_build()
    main(run, only=[c])
    print("implementation now: %s" % json.dumps(c.get("impl"), ensure_ascii=False)[:3000])
    return replay_verdict(run, path, j, "stage=%s: accepted/rejected as the specification demands and the model agrees (or the case is outside the exact domain)" % c.get("stage"))
