# GLUE — self-test of the trusted glue between Python and Coq (`./check GLUE`; not one of the numbered properties):
#   the Gallina term emitters of common.py (g_str, g_acct, g_dec, g_Z, g_N, g_opt, g_list, g_bool) and the parser of coqc's
#   printed results. Every value is sent to Coq, reduced to a number there by an independent fold, and the number is
#   compared with the same fold computed in Python: an emitter that mangles a value (code point, sign, scale, nesting,
#   empty string / empty list, option) or a result parser that truncates a large number shows up as a difference.
import json, os
from common import *

IMPORTS = ("From Coq Require Import List NArith ZArith.\nImport ListNotations.\nFrom TkModel Require Import Base Dec.\n"
           "Definition P := 2305843009213693951%N.\n"                       # 2^61 - 1
           "Definition hs (s : list N) : N := fold_left (fun a c => ((a * 1114121 + c + 1) mod P)%N) s 7%N.\n"
           "Definition hl (l : list N) : N := fold_left (fun a c => ((a * 1000003 + c + 1) mod P)%N) l 11%N.\n"
           "Definition hz (z : Z) : N := match z with Z0 => 0%N | Zpos p => (2 * Npos p)%N | Zneg p => (2 * Npos p + 1)%N end.\n"
           "Definition hd (d : dec) : N := (hz (dm d) * 64 + ds d)%N.\n"
           "Definition ho (o : option (list N)) : N := match o with None => 1%N | Some s => (2 + hs s)%N end.\n")
P = 2 ** 61 - 1


def hs(s):
    a = 7
    for c in s:
        a = (a * 1114121 + ord(c) + 1) % P
    return a


def hl(l):
    a = 11
    for c in l:
        a = (a * 1000003 + c + 1) % P
    return a


def hz(z):
    return 0 if z == 0 else (2 * z if z > 0 else 2 * (-z) + 1)


def rand_str(r):
    k = r.random()
    n = 0 if k < 0.1 else r.randint(1, 12)
    pools = ["abcxyzAZ09 :;'\"\\()[]{}%*", "äöåéßµ", "ΑΩ中文   ", "\U0001F600\U00010000\U0010FFFF", "\t\r\n\x00\x7f"]
    return "".join(r.choice(r.choice(pools)) for _ in range(n))


def main(run):
    info = {"ok": True, "closed_ok": True, "theorems": [], "trusted_base": TRUSTED_BASE if "TRUSTED_BASE" in globals() else []}
    ok, log = coq_make(["model/Dec.vo"])
    if not ok:
        raise Infra("coq build failed: " + log[-400:])
    r = run.rng
    n = 300 if run.tier == "quick" else 5000
    terms, exp, what = [], [], []
    for i in range(n):
        k = i % 6
        if k == 0:
            s = rand_str(r)
            terms.append("hs %s" % g_str(s)); exp.append(hs(s)); what.append(("g_str", s))
        elif k == 1:
            comps = [rand_str(r).replace(":", "") for _ in range(r.randint(1, 5))]
            a = ":".join(comps)
            terms.append("hl (map hs %s)" % g_acct(a)); exp.append(hl([hs(c) for c in a.split(":")])); what.append(("g_acct", a))
        elif k == 2:
            m = r.choice([0, 1, -1, 2 ** 96 - 1, -(2 ** 96 - 1), r.randint(-10 ** 30, 10 ** 30), r.randint(-999, 999)])
            sc = r.choice([0, 1, 2, 27, 28, r.randint(0, 28)])
            j = {"n": m < 0, "m": str(abs(m)), "s": sc} if r.random() < 0.5 else (m, sc)
            terms.append("hd %s" % g_dec(j)); exp.append(hz(m) * 64 + sc); what.append(("g_dec", [m, sc]))
        elif k == 3:
            z = r.choice([0, -1, 1, -(2 ** 127), 2 ** 127, r.randint(-10 ** 40, 10 ** 40)])
            terms.append("hz %s" % g_Z(z)); exp.append(hz(z)); what.append(("g_Z", z))
        elif k == 4:
            o = None if r.random() < 0.3 else rand_str(r)
            terms.append("ho %s" % g_opt(o, g_str)); exp.append(1 if o is None else 2 + hs(o)); what.append(("g_opt/g_str", o))
        else:
            l = [r.choice([0, 1, 2 ** 64, r.randint(0, 10 ** 25)]) for _ in range(r.randint(0, 6))]
            b = r.random() < 0.5
            terms.append("(if %s then hl %s else 0%%N)" % (g_bool(b), g_list([g_N(x) for x in l]) if l else "(@nil N)"))
            exp.append(hl(l) if b else 0); what.append(("g_list/g_N/g_bool", [b, l]))
    # the result parser: numbers far beyond 64 bits must come back digit for digit
    for e in (0, 2 ** 64, 10 ** 80 + 7, 2 ** 300 - 1):
        terms.append(g_N(e)); exp.append(e); what.append(("result parser", e))
    vals, errs = coq_eval("GLUE", IMPORTS, terms)
    if errs:
        raise Infra("coq evaluation failed: " + errs[0])
    kinds = {}
    for t, e, w, v in zip(terms, exp, what, vals):
        run.cov["evaluations"] += 1
        kinds[w[0]] = kinds.get(w[0], 0) + 1
        got = as_N(v)
        if got != e:
            run.violation("trusted glue: the value sent to Coq by %s is not the value Coq received (or the printed result was mis-read)" % w[0],
                          {"emitter": w[0], "value": w[1], "term": t[:600], "expected_fold": e, "coq_result": v}, found_input=False)
    run.cov["distinct_nontrivial"] = len(set(terms))
    run.cov["rule"] = "random strings (ASCII punctuation, Latin-1, Greek/CJK/space-like, astral, control characters, empty), accounts, decimals (both input shapes, signs, scales 0-28, 96-bit and beyond), integers, options, lists, booleans; large results"
    run.notes["kinds"] = kinds
    return run.finish(info, level="other")


def replay(run, path):
    print(json.dumps(json.load(open(path)), indent=1, ensure_ascii=False)[:4000])
    return 0
