# C11 — account selectors match whole account names and never alter remaining figures
import json, os, warnings, re as pyre
warnings.filterwarnings("ignore", category=FutureWarning)
from common import *
import journal as J

IMPORTS = ("From TkModel Require Import Base Dec Acct Balance Regex Select.\n"
           "From TkSpec Require Import Balance_spec Regex_spec.\n"
           "From TkCorr Require Import C02_corr C11_corr.\n")

# ------------------------------------------------------------------ regex ASTs
# ("Empty",) ("Chr", cp) ("Any",) ("Class", neg, [(lo, hi)..]) ("Seq", a, b) ("Alt", a, b)
# ("Star", a) ("Plus", a) ("Opt", a) ("Group", cap, a) ("Bol",) ("Eol",)
META = set(map(ord, "\\.+*?()|[]{}^$"))
CMETA = set(map(ord, "\\][^-&~"))


def ncg(t):
    return "(?:" + t + ")"


def paren(b, t):
    return ncg(t) if b else t


def pp_chr(c):
    return ("\\" + chr(c)) if c in META else chr(c)


def pp_cchr(c):
    return ("\\" + chr(c)) if c in CMETA else chr(c)


def pp_at(lvl, r):
    """mirror of Regex.pp_at (the Coq side re-checks the text: bit 8)"""
    k = r[0]
    if k == "Empty":
        return paren(lvl >= 2, "")
    if k == "Chr":
        return pp_chr(r[1])
    if k == "Any":
        return "."
    if k == "Class":
        return "[" + ("^" if r[1] else "") + "".join(
            pp_cchr(lo) if lo == hi else pp_cchr(lo) + "-" + pp_cchr(hi) for lo, hi in r[2]) + "]"
    if k == "Seq":
        return paren(lvl >= 2, pp_at(1, r[1]) + pp_at(1, r[2]))
    if k == "Alt":
        return paren(lvl >= 1, pp_at(0, r[1]) + "|" + pp_at(0, r[2]))
    if k in ("Star", "Plus", "Opt"):
        return paren(lvl >= 3, pp_at(3, r[1]) + {"Star": "*", "Plus": "+", "Opt": "?"}[k])
    if k == "Group":
        return ("(" if r[1] else "(?:") + pp_at(0, r[2]) + ")"
    if k == "Bol":
        return paren(lvl >= 3, "^")
    if k == "Eol":
        return paren(lvl >= 3, "$")
    raise ValueError(k)


def pp(r):
    return pp_at(0, r)


def g_re(r):
    k = r[0]
    if k in ("Empty", "Any", "Bol", "Eol"):
        return k
    if k == "Chr":
        return "(Chr %d%%N)" % r[1]
    if k == "Class":
        return "(Class %s %s)" % (g_bool(r[1]), g_list(["(%d%%N, %d%%N)" % (lo, hi) for lo, hi in r[2]]))
    if k in ("Seq", "Alt"):
        return "(%s %s %s)" % (k, g_re(r[1]), g_re(r[2]))
    if k in ("Star", "Plus", "Opt"):
        return "(%s %s)" % (k, g_re(r[1]))
    if k == "Group":
        return "(Group %s %s)" % (g_bool(r[1]), g_re(r[2]))
    raise ValueError(k)


def to_tuple(j):
    """JSON (lists) -> AST tuples"""
    k = j[0]
    if k == "Class":
        return ("Class", bool(j[1]), [(int(a), int(b)) for a, b in j[2]])
    if k == "Chr":
        return ("Chr", ord(j[1]) if isinstance(j[1], str) else int(j[1]))
    if k in ("Seq", "Alt"):
        return (k, to_tuple(j[1]), to_tuple(j[2]))
    if k in ("Star", "Plus", "Opt"):
        return (k, to_tuple(j[1]))
    if k == "Group":
        return ("Group", bool(j[1]), to_tuple(j[2]))
    return (k,)


def lit(s):
    """literal string -> right-nested Seq of Chr"""
    if s == "":
        return ("Empty",)
    out = ("Chr", ord(s[-1]))
    for ch in reversed(s[:-1]):
        out = ("Seq", ("Chr", ord(ch)), out)
    return out


def seq(*xs):
    out = xs[-1]
    for x in reversed(xs[:-1]):
        out = ("Seq", x, out)
    return out


def size(r):
    return 1 + sum(size(x) for x in r[1:] if isinstance(x, tuple))


def nodes(r):
    return [r[0]] + [n for x in r[1:] if isinstance(x, tuple) for n in nodes(x)]


def star_depth(r):
    d = max([star_depth(x) for x in r[1:] if isinstance(x, tuple)] or [0])
    return d + (1 if r[0] in ("Star", "Plus") else 0)


ALPH = "aabbc::::11-_é$xe"
WORDS = ["a", "b", "ab", "c", "a:b", "b:c", "1", "é", "a-b", "e", "x", "a:b:c", "$"]
RANGES = [(97, 99), (48, 57), (58, 58), (97, 122), (45, 45), (233, 233), (95, 95), (36, 36), (98, 120), (49, 49)]


def gen_atom(r):
    k = r.random()
    if k < 0.45:
        return lit(r.choice(WORDS))
    if k < 0.60:
        return ("Chr", ord(r.choice(ALPH)))
    if k < 0.72:
        return ("Any",)
    if k < 0.84:
        return ("Class", r.random() < 0.4, r.sample(RANGES, r.randint(1, 2)))
    if k < 0.89:
        return ("Bol",)
    if k < 0.94:
        return ("Eol",)
    if k < 0.97:
        return ("Empty",)
    return ("Chr", ord(r.choice(".|*+?()[]{}^\\&~#")))


def gen_re(r, depth):
    if depth <= 0 or r.random() < 0.2:
        return gen_atom(r)
    k = r.random()
    if k < 0.40:
        return ("Seq", gen_re(r, depth - 1), gen_re(r, depth - 1))
    if k < 0.62:
        return ("Alt", gen_re(r, depth - 1), gen_re(r, depth - 1))
    if k < 0.72:
        return ("Star", gen_re(r, depth - 1))
    if k < 0.80:
        return ("Plus", gen_re(r, depth - 1))
    if k < 0.88:
        return ("Opt", gen_re(r, depth - 1))
    return ("Group", r.random() < 0.5, gen_re(r, depth - 1))


def derived(r, acc, other):
    """patterns one edit away from the literal account name"""
    k = r.randint(0, 13)
    L = lit(acc)
    if k == 0:
        return L
    if k == 1:
        return seq(("Bol",), L)                                   # ^a:b
    if k == 2:
        return seq(L, ("Eol",))                                   # a:b$
    if k == 3:
        return seq(("Bol",), L, ("Eol",))
    if k == 4:
        return ("Alt", L, lit(other))                             # a:b|c   (needs the group)
    if k == 5:
        return seq(L, ("Star", ("Any",)))                         # a:b.*
    if k == 6:
        return seq(("Star", ("Any",)), L)                         # .*a:b
    if k == 7:
        i = r.randrange(len(acc))
        return seq(lit(acc[:i]), ("Any",), lit(acc[i + 1:]))      # one char -> .
    if k == 8:
        i = r.randrange(len(acc) + 1)
        return seq(lit(acc[:i]), ("Opt", ("Group", False, lit(acc[i:]))))   # optional tail
    if k == 9:
        return ("Alt", seq(L, ("Eol",)), seq(("Bol",), lit(other)))         # a$|^b
    if k == 10:
        i = r.randrange(len(acc) + 1)
        return seq(lit(acc[:i]), ("Eol",), lit(acc[i:]))          # $ in the middle
    if k == 11:
        return seq(L, ("Star", ("Group", False, seq(("Chr", 58), ("Plus", ("Class", True, [(58, 58)]))))))  # a(?::[^:]+)*
    if k == 12:
        return seq(("Group", True, ("Alt", L, lit(other))), ("Chr", 58), ("Plus", ("Any",)))  # (a|b):.+
    i = r.randrange(len(acc) + 1)
    return seq(lit(acc[:i]), ("Bol",), lit(acc[i:]))              # ^ in the middle


def sample(r, p, depth=0):
    """a string the pattern (ignoring anchors) matches"""
    k = p[0]
    if k in ("Empty", "Bol", "Eol"):
        return ""
    if k == "Chr":
        return chr(p[1])
    if k == "Any":
        return r.choice(ALPH)
    if k == "Class":
        if not p[1]:
            lo, hi = r.choice(p[2])
            return chr(r.randint(lo, min(hi, lo + 3)))
        cands = [c for c in ALPH if not any(lo <= ord(c) <= hi for lo, hi in p[2])]
        return r.choice(cands) if cands else "q"
    if k == "Seq":
        return sample(r, p[1]) + sample(r, p[2])
    if k == "Alt":
        return sample(r, r.choice([p[1], p[2]]))
    if k == "Star":
        return "".join(sample(r, p[1]) for _ in range(r.randint(0, 2)))
    if k == "Plus":
        return "".join(sample(r, p[1]) for _ in range(r.randint(1, 2)))
    if k == "Opt":
        return sample(r, p[1]) if r.random() < 0.5 else ""
    if k == "Group":
        return sample(r, p[2])
    raise ValueError(k)


# ------------------------------------------------------------------ account names
START = [(0x61, 0x7a), (0x41, 0x5a), (0x24, 0x24), (0xa2, 0xa5), (0xc0, 0xd6), (0xd8, 0xf6), (0xf8, 0x2ff),
         (0x370, 0x37d), (0x37f, 0x1fff), (0x200c, 0x200d), (0x2070, 0x218f), (0x2c00, 0x2fef),
         (0x3001, 0xd7ff), (0xf900, 0xfdcf), (0xfdf0, 0xfffd), (0xb5, 0xb5), (0xb9, 0xb9), (0xb2, 0xb3),
         (0xb0, 0xb0), (0xbc, 0xbe)]
REST = START + [(0x30, 0x39), (0x5f, 0x5f), (0x2d, 0x2d), (0xb7, 0xb7), (0x300, 0x36f), (0x203f, 0x2040)]


def in_rs(c, rs):
    return any(lo <= ord(c) <= hi for lo, hi in rs)


def valid_account(s):
    if not s or len(s) > 24:
        return False
    parts = s.split(":")
    if any(p == "" or p[0] in "-_\u00b7" for p in parts):     # parser::is_valid_sub_id
        return False
    if not in_rs(s[0], START):
        return False
    return all(in_rs(c, REST) for p in parts for c in p)


def neighbours(r, w):
    """names that extend / shorten / perturb a matching name on either side"""
    out = [w, w + ":c", w + "b", w + "1", "x" + w, "x:" + w, "a" + w, w[:-1], w[1:], w + ":" + w]
    if ":" in w:
        out += [w.replace(":", "-", 1), w.rsplit(":", 1)[0], w.split(":", 1)[1]]
    if len(w) >= 2:
        i = r.randrange(len(w))
        out.append(w[:i] + r.choice("abx1") + w[i + 1:])
    return [x for x in out if valid_account(x)]


# ------------------------------------------------------------------ cases
def build_journal(r, accounts, zero_accounts):
    """every account is posted at least once; zero_accounts get cancelling postings"""
    g = J.Gen(r, max_depth=3, n_accounts=2)
    g.accounts = list(accounts)
    ts = g.journal(r.randint(1, 4), prices=False, meta=False, implicit_p=0.3)
    accs = list(accounts)
    r.shuffle(accs)
    comm = r.choice(g.comms)
    for k in range(0, len(accs), 6):
        chunk = accs[k:k + 6]
        posts, total = [], (0, 0)
        for a in chunk:
            amt = g.amount()
            posts.append({"acc": a, "amount": amt, "comm": comm, "closing": None, "opening": None, "comment": None})
            total = J.add(total, amt)
        if total[0] == 0:
            posts.append({"acc": chunk[0], "amount": (1, 0), "comm": comm, "closing": None, "opening": None, "comment": None})
            total = J.add(total, (1, 0))
        posts.append({"acc": r.choice(accs), "amount": J.neg(total), "comm": comm, "closing": None, "opening": None, "comment": None})
        ts.append({"ts": g.ts(0), "code": None, "desc": None, "uuid": None, "loc": None, "tags": None,
                   "comments": [], "posts": posts, "last": None})
    for a in zero_accounts:
        amt = g.amount()
        ts.append({"ts": g.ts(0), "code": None, "desc": None, "uuid": None, "loc": None, "tags": None, "comments": [],
                   "posts": [{"acc": a, "amount": amt, "comm": "ZZ", "closing": None, "opening": None, "comment": None},
                             {"acc": a, "amount": J.neg(amt), "comm": "ZZ", "closing": None, "opening": None, "comment": None}],
                   "last": None})
    return J.print_journal(ts)


def gen_case(r, big):
    base = J.Gen(r, max_depth=r.choice([2, 3, 4]), n_accounts=r.randint(2, 5)).accounts
    base = [a for a in base if valid_account(a)] or ["a:b"]
    sels, names = [], set(base)
    for _ in range(r.randint(2, 4) if not big else 6):
        pats = []
        for _ in range(r.choice([1, 1, 1, 2, 3])):
            k = r.random()
            if k < 0.45:
                acc = r.choice(sorted(names))
                p = derived(r, acc, r.choice(sorted(names)))
            else:
                p = gen_re(r, r.choice([1, 2, 3, 3, 4]))
            if size(p) > 40 or star_depth(p) > 2:
                p = gen_re(r, 1)
            pats.append(p)
            for _ in range(3):
                w = sample(r, p)
                if valid_account(w):
                    for x in r.sample(neighbours(r, w), min(len(neighbours(r, w)), 4 if not big else 7)):
                        if len(names) < (14 if not big else 26):
                            names.add(x)
                    names.add(w)
        sels.append(pats)
    names = sorted(names)
    zero = r.sample(names, min(len(names), r.choice([0, 1, 2])))
    return {"accounts": names, "zero_accounts": zero, "selectors": sels, "src": "gen"}


def load_corpus():
    out = []
    d = os.path.join(VERIF, "corpus", "C11")
    if os.path.isdir(d):
        for f in sorted(os.listdir(d)):
            if f.endswith(".json"):
                j = json.load(open(os.path.join(d, f)))
                out.append({"accounts": j["accounts"], "zero_accounts": j.get("zero_accounts", []),
                            "selectors": [[to_tuple(p) for p in s] for s in j["selectors"]],
                            "expect_text": j.get("texts"), "src": "corpus/" + f})
    return out


# ------------------------------------------------------------------ emitters
def g_bposts_of(posts):
    return g_list(["(mkBpost %s %s %s)" % (g_acct(p["acc"]), g_str(p["comm"]), g_dec(p["amount"])) for p in posts])


def g_report(rep):
    rows = ["(mkBrow %s %s %s %s)" % (g_acct(x["acc"]), g_str(x["comm"]), g_dec(x["own"]), g_dec(x["tree"])) for x in rep["rows"]]
    ds = ["(%s, %s)" % (g_str(d["comm"]), g_dec(d["delta"])) for d in rep["deltas"]]
    return "(mkBal %s %s)" % (g_list(rows), g_list(ds))


def g_reg(entries):
    return g_list([g_list(["(mkRrow %s %s %s %s)" % (g_acct(x["acc"]), g_str(x["comm"]), g_dec(x["amount"]), g_dec(x["total"]))
                           for x in e["rows"]]) for e in entries])


def opt_of(res, f):
    return "(Some %s)" % f(res["ok"]) if (res is not None and "ok" in res) else "None"


def py_stats(texts, names, st):
    """coverage bookkeeping with Python's re as a bystander (never part of the verdict)"""
    for t in texts:
        try:
            for n in names:
                full = pyre.fullmatch(t, n) is not None
                if pyre.search(t, n) is not None and not full:
                    st["pairs_search_but_not_full"] += 1
                if (pyre.search("^" + t + "$", n) is not None) != full:
                    st["pairs_where_dropping_group_differs"] += 1
                st["pairs"] += 1
                st["pairs_full"] += full
        except pyre.error:
            st["python_re_rejects"] += 1


# ------------------------------------------------------------------ metamorphic stream
# Black box, no regex oracle: for a selector list S = [p1..pk] (printed ASTs plus patterns with
# inline flags and constructs outside the modelled subset)
#   rows(S) == the rows of the unselected output whose (account, commodity) is listed by at least
#              one single-pattern run [pi]   (same order, identical figures; deltas recomputed),
#   rows(S) == rows(permutation of S),
# on the balance (report and equity selector) and on the register.
from fractions import Fraction

CASE_BASE = ["Assets", "Assets:Cash", "Expenses:Food", "Expenses", "Income:Job", "foo", "foo:bar", "a:b", "ab",
             "aa", "aaa", "a1", "a22", "x:foo", "Foo:Bar:baz", "é:Ü"]


def case_variants(n):
    return {n, n.lower(), n.upper(), n.swapcase(), ":".join(c.capitalize() for c in n.split(":"))}


def esc(n):
    return pp(lit(n))


def flagged(r, n):
    """patterns with inline flags / constructs outside the AST subset, built around the name n"""
    lo, first = n.lower(), n.split(":")[0].lower()
    return r.choice([
        "(?i)" + esc(lo), "(?i)" + esc(lo), "(?i)" + esc(first) + "(:.*)?", "(?i)" + esc(first) + "(:.*)?",
        "(?i)zzz", "(?i)" + esc(lo) + "|zzz", "zzz|(?i)" + esc(n.upper()), "(?i:" + esc(lo) + ")", "(?i:" + esc(first) + ")(:.*)?",
        "(?i)" + esc(first) + ":(?-i)" + esc(n.split(":")[-1]), "(?-i)" + esc(n), "(?s)" + esc(first) + ".*", "(?x) " + " ".join(esc(ch) for ch in n),
        "(?U)a+", r"\w+", r"a\d+", "[[:alpha:]]+", "[[:upper:]][[:lower:]]+(:.*)?", "a{2,3}", "a{2}", ".*?b", r"\bfoo\b", r"\bfoo\b.*",
        r".*\bfoo", r"\p{Lu}.*", r"(?i)[a-c]+", r"\x61+", r"[^\W\d]+:[^\W\d]+", "(?i)", "(?m)^" + esc(n) + "$"])


def gen_meta_session(r):
    names = set()
    for b in r.sample(CASE_BASE, r.randint(3, 5)):
        vs = sorted(case_variants(b))
        for v in r.sample(vs, min(len(vs), r.randint(2, 3))):
            names.add(v)
        names.add(b)
    for w in sorted(names)[:3]:       # sorted: independent of PYTHONHASHSEED
        for x in r.sample(neighbours(r, w), 2):
            names.add(x)
    names = sorted(x for x in names if valid_account(x))[:18]
    lists = []
    for _ in range(r.randint(4, 7)):
        k = r.randint(2, 4)
        S = []
        if r.random() < 0.65:
            # an unscoped flag somewhere, the other patterns are literal case variants / printed ASTs
            S.append(flagged(r, r.choice(names)))
            while len(S) < k:
                n = r.choice(names)
                q = r.random()
                if q < 0.6:
                    S.append(esc(r.choice(sorted(case_variants(n)))))
                elif q < 0.85:
                    S.append(pp(derived(r, r.choice(sorted(case_variants(n))), r.choice(names))))
                else:
                    S.append(flagged(r, n))
            if r.random() < 0.5:
                r.shuffle(S)
        else:
            while len(S) < k:
                q = r.random()
                n = r.choice(names)
                S.append(flagged(r, n) if q < 0.4 else pp(gen_re(r, r.choice([1, 2, 3]))) if q < 0.6 else esc(n) if q < 0.8
                         else pp(derived(r, n, r.choice(names))))
        P = list(S)
        if k == 2 or r.random() < 0.5:
            P.reverse()
        else:
            r.shuffle(P)
        lists.append((S, P))
    zero = r.sample(names, min(len(names), r.choice([0, 1, 2])))
    return {"accounts": names, "zero_accounts": zero, "lists": lists}


def dval(j):
    m, s = dec_parts(j)
    return Fraction(m, 10 ** s)


def bal_rows(out):
    return [((x["acc"], x["comm"]), (json.dumps(x["own"], sort_keys=True), json.dumps(x["tree"], sort_keys=True))) for x in out["ok"]["rows"]]


def reg_rows_of(out):
    return [[((x["acc"], x["comm"]), (json.dumps(x["amount"], sort_keys=True), json.dumps(x["total"], sort_keys=True))) for x in e["rows"]]
            for e in out["ok"]]


def deltas_recomputed(out):
    want = {}
    for x in out["ok"]["rows"]:
        want[x["comm"]] = want.get(x["comm"], Fraction(0)) + dval(x["own"])
    got = {d["comm"]: dval(d["delta"]) for d in out["ok"]["deltas"]}
    return got == want and len(got) == len(out["ok"]["deltas"])


META_KINDS = [("report", {"op": "balance", "prices": False}), ("equity", {"op": "balance", "prices": False, "kind": "equity"}),
              ("register", {"op": "register"})]


def meta_request(c, toml):
    """one session of the metamorphic stream: unselected outputs, every single pattern, every list and its permutation"""
    kinds = META_KINDS
    c["singles"] = sorted(set(p for S, _ in c["lists"] for p in S))
    ops = [{"op": "balance", "prices": False, "ras": []}, {"op": "register", "ras": []}]
    for p in c["singles"]:
        ops += [dict(o, ras=[p]) for _, o in kinds]
    for S, P in c["lists"]:
        ops += [dict(o, ras=S) for _, o in kinds] + [dict(o, ras=P) for _, o in kinds]
    return {"conf": {"toml": toml}, "inputs": [{"text": c["text"]}], "ops": ops}


def new_meta_stats(n):
    return {"sessions": n, "lists": 0, "lists_checked": 0, "lists_skipped_single_rejected": 0, "list_rejected_but_singles_accepted": 0,
            "singles": 0, "singles_rejected": 0, "comparisons": 0, "lists_with_unscoped_inline_flag": 0,
            "lists_where_a_leaked_(?i)_would_add_a_name (python re as bystander)": 0, "lists_listing_a_proper_subset": 0}


def metamorphic(run, toml):
    r = run.rng
    n = 14 if run.tier == "quick" else 300
    sessions = [gen_meta_session(r) for _ in range(n)]
    reqs = []
    for c in sessions:
        c["text"] = build_journal(r, c["accounts"], c["zero_accounts"])
        reqs.append(meta_request(c, toml))
    res = harness_run(reqs)
    st = new_meta_stats(n)
    judge_meta(run, sessions, res, st)
    run.cov["evaluations"] += st["comparisons"]
    run.notes["metamorphic"] = st


def judge_meta(run, sessions, res, st):
    kinds = META_KINDS
    for c, rr in zip(sessions, res):
        if not rr or rr.get("stage") != "done":
            raise Infra("metamorphic session not loaded: %s" % ((rr or {}).get("err", "") or rr)[:300])
        rs = rr["results"]
        unf_b, unf_r = rs[0], rs[1]
        if "ok" not in unf_b or "ok" not in unf_r:
            raise Infra("unselected output missing")
        unf = {"report": bal_rows(unf_b), "equity": bal_rows(unf_b), "register": reg_rows_of(unf_r)}
        single = {}
        for i, p in enumerate(c["singles"]):
            single[p] = {kn: rs[2 + 3 * i + j] for j, (kn, _) in enumerate(kinds)}
            st["singles"] += 1
            st["singles_rejected"] += any("ok" not in o for o in single[p].values())
        base = 2 + 3 * len(c["singles"])
        for li, (S, P) in enumerate(c["lists"]):
            st["lists"] += 1
            outs = {kn: rs[base + 6 * li + j] for j, (kn, _) in enumerate(kinds)}
            outp = {kn: rs[base + 6 * li + 3 + j] for j, (kn, _) in enumerate(kinds)}
            if any("ok" not in single[p][kn] for p in S for kn, _ in kinds):
                st["lists_skipped_single_rejected"] += 1
                continue
            if any("ok" not in o for o in list(outs.values()) + list(outp.values())):
                st["list_rejected_but_singles_accepted"] += 1
                continue
            st["lists_checked"] += 1
            st["lists_with_unscoped_inline_flag"] += any(pyre.match(r"\(\?[a-zA-Z-]+\)", p) or pyre.search(r"[^\\]\(\?[a-zA-Z-]+\)", p) for p in S)
            try:
                leak = False
                for k2, p in enumerate(S):
                    if "(?i)" in p:
                        for q in S[k2 + 1:]:
                            for a in c["accounts"]:
                                if pyre.fullmatch(q, a, pyre.I) and not any(pyre.fullmatch(x, a) for x in S):
                                    leak = True
                st["lists_where_a_leaked_(?i)_would_add_a_name (python re as bystander)"] += leak
            except pyre.error:
                pass
            for kn, _ in kinds:
                st["comparisons"] += 1
                what = None
                if kn == "register":
                    keys = set(k for p in S for e in reg_rows_of(single[p][kn]) for k, _ in e)
                    want = [[row for row in e if row[0] in keys] for e in unf[kn]]
                    got, gotp = reg_rows_of(outs[kn]), reg_rows_of(outp[kn])
                else:
                    keys = set(k for p in S for k, _ in bal_rows(single[p][kn]))
                    want = [row for row in unf[kn] if row[0] in keys]
                    got, gotp = bal_rows(outs[kn]), bal_rows(outp[kn])
                    if kn == "report" and 0 < len(got) < len(unf[kn]):
                        st["lists_listing_a_proper_subset"] += 1
                    # every single-pattern run lists rows of the unselected output with identical figures
                    for p in S:
                        if any(row not in unf[kn] for row in bal_rows(single[p][kn])):
                            what = "a row listed for the single selector %r is not a row of the unselected output with the same figures" % p
                    if what is None and not (deltas_recomputed(outs[kn]) and deltas_recomputed(outp[kn])):
                        what = "a delta is not the sum of the listed own sums"
                if what is None and got != want:
                    extra = [k for k, _ in (got if kn != "register" else [x for e in got for x in e]) if k not in keys]
                    what = ("the selector list does not list exactly the rows listed by at least one of its selectors alone"
                            + (" (listed although no single selector lists it: %s)" % sorted(set(extra))[:6] if extra else ""))
                if what is None and gotp != got:
                    what = "the listed rows depend on the order of the selectors"
                if what is None and kn != "register" and outs[kn]["ok"]["deltas"] != outp[kn]["ok"]["deltas"]:
                    what = "the deltas depend on the order of the selectors"
                if what is not None:
                    run.violation("account selection (%s), metamorphic: %s" % (kn, what),
                                  {"journal": c["text"], "selectors": S, "selectors_permuted": P, "operation": kn,
                                   "listed_by_each_selector_alone": {p: sorted(set(k[0] for k in (
                                       [x for x, _ in bal_rows(single[p][kn])] if kn != "register" else
                                       [x for e in reg_rows_of(single[p][kn]) for x, _ in e]))) for p in S},
                                   "selected_output": outs[kn], "selected_output_permuted": outp[kn],
                                   "unselected_output": unf_b if kn != "register" else unf_r,
                                   "replay_hint": "tackler --config <base.toml> --input.file <journal> --reports %s --accounts <selectors>; "
                                                  "compare with one run per selector" % ("register" if kn == "register" else "balance"),
                                   "case": {"stream": "metamorphic", "text": c["text"], "accounts": c["accounts"], "lists": [[S, P]], "kind": kn}})


def main(run, only=None):
    """only: the cases of a replay of the AST stream, each with its journal text (no generation, no proof stage, no probe,
    no metamorphic stream, no verdict)"""
    r = run.rng
    if only is None:
        info = proof_stage(run, "C11", extra_targets=["corr/C11_corr.vo"])
        harness_build()
        n = 36 if run.tier == "quick" else 1200
        cases = load_corpus() + [gen_case(r, big=(i % 6 == 0)) for i in range(n)]
    else:
        cases = only
    toml = J.make_toml()
    reqs = []
    for c in cases:
        if only is None:
            c["text"] = build_journal(r, c["accounts"], c["zero_accounts"])
        c["texts"] = [[pp(p) for p in s] for s in c["selectors"]]
        ops = [{"op": "txns"}, {"op": "balance", "prices": False, "ras": []}, {"op": "register", "ras": []}]
        for t in c["texts"]:
            ops += [{"op": "balance", "prices": False, "ras": t}, {"op": "balance", "prices": False, "ras": t, "kind": "equity"},
                    {"op": "register", "ras": t}]
        reqs.append({"conf": {"toml": toml}, "inputs": [{"text": c["text"]}], "ops": ops})
    # F15 probe: a pattern that is not a regular expression on its own must be rejected (fixed: f40ad68);
    # '(?x) a # comment' is valid on its own but breaks inside the one-line wrapper (second half of F15)
    probe_txt = "2024-01-01\n a  1\n a:b  2\n ab  3\n zzz  4\n e  -10\n"
    if only is None:
        reqs.append({"conf": {"toml": toml}, "inputs": [{"text": probe_txt}],
                     "ops": [{"op": "balance", "prices": False, "ras": ["a)|(?:zzz"]},
                             {"op": "balance", "prices": False, "ras": ["(?x) a # comment"]}]})
    res = harness_run(reqs)
    probe = res[-1] if only is None else None
    try:
        p0, p1 = probe["results"]
        run.notes["F15_probe"] = {
            "pattern 'a)|(?:zzz' (not a regex on its own)": ("accepted, lists " + ",".join(x["acc"] for x in p0["ok"]["rows"])) if "ok" in p0 else "rejected",
            "pattern '(?x) a # comment' (valid on its own)": "accepted" if "ok" in p1 else "rejected"}
    except Exception:
        run.notes["F15_probe"] = "probe did not run"
    terms, meta = [], []
    stages = {}
    for ci, (c, rr) in enumerate(zip(cases, res)):
        st = rr.get("stage") if rr else "none"
        stages[st] = stages.get(st, 0) + 1
        if st != "done":
            if c["src"] != "gen" or st in ("load",):
                raise Infra("case %s: journal not loaded (%s): %s" % (c["src"], st, (rr or {}).get("err", "")[:300]))
            continue
        rs = rr["results"]
        txns = rs[0].get("ok")
        if txns is None:
            raise Infra("txns op failed")
        ps_all = g_bposts_of([p for t in txns for p in t["posts"]])
        tx_all = g_list([g_bposts_of(t["posts"]) for t in txns])
        unf_b, unf_r = rs[1], rs[2]
        for k, (pats, texts) in enumerate(zip(c["selectors"], c["texts"])):
            b_rep, b_eq, reg = rs[3 + 3 * k], rs[4 + 3 * k], rs[5 + 3 * k]
            gp = g_list([g_re(p) for p in pats])
            gt = g_list([g_str(t) for t in texts])
            for kind, out, unf in (("report", b_rep, unf_b), ("equity", b_eq, unf_b)):
                terms.append("c11_bal_case %s %s %s %s %s %s" % (ps_all, g_bool(kind == "equity"), gp, gt,
                                                                  opt_of(unf, g_report), opt_of(out, g_report)))
                meta.append((ci, k, kind, out, unf))
            terms.append("c11_reg_case %s %s %s %s %s" % (tx_all, gp, gt, opt_of(unf_r, g_reg), opt_of(reg, g_reg)))
            meta.append((ci, k, "register", reg, unf_r))
    vals, errs = coq_eval("C11", IMPORTS, terms)
    if errs:
        raise Infra("coq evaluation failed: " + errs[0])
    distinct = set()
    st = {"pairs": 0, "pairs_full": 0, "pairs_search_but_not_full": 0, "pairs_where_dropping_group_differs": 0, "python_re_rejects": 0}
    outcome = {"all_rows": 0, "no_row": 0, "proper_subset": 0, "selector_rejected": 0}
    n_dom = 0
    feats = {}
    for (ci, k, kind, out, unf), v in zip(meta, vals):
        c = cases[ci]
        bits = as_N(v)
        if bits is None:
            raise Infra("no result for case %d/%d/%s" % (ci, k, kind))
        run.cov["evaluations"] += 1
        texts = c["texts"][k]
        if not (bits & 8):
            raise Infra("python printer and Coq pp disagree (or AST not well formed): %r" % (texts,))
        if c.get("expect_text") and c["expect_text"][k] != texts:
            raise Infra("corpus %s: printed text %r differs from the recorded %r" % (c["src"], texts, c["expect_text"][k]))
        if kind == "report":
            py_stats(texts, c["accounts"], st)
            for p in c["selectors"][k]:
                for node in nodes(p):
                    feats[node] = feats.get(node, 0) + 1
            if "ok" in out and "ok" in unf:
                nl, nu = len(out["ok"]["rows"]), len(unf["ok"]["rows"])
                outcome["all_rows" if nl == nu else "no_row" if nl == 0 else "proper_subset"] += 1
                if 0 < nl < nu:
                    distinct.add(json.dumps([texts, sorted(set(x["acc"] for x in out["ok"]["rows"]))], ensure_ascii=False))
            else:
                outcome["selector_rejected"] += 1
        if len(run.cov["samples"]) < 4 and kind == "report" and "ok" in out and 0 < len(out["ok"]["rows"]):
            run.cov["samples"].append({"selectors": texts, "accounts": c["accounts"],
                                       "listed": [x["acc"] for x in out["ok"]["rows"]], "bits": bits})
        if not (bits & 4):
            continue
        n_dom += 1
        rep = {"journal": c["text"], "selectors": texts, "selector_asts": [list(map(str, c["selectors"][k]))],
               "operation": kind, "unselected_output": unf, "selected_output": out, "source": c["src"],
               "case": {"stream": "ast", "text": c["text"], "accounts": c["accounts"], "selectors": [c["selectors"][k]], "kind": kind},
               "replay_hint": "tackler --config <base.toml> --input.file <journal> --reports %s --accounts <selectors>" %
                              ("register" if kind == "register" else "balance")}
        if "ok" in out and "ok" in unf and not (bits & 2):
            run.violation("account selection (%s): listed rows are not exactly the rows of the unselected output whose whole "
                          "account name matches a selector, or a figure / delta differs" % kind, rep)
        elif not (bits & 1):
            run.cov["disagreements_checked"] += 1
            rep["correspondence"] = "C11_corr.c11_%s_case" % ("reg" if kind == "register" else "bal")
            run.violation("correspondence broken: model Select.selected_%s differs from implementation (spec oracle clean or selector rejected)"
                          % ("register" if kind == "register" else "balance"), rep, found_input=False)
    if only is not None:
        return None
    metamorphic(run, toml)
    run.cov["distinct_nontrivial"] = len(distinct)
    run.cov["rule"] = ("sessions = journal posting every generated account name + 2-6 selector lists (1-3 patterns each) evaluated by "
                       "balance report, equity selection and register, each compared with the unselected output; patterns = random ASTs "
                       "of the subset (45%: one edit away from a literal account name: own ^/$, top-level alternation, .*, optional tail, "
                       "anchor in the middle) printed by the Coq-checked printer; account names = strings sampled from the patterns and "
                       "their neighbours extended/shortened/perturbed on either side; non-trivial = selection lists a proper non-empty "
                       "subset of the rows; distinct = distinct (selector texts, listed names). Metamorphic stream (black box, no regex oracle): selector lists "
                       "of 2-4 patterns incl. inline flags ((?i) (?i:..) (?s) (?x) (?U) (?-i)), \\d \\w \\b \\p{..} [[:alpha:]] {n,m} lazy quantifiers on journals "
                       "with case variants of the account names: rows(S) = rows of the unselected output listed by >= 1 single selector, "
                       "independent of the order of S, deltas recomputed; balance report, equity selector and register")
    run.notes.update({"stages": stages, "in_exact_domain": n_dom, "selection_outcomes": outcome, "ast_nodes": feats,
                      "pattern_name_pairs (python re as bystander)": st, "sessions": len(cases)})
    return run.finish(info)


def replay(run, path):
    """AST stream: the stored journal + one selector list (ASTs) through balance / equity selection / register + c11_*_case;
    metamorphic stream: the stored journal + list + permutation + every single pattern through judge_meta.
    Only the operation of the stored violation counts."""
    j, rp, rc = replay_begin(run, path)
    if rc is not None:
        return rc
    cs = rp.get("case")
    if not (isinstance(cs, dict) and cs.get("stream") in ("ast", "metamorphic") and isinstance(cs.get("text"), str)):
        return replay_print(j)
    print(j.get("what"))
    print("journal:\n%s" % cs["text"])
    kind = cs.get("kind")
    harness_build()
    if cs["stream"] == "ast":
        c = {"text": cs["text"], "accounts": list(cs.get("accounts") or []), "zero_accounts": [],
             "selectors": [[to_tuple(p) for p in sl] for sl in cs["selectors"]], "src": "replay"}
        print("selectors: %s (operation %s)" % ([[pp(p) for p in sl] for sl in c["selectors"]], kind))
        corr_build("C11")
        main(run, only=[c])
    else:
        c = {"text": cs["text"], "accounts": list(cs.get("accounts") or []), "zero_accounts": [],
             "lists": [(list(S), list(P)) for S, P in cs["lists"]]}
        print("selector lists: %s (operation %s)" % (c["lists"], kind))
        st = new_meta_stats(1)
        judge_meta(run, [c], harness_run([meta_request(c, J.make_toml())]), st)
        print(json.dumps(st))
    return replay_verdict(run, path, j, "account selection (%s) on the stored journal and selector list is as specified%s"
                          % (kind, " and the model agrees" if cs["stream"] == "ast" else " (metamorphic relations hold)"),
                          only=lambda v: kind is None or v[1].get("operation") == kind)
