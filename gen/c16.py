# C16 — time stamps are instants; zone defaults as configured; report zone display-only
import json, os, copy, datetime, zoneinfo
from common import *
import journal as J

IMPORTS = ("From TkModel Require Import Base Dec Acct Txn Tstamp.\nFrom TkSpec Require Import Tstamp_spec.\n"
           "From TkCorr Require Import C16_corr.\n")

NSEC = 10 ** 9
JZONES = ["Europe/Helsinki", "America/New_York", "Australia/Lord_Howe", "Asia/Kathmandu", "UTC"]
# report zones: (name, fixed offset or None = look it up)
RZONES = [("UTC", 0), ("Etc/GMT-14", 50400), ("Etc/GMT+12", -43200), ("Europe/Helsinki", None),
          ("America/St_Johns", None), ("Asia/Kathmandu", None), ("Pacific/Chatham", None), ("Australia/Lord_Howe", None)]
UTC = datetime.timezone.utc
EPOCH = datetime.datetime(1970, 1, 1, tzinfo=UTC)


# ---------------------------------------------------------------- AST of a time stamp
def render(a):
    s = "%04d-%02d-%02d" % (a["y"], a["m"], a["d"])
    if a["k"] == "date":
        return s
    s += "T%02d:%02d:%02d" % (a["h"], a["mi"], a["s"])
    if a.get("frac") is not None:
        s += "." + a["frac"]
    if a["k"] == "zoned":
        z = a["zone"]
        s += "Z" if z == "Z" else "%s%02d:%02d" % (z[0], z[1], z[2])
    return s


def g_ast(a):
    ymd = "%s %s %s" % (g_Z(a["y"]), g_Z(a["m"]), g_Z(a["d"]))
    if a["k"] == "date":
        return "(TsDate %s)" % ymd
    hms = "%s %s %s" % (g_Z(a["h"]), g_Z(a["mi"]), g_Z(a["s"]))
    fr = g_opt(a.get("frac"), g_str)
    if a["k"] == "local":
        return "(TsLocal %s %s %s)" % (ymd, hms, fr)
    z = a["zone"]
    zt = "ZZulu" if z == "Z" else "(ZOff %s %s %s)" % (g_bool(z[0] == "-"), g_Z(z[1]), g_Z(z[2]))
    return "(TsZoned %s %s %s %s)" % (ymd, hms, fr, zt)


def frac_ns(fr):
    return 0 if fr is None else int(fr) * 10 ** (9 - len(fr))


def civ_key(y, m, d, h, mi, s):
    return ((((y * 13 + m) * 32 + d) * 24 + h) * 60 + mi) * 60 + s


def valid_date(y, m, d):
    try:
        datetime.date(y, m, d)
        return True
    except ValueError:
        return False


def civil_of(cfg, a):
    """(y,m,d,h,mi,s,ns) the AST names under cfg"""
    if a["k"] == "date":
        h, mi, s, ns = cfg["deftime"]
        return (a["y"], a["m"], a["d"], h, mi, s, ns)
    return (a["y"], a["m"], a["d"], a["h"], a["mi"], a["s"], frac_ns(a.get("frac")))


def zone_oracle(name, civ):
    """tz database lookups for a named journal zone (independent implementation: Python zoneinfo;
    fold=0 = jiff's 'compatible': offset before the transition in gaps and folds).
    returns (offset used for the conversion, instant ns, offset in force at the instant) or None"""
    y, m, d, h, mi, s, ns = civ
    if not (1921 <= y <= 2200 and valid_date(y, m, d) and h < 24 and mi < 60 and s < 60):
        return None
    zi = zoneinfo.ZoneInfo(name)
    conv = int(datetime.datetime(y, m, d, h, mi, s, tzinfo=zi).utcoffset().total_seconds())
    sec = (datetime.date(y, m, d).toordinal() - 719163) * 86400 + h * 3600 + mi * 60 + s - conv
    ioff = int((EPOCH + datetime.timedelta(seconds=sec)).astimezone(zi).utcoffset().total_seconds())
    return conv, sec * NSEC + ns, ioff


def rzone_off(name, fixed, ns):
    if fixed is not None:
        return fixed
    sec = ns // NSEC
    if not (-1546300800 <= sec <= 7258118400):      # 1921 .. 2200
        return None
    return int((EPOCH + datetime.timedelta(seconds=sec)).astimezone(zoneinfo.ZoneInfo(name)).utcoffset().total_seconds())


def off_str(o):
    a = abs(o)
    s = "%s%02d:%02d" % ("-" if o < 0 else "+", a // 3600, a % 3600 // 60)
    return s + (":%02d" % (a % 60) if a % 60 else "")


def cfg_toml_kw(cfg):
    h, mi, s, ns = cfg["deftime"]
    dt = "%02d:%02d:%02d" % (h, mi, s) + (("." + ("%09d" % ns).rstrip("0")) if ns else "")
    z = cfg["zone"]
    tz = 'offset = "%s"' % off_str(z[1]) if z[0] == "fixed" else 'name = "%s"' % z[1]
    return dict(deftime=dt, tz=tz, reg_ts=', timestamp-style = "full"')


def g_cfg(cfg, asts):
    h, mi, s, ns = cfg["deftime"]
    z = cfg["zone"]
    if z[0] == "fixed":
        zt = "(ZFixed %s)" % g_Z(z[1])
    else:
        tc, ti = {}, {}
        for a in asts:
            if a is None or a["k"] == "zoned":
                continue
            civ = civil_of(cfg, a)
            o = zone_oracle(z[1], civ)
            if o is not None:
                tc[civ_key(*civ[:6])] = o[0]
                ti[o[1]] = o[2]
        zt = "(table_zone %s %s)" % (g_list(["(%s, %s)" % (g_Z(k), g_Z(v)) for k, v in sorted(tc.items())]),
                                     g_list(["(%s, %s)" % (g_Z(k), g_Z(v)) for k, v in sorted(ti.items())]))
    return "(mkTsCfg %s %s %s %s %s)" % (g_Z(h), g_Z(mi), g_Z(s), g_Z(ns), zt)


# ---------------------------------------------------------------- generators
def rand_frac(r):
    n = r.randint(1, 9)
    k = r.random()
    if k < 0.15:
        return "0" * n
    body = "".join(r.choice("0123456789") for _ in range(n))
    if k < 0.55:                          # trailing zeros
        z = r.randint(1, n)
        body = body[:n - z] + "0" * z
    return body


def rand_date(r, named):
    k = r.random()
    if named:
        y = r.choice([1921, 1970, 1999, 2000, 2023, 2024, 2024, 2025, 2038, 2100, 2200])
    elif k < 0.12:
        y = r.choice([0, 1, 999, 1000, 1582, 9998, 9999])
    elif k < 0.2:
        y = r.choice([1969, 1970, 1971])
    else:
        y = r.choice([1900, 1999, 2000, 2023, 2024, 2024, 2025, 2038, 2100, 2400])
    k = r.random()
    if k < 0.15:
        m, d = 2, r.choice([28, 29])
    elif k < 0.3:
        m, d = r.choice([(12, 31), (1, 1), (3, 1), (2, 28), (12, 30), (6, 30), (7, 31)])
    else:
        m, d = r.randint(1, 12), r.randint(1, 28)
    if not valid_date(max(y, 1), m, d) and not (y == 0 and m == 2 and d == 29):
        d = 28
    if y == 9999 and m == 12 and d > 28:
        d = 28                            # the last days of 9999 are the "range-edge" cases
    return y, m, d


def rand_zone(r):
    k = r.random()
    if k < 0.2:
        return "Z"
    if k < 0.45:
        return r.choice([("+", 23, 59), ("-", 23, 59), ("+", 0, 0), ("-", 0, 0), ("+", 14, 0), ("-", 12, 0),
                         ("+", 25, 59), ("-", 25, 59), ("+", 24, 0), ("+", 0, 99), ("+", 24, 99), ("-", 5, 45)])
    return (r.choice("+-"), r.randint(0, 14), r.choice([0, 0, 30, 45, r.randint(0, 59)]))


def rand_ast(r, named=False, kind=None):
    y, m, d = rand_date(r, named)
    k = kind or r.choice(["date", "local", "local", "zoned", "zoned", "zoned"])
    a = {"k": k, "y": y, "m": m, "d": d}
    if k != "date":
        a["h"], a["mi"], a["s"] = r.choice([(0, 0, 0), (23, 59, 59), (12, 0, 0)]) if r.random() < 0.25 else \
            (r.randint(0, 23), r.randint(0, 59), r.randint(0, 59))
        a["frac"] = rand_frac(r) if r.random() < 0.6 else None
    if k == "zoned":
        a["zone"] = rand_zone(r)
    return a


def respell(r, cfg, a):
    """other notations of the same instant as the zoned AST a (exact, by construction)"""
    out = []
    z = a["zone"]
    off = 0 if z == "Z" else (-1 if z[0] == "-" else 1) * (z[1] * 3600 + z[2] * 60)
    if not (1 <= a["y"] <= 9998):
        return out
    base = datetime.datetime(a["y"], a["m"], a["d"], a["h"], a["mi"], a["s"]) - datetime.timedelta(seconds=off)  # UTC civil

    def mk(kind, dt, zone=None):
        b = {"k": kind, "y": dt.year, "m": dt.month, "d": dt.day, "h": dt.hour, "mi": dt.minute, "s": dt.second,
             "frac": a.get("frac")}
        if zone is not None:
            b["zone"] = zone
        return b
    try:
        out.append(mk("zoned", base, "Z"))
        o2 = r.choice([1, -1]) * (r.randint(0, 23) * 3600 + r.randint(0, 59) * 60)
        out.append(mk("zoned", base + datetime.timedelta(seconds=o2), ("-" if o2 < 0 else "+", abs(o2) // 3600, abs(o2) % 3600 // 60)))
        if cfg["zone"][0] == "fixed":
            co = cfg["zone"][1]
            loc = base + datetime.timedelta(seconds=co)
            out.append(mk("local", loc))
            h, mi, s, ns = cfg["deftime"]
            if (loc.hour, loc.minute, loc.second) == (h, mi, s) and frac_ns(a.get("frac")) == ns:
                out.append({"k": "date", "y": loc.year, "m": loc.month, "d": loc.day})
    except OverflowError:
        pass
    return out


DST = [("Europe/Helsinki", (2024, 3, 31, 3, 30, 0)), ("Europe/Helsinki", (2024, 10, 27, 3, 30, 0)),
       ("Europe/Helsinki", (2024, 3, 31, 2, 59, 59)), ("Europe/Helsinki", (2024, 3, 31, 4, 0, 0)),
       ("Europe/Helsinki", (2024, 10, 27, 4, 0, 0)), ("Europe/Helsinki", (2024, 10, 27, 2, 59, 59)),
       ("America/New_York", (2024, 3, 10, 2, 30, 0)), ("America/New_York", (2024, 11, 3, 1, 30, 0)),
       ("Australia/Lord_Howe", (2024, 4, 7, 1, 45, 0)), ("Australia/Lord_Howe", (2024, 10, 6, 2, 15, 0))]


def mutate_text(r, t):
    """malformed or differently-formed text (no blanks, quotes or parentheses: the header line
    continues with " 'desc")"""
    k = r.randint(0, 15)
    if k == 0 and len(t) > 1:
        i = r.randrange(len(t)); return t[:i] + t[i + 1:], "drop-char"
    if k == 1:
        i = r.randrange(len(t)); return t[:i] + r.choice("0123456789") + t[i:], "extra-digit"
    if k == 2:
        return t.replace("T", r.choice(["t", "_", "TT"]), 1), "bad-T"
    if k == 3:
        return t.replace(":", r.choice([".", "", "-"]), 1), "bad-colon"
    if k == 4:
        return t.replace("-", r.choice(["/", "", ":"]), 1), "bad-dash"
    if k == 5:
        return t + r.choice(["z", "+0200", "+02", "+2:00", "+02:0", "+02:00:00", "Z+00:00", "ZZ", "+", "-"]), "bad-zone-suffix"
    if k == 6:
        return t.replace("Z", "z"), "lower-z"
    if k == 7:
        return (t[:19] + "." + t[19:]) if len(t) >= 19 else t + ".", "dot-no-digits"
    if k == 8:
        return (t[:19] + "." + "1234567890"[:r.choice([10, 10, 11])] + "123"[:r.randint(0, 1)] + t[19:]) if len(t) >= 19 and t[19:20] != "." else t + "0", "frac-10-digits"
    if k == 9:
        return t[:4] + r.choice(["0", ""]) + t[4:] if r.random() < 0.5 else t[1:], "year-width"
    if k == 10:
        return "+" + t, "leading-sign"
    if k == 11:
        return t.replace(".", ",", 1), "comma-fraction"
    if k == 12:
        return t[:16] if len(t) >= 19 else t[:7], "truncated"
    if k == 13:
        return t + r.choice(["T", "T00", ".5", ":00", "0"]), "suffix"
    if k == 14:
        return t.replace("+", "−" if r.random() < 0.5 else "++", 1), "bad-sign"
    return t.replace("0", "٠", 1), "non-ascii-digit"


def bad_value(r, a):
    """AST with one field out of its range (rendered in the right widths)"""
    a = copy.deepcopy(a)
    k = r.randint(0, 8)
    if k == 0:
        a["m"] = r.choice([0, 13, 99]); return a, "month-range"
    if k == 1:
        a["d"] = r.choice([0, 32, 99]); return a, "day-range"
    if k == 2:
        a["m"], a["d"] = r.choice([(2, 30), (4, 31), (6, 31), (9, 31), (11, 31)]); return a, "day-of-month"
    if k == 3:
        a["y"], a["m"], a["d"] = r.choice([1900, 2023, 2100, 2200, 1]), 2, 29; return a, "not-leap"
    if a["k"] == "date":
        a["y"], a["m"], a["d"] = 9999, 12, 31; return a, "max-date"
    if k == 4:
        a["h"] = r.choice([24, 25, 99]); return a, "hour-range"
    if k == 5:
        a["mi"] = r.choice([60, 99]); return a, "minute-range"
    if k == 6:
        a["s"] = r.choice([60, 61, 99]); return a, "second-range"
    if a["k"] == "zoned":
        a["zone"] = r.choice([("+", 26, 0), ("-", 26, 0), ("+", 25, 60), ("-", 99, 99), ("+", 25, 99)]); return a, "offset-range"
    a["y"], a["m"], a["d"] = 9999, 12, r.choice([30, 31]); a["h"] = 23; return a, "max-instant"


def rand_cfg(r, named=None):
    dt = r.choice([(0, 0, 0, 0), (12, 34, 56, 789000000), (23, 59, 59, 999999999), (6, 0, 0, 500000000), (0, 0, 1, 1)])
    if named is None:
        named = r.random() < 0.3
    if named:
        return {"deftime": dt, "zone": ["named", r.choice(JZONES)]}
    o = r.choice([0, 7200, -18000, 20700, 45900, -34200, 50400, -43200, 93540, -93540, 9015, -1])
    if o == -1:
        o = r.choice([1, -1]) * (r.randint(0, 25) * 3600 + r.randint(0, 59) * 60)
    return {"deftime": dt, "zone": ["fixed", o]}


def epoch_case(r):
    """fractional time stamps within hours of 1970-01-01T00:00Z, written so that civil date and instant
    often lie on DIFFERENT sides of the epoch (where jiff alone builds a mixed-sign pair; the class of the
    repaired finding F17), in all three notations, with other spellings of the same instants (equality
    by instant: the order must fall back to the description) and neighbours 0.1 s / 1 ns away"""
    zoff = r.choice([0, 3600, -3600, 7200, -34200, 45900])
    dfrac = r.choice([0, 500000000, 1, 999999999])
    cfg = {"deftime": (0, 0, 0, dfrac), "zone": ["fixed", zoff]}
    tss = []

    def spell(sec, fr, kind=None):
        """the instant sec (+ fraction fr) seconds after the epoch, in a random notation"""
        kind = kind or r.choice(["zoned", "zoned", "zoned", "local"])
        if kind == "local":
            off = zoff
        else:
            off = r.choice([0, 3600, -3600, 7200, -7200, 86340, -86340, 20700, -34200])
        loc = datetime.datetime(1970, 1, 1) + datetime.timedelta(seconds=sec + off)
        a = {"k": kind, "y": loc.year, "m": loc.month, "d": loc.day, "h": loc.hour, "mi": loc.minute, "s": loc.second, "frac": fr}
        if kind == "zoned":
            a["zone"] = "Z" if off == 0 and r.random() < 0.5 else ("-" if off < 0 else "+", abs(off) // 3600, abs(off) % 3600 // 60)
        return a

    for _ in range(r.randint(1, 3)):
        sec = r.choice([r.randint(-5400, 5400), r.randint(-90000, 90000), -3600, -1, 0, 1, 3599])
        fr = r.choice(["5", "4", "6", "000000001", "999999999", "50", "5", "25", None])
        tss.append(spell(sec, fr))
        k = r.random()
        if k < 0.5:                                   # the same instant, written differently
            fr2 = fr if fr is None or r.random() < 0.5 else (fr + "0" * r.randint(0, 9 - len(fr)))
            tss.append(spell(sec, fr2))
        if k > 0.3 and fr is not None:                # a neighbour: 0.1 s or 1 ns earlier / later
            n = sec * NSEC + frac_ns(fr) + r.choice([-100000000, 100000000, -1, 1])
            tss.append(spell(n // NSEC, ("%09d" % (n % NSEC)).rstrip("0") or None))
    if r.random() < 0.35:
        # date only: the default time (with its fraction) in the journal zone, next to the epoch
        tss.append({"k": "date", "y": r.choice([1969, 1970, 1970]), "m": 0, "d": 0})
        tss[-1]["m"], tss[-1]["d"] = (12, 31) if tss[-1]["y"] == 1969 else (1, r.choice([1, 1, 2]))
    r.shuffle(tss)
    return cfg, tss


def gen_cases(run, n):
    """a case = one configuration + time stamps loaded as ONE journal (or one text expected to be refused)"""
    r = run.rng
    cases = []
    cdir = os.path.join(VERIF, "corpus", "C16")
    if os.path.isdir(cdir):
        for f in sorted(os.listdir(cdir)):
            if f.endswith(".json"):
                c = json.load(open(os.path.join(cdir, f)))
                c["src"] = "corpus/" + f
                c.setdefault("tags", ["corpus"])
                c["cfg"]["deftime"] = tuple(c["cfg"]["deftime"])
                for a in c["tss"]:
                    if isinstance(a.get("zone"), list):
                        a["zone"] = tuple(a["zone"])
                c["items"] = [(a, render(a)) for a in c["tss"]] + [(None, t) for t in c.get("texts", [])]
                if c.get("each"):
                    for it in c["items"]:
                        cases.append({"cfg": c["cfg"], "items": [it], "tags": c["tags"], "src": c["src"]})
                else:
                    cases.append(c)
    for i in range(n):
        k = r.random()
        if k < 0.36:
            # several valid time stamps, among them other spellings of the same instants
            cfg = rand_cfg(r)
            named = cfg["zone"][0] == "named"
            tss = []
            for _ in range(r.randint(1, 3)):
                a = rand_ast(r, named)
                tss.append(a)
                if a["k"] == "zoned" and r.random() < 0.7:
                    alt = respell(r, cfg, a)
                    tss += r.sample(alt, k=min(2, len(alt)))
            r.shuffle(tss)
            cases.append({"cfg": cfg, "items": [(a, render(a)) for a in tss], "tags": ["multi"] + (["named-zone"] if named else [])})
        elif k < 0.44:
            zn, civ = r.choice(DST)
            cfg = {"deftime": (civ[3], civ[4], civ[5], 250000000), "zone": ["named", zn]}
            a = {"k": "local", "y": civ[0], "m": civ[1], "d": civ[2], "h": civ[3], "mi": civ[4], "s": civ[5],
                 "frac": r.choice([None, "25", "999999999"])}
            b = {"k": "date", "y": civ[0], "m": civ[1], "d": civ[2]}
            cases.append({"cfg": cfg, "items": [(a, render(a)), (b, render(b))], "tags": ["dst-gap-or-fold"]})
        elif k < 0.56:
            cfg, tss = epoch_case(r)
            cases.append({"cfg": cfg, "items": [(a, render(a)) for a in tss], "tags": ["epoch-window"]})
        elif k < 0.62:
            # range edge: the largest instants
            cfg = rand_cfg(r, named=False)
            a = {"k": r.choice(["zoned", "local"]), "y": 9999, "m": 12, "d": r.choice([29, 30, 30, 31]),
                 "h": r.choice([0, 21, 22, 23]), "mi": r.choice([0, 59]), "s": r.choice([0, 59]), "frac": r.choice([None, "999999999"])}
            if a["k"] == "zoned":
                a["zone"] = r.choice(["Z", ("+", 25, 59), ("-", 25, 59), ("-", 2, 0), ("+", 2, 0)])
            cases.append({"cfg": cfg, "items": [(a, render(a))], "tags": ["range-edge"]})
        elif k < 0.8:
            cfg = rand_cfg(r, named=False)
            a, tag = bad_value(r, rand_ast(r))
            cases.append({"cfg": cfg, "items": [(a, render(a))], "tags": ["bad-value:" + tag]})
        else:
            cfg = rand_cfg(r, named=False)
            a = rand_ast(r)
            t, tag = mutate_text(r, render(a))
            cases.append({"cfg": cfg, "items": [(None, t)], "tags": ["mutated:" + tag]})
    return cases


def journal_of(items):
    return "\n".join("%s 't%d\n e:x  %d\n a\n" % (t, k, k + 1) for k, (_, t) in enumerate(items))


def parse_labels(text, marker):
    """header lines 'label 'tN' of the identity export / the register text -> {desc: label}"""
    out = {}
    for line in text.split("\n"):
        if line and (line[0].isdigit() or line[0] == "-") and marker in line:
            lab, desc = line.split(marker, 1)
            out[desc.strip()] = lab
    return out


def case_of(c):
    """what ./check C16 --replay needs: configuration, time stamps (AST or None, text) of the one journal, report zones"""
    return {"cfg": c["cfg"], "items": c["items"], "tags": c["tags"], "rzones": c["rzones"]}


def main(run, only=None):
    """only: the cases of a replay, with their report zones (no generation, no proof stage, no verdict)"""
    if only is None:
        info = proof_stage(run, "C16", extra_targets=["corr/C16_corr.vo"])
        harness_build()
        n = 400 if run.tier == "quick" else 4000
        cases = gen_cases(run, n)
    else:
        cases = only
    r = run.rng
    reqs, rmap = [], []
    for ci, c in enumerate(cases):
        kw = cfg_toml_kw(c["cfg"])
        text = journal_of(c["items"])
        c["journal"] = text
        # report zones: UTC + two others (valid multi-transaction journals only get the extra runs)
        if only is None:
            multi = len(c["items"]) >= 2 or "corpus" in c["tags"] or r.random() < 0.3
            zs = [RZONES[0]] + (r.sample(RZONES[1:], 2) if multi else [])
            c["rzones"] = zs
        else:
            zs = c["rzones"]
        for zi, (zn, _) in enumerate(zs):
            ops = [{"op": "txns"}, {"op": "register"}, {"op": "balance", "prices": False}, {"op": "identity"}, {"op": "text_register"}]
            reqs.append({"conf": {"toml": J.make_toml(rtz=zn, **kw)}, "inputs": [{"text": text}], "ops": ops})
            rmap.append((ci, zi))
    res = harness_run(reqs)
    for c in cases:
        c["res"] = [None] * len(c["rzones"])
    for (ci, zi), rr in zip(rmap, res):
        cases[ci]["res"][zi] = rr

    terms, meta = [], []
    stages, tagc = {}, {}
    n_frame = n_disp = n_regorder = 0
    for ci, c in enumerate(cases):
        rr = c["res"][0] or {}
        st = rr.get("stage", "none")
        stages[st] = stages.get(st, 0) + 1
        for t in c["tags"]:
            tagc[t] = tagc.get(t, 0) + 1
        c["stage"] = st
        if st in ("config", "settings"):
            raise Infra("configuration refused: %s %s" % (c["cfg"], rr.get("err", "")[:300]))
        if st not in ("load", "done"):
            continue                                  # panic/abort: C15
        asts = [a for a, _ in c["items"]]
        gc = g_cfg(c["cfg"], asts)
        obs = {}
        if st == "done":
            txns = rr["results"][0].get("ok") or []
            obs = {t["desc"]: t for t in txns}
            c["order"] = [(int(t["ts"]["ns"]), t["desc"]) for t in txns]
        c["impl"] = []
        for k, (a, t) in enumerate(c["items"]):
            o = obs.get("t%d" % k)
            impl = "None" if o is None else "(Some (%s, %s))" % (g_Z(int(o["ts"]["ns"])), g_Z(o["ts"]["off"]))
            c["impl"].append(None if o is None else {"ns": o["ts"]["ns"], "off": o["ts"]["off"]})
            terms.append("c16_case %s %s %s %s" % (gc, g_opt(a, g_ast), g_str(t), impl))
            meta.append(("ts", ci, k))
        if st == "done" and all(a is not None for a in asts) and len(c["items"]) >= 1:
            inp = g_list(["(%s, %s)" % (g_ast(a), g_str("t%d" % k)) for k, (a, _) in enumerate(c["items"])])
            ob = g_list(["(%s, %s)" % (g_Z(nsv), g_str(d)) for nsv, d in c["order"]])
            terms.append("c16_order_case %s %s %s" % (gc, inp, ob))
            meta.append(("order", ci, 0))
        # frame property on the implementation: structured register and balance identical under every report zone
        if st == "done" and len(c["rzones"]) > 1:
            base = c["res"][0]["results"]
            for zi in range(1, len(c["rzones"])):
                o = c["res"][zi]
                n_frame += 1
                if not o or o.get("stage") != "done":
                    run.violation("journal accepted under report zone UTC but not under %s" % c["rzones"][zi][0],
                                  {"journal": c["journal"], "config": cfg_toml_kw(c["cfg"]), "report_zone": c["rzones"][zi][0],
                                   "result": {k: (o or {}).get(k) for k in ("stage", "err")}, "case": case_of(c)})
                    continue
                for oi, name in ((0, "transaction set / order"), (1, "register entries"), (2, "balance figures")):
                    if json.dumps(o["results"][oi], sort_keys=True) != json.dumps(base[oi], sort_keys=True):
                        run.violation("report time zone changes %s (must be display-only)" % name,
                                      {"journal": c["journal"], "config": cfg_toml_kw(c["cfg"]),
                                       "report_zones": ["UTC", c["rzones"][zi][0]],
                                       "under_UTC": base[oi], "under_other": o["results"][oi], "case": case_of(c)})
        # the register (structured and text) lists the transactions in the order of the transaction set
        if st == "done" and all(a is not None for a in asts):
            want = [d for _, d in c["order"]]
            reg = rr["results"][1].get("ok")
            if isinstance(reg, list):
                n_regorder += 1
                got = [e["txn"]["desc"] for e in reg]
                if got != want:
                    run.violation("register entries are not in the order of the transaction set (by instant)",
                                  {"journal": c["journal"], "config": cfg_toml_kw(c["cfg"]), "transaction_order": want, "register_order": got, "case": case_of(c)})
            txt = rr["results"][4].get("ok")
            if isinstance(txt, str):
                got = [ln.split(" '", 1)[1].strip() for ln in txt.split("\n") if ln[:1].isdigit() and " 't" in ln]
                if got != want:
                    run.violation("register text is not in the order of the transaction set (by instant)",
                                  {"journal": c["journal"], "config": cfg_toml_kw(c["cfg"]), "transaction_order": want, "register_text_order": got, "case": case_of(c)})
        # display: identity export (own offset) and register label (report zone)
        if st == "done":
            for zi, (zn, zfix) in enumerate(c["rzones"]):
                o = c["res"][zi]
                if not o or o.get("stage") != "done" or "ok" not in o["results"][3] or "ok" not in o["results"][4]:
                    continue
                ident = parse_labels(o["results"][3]["ok"], " '")
                regl = parse_labels(o["results"][4]["ok"], " '")
                for nsv, d in (c["order"] if zi == 0 else c["order"][:2]):
                    roff = rzone_off(zn, zfix, nsv)
                    if roff is None or d not in ident or d not in regl:
                        continue
                    off = obs[d]["ts"]["off"]
                    terms.append("c16_disp_case %s %s %s %s %s" % (g_Z(nsv), g_Z(off), g_Z(roff), g_str(ident[d]), g_str(regl[d])))
                    meta.append(("disp", ci, (zn, d, ident[d], regl[d], roff)))
    vals, errs = coq_eval("C16", IMPORTS, terms)
    if errs:
        raise Infra("coq evaluation failed: " + errs[0])
    distinct = set()
    n_dom = n_acc = n_cls = n_order = n_order_cls = 0
    for (kind, ci, x), v in zip(meta, vals):
        c = cases[ci]
        b = as_N(v)
        if b is None:
            raise Infra("no result for %s case %d" % (kind, ci))
        run.cov["evaluations"] += 1
        rep = {"journal": c["journal"], "config": cfg_toml_kw(c["cfg"]), "tags": c["tags"], "source": c.get("src", "gen"), "case": case_of(c)}
        if kind == "ts":
            a, t = c["items"][x]
            impl = c["impl"][x]
            rep.update({"timestamp": t, "ast": a, "implementation": impl or "rejected"})
            if impl is not None:
                n_acc += 1
                distinct.add((impl["ns"], impl["off"]))
            if b & 8:
                n_cls += 1
            if len(run.cov["samples"]) < 4 and (x == 0):
                run.cov["samples"].append({"config": cfg_toml_kw(c["cfg"]), "timestamp": t, "implementation": impl or "rejected", "bits": b, "tags": c["tags"]})
            if not (b & 4):
                continue
            n_dom += 1
            if not (b & 2):
                run.violation("time stamp does not denote 'civil time minus offset' as specified (instant or offset differs, or a valid time stamp is refused)", rep)
            elif not (b & 1):
                run.cov["disagreements_checked"] += 1
                rep["correspondence"] = "C16_corr.c16_case (Tstamp.parse_ts_whole)"
                run.violation("correspondence broken: model Tstamp.parse_ts differs from the implementation (spec oracle clean)", rep, found_input=False)
        elif kind == "order":
            n_order += 1
            rep.update({"observed_order": c["order"]})
            if not (b & 4):
                continue
            if b & 8:
                n_order_cls += 1
            if not (b & 2):
                what = "transactions are not ordered by instant"
                if b & 8:
                    what += (" (fractional time stamp whose civil date and instant lie on different sides of 1970-01-01T00:00Z: "
                             "the instant must be compared, not jiff's mixed-sign (second, nanosecond) pair; repaired finding F17 is back)")
                run.violation(what, rep)
            elif not (b & 1):
                run.cov["disagreements_checked"] += 1
                rep["correspondence"] = "C16_corr.c16_order_case (Tstamp.jsort_txns)"
                run.violation("correspondence broken: model order (pair comparison on the canonical pairs of Tstamp.parse_ts) differs from the implementation's order", rep, found_input=False)
        else:
            n_disp += 1
            zn, d, il, rl, roff = x
            rep.update({"report_zone": zn, "txn": d, "identity_label": il, "register_label": rl, "report_zone_offset": roff})
            if not (b & 4):
                continue
            if not (b & 2):
                run.violation("displayed time stamp does not denote the instant that was read (identity export or register label)", rep)
            elif not (b & 1):
                run.cov["disagreements_checked"] += 1
                rep["correspondence"] = "C16_corr.c16_disp_case (Tstamp.rfc_3339 / as_tz_full)"
                run.violation("correspondence broken: model display differs from the implementation (labels parse back to the instant)", rep, found_input=False)
    if only is not None:
        return None
    run.cov["distinct_nontrivial"] = len(distinct)
    run.cov["rule"] = ("one configuration (journal zone fixed offset incl. +-25:59 and sub-minute, or named zone with Python zoneinfo as tz oracle; 5 default times) "
                       "x time stamps in the three notations printed from an AST (years 0000..9999, leap days, fractions of 1-9 digits with trailing zeros, offsets up to +-25:59 / mm up to 99, "
                       "respellings of the same instant, DST gaps/folds, "
                       "the epoch window: fractional time stamps whose civil date and instant lie on different sides of 1970-01-01T00:00Z in all notations with respellings and neighbours 1 ns / 0.1 s away, "
                       "range edge), out-of-range field values and text mutations; loaded as journals; "
                       "per time stamp: instant+offset vs model and vs spec oracle; per journal: order vs model sort and vs order oracle, register (structured and text) in that order; per report zone (3 per journal): "
                       "register/balance/transaction set identical (frame), identity and register labels vs model display and parsed back; "
                       "non-trivial = accepted time stamp; distinct = distinct (instant, offset) results")
    run.notes.update({"stages_under_UTC": stages, "case_kinds": tagc, "timestamps_in_domain": n_dom, "timestamps_accepted": n_acc,
                      "timestamps_epoch_mixed_sign_class": n_cls, "order_cases": n_order, "order_cases_with_epoch_mixed_sign_class": n_order_cls, "display_cases": n_disp, "register_order_comparisons": n_regorder,
                      "report_zone_frame_comparisons": n_frame, "harness_sessions": len(reqs)})
    return run.finish(info)


def replay(run, path):
    """the stored configuration + time stamps as one journal under the stored report zones: harness + c16_case /
    c16_order_case / c16_disp_case and the frame / order comparisons of the normal run"""
    j, rp, rc = replay_begin(run, path)
    if rc is not None:
        return rc
    cs = rp.get("case")
    if not (isinstance(cs, dict) and isinstance(cs.get("cfg"), dict) and cs.get("items") and cs.get("rzones")):
        return replay_print(j)
    print(j.get("what"))
    c = {"cfg": {"deftime": tuple(cs["cfg"]["deftime"]), "zone": list(cs["cfg"]["zone"])},
         "items": [(a, t) for a, t in cs["items"]], "tags": list(cs.get("tags") or []), "rzones": [tuple(z) for z in cs["rzones"]], "src": "replay"}
    print("configuration %s, report zones %s\njournal:\n%s" % (cfg_toml_kw(c["cfg"]), [z[0] for z in c["rzones"]], journal_of(c["items"])))
    corr_build("C16")
    harness_build()
    main(run, only=[c])
    print("implementation now: stage %s, %s" % (c.get("stage"), json.dumps(c.get("impl"), ensure_ascii=False)[:2000]))
    return replay_verdict(run, path, j, "the stored time stamps denote the specified instants, order, frame and display are as specified and the model agrees "
                                        "(stage under UTC: %s)" % c.get("stage"))
