# C14 — outputs are complete or the run fails; existing files are never overwritten
import json, os, re, shutil, hashlib, itertools, subprocess
from concurrent.futures import ThreadPoolExecutor
from common import *
import journal as J

IMPORTS = "From TkModel Require Import Base Output.\nFrom TkCorr Require Import C14_corr.\n"
SUFFIXES = ["bal.txt", "balgrp.txt", "reg.txt", "equity.txn", "identity.txn"]   # in the order tackler writes them
LABEL = {"Balance Report": "bal.txt", "Balance Group Report": "balgrp.txt", "Register Report": "reg.txt",
         "Equity Export": "equity.txn", "Identity Export": "identity.txn"}


def tree_digest(root):
    h = []
    for dp, dn, fn in os.walk(root):
        dn.sort()
        for f in sorted(fn):
            p = os.path.join(dp, f)
            st = os.lstat(p)
            try:
                data = open(p, "rb").read()
            except Exception:
                data = b"?"
            h.append((os.path.relpath(p, root), st.st_size, st.st_mtime_ns, hashlib.sha256(data).hexdigest()))
    return h


def announced(stdout):
    out = []
    for line in stdout.split("\n"):
        m = re.match(r"^\s*([A-Za-z ]+?)\s+: (.+)$", line)
        if m and m.group(1).strip() in LABEL:
            out.append((LABEL[m.group(1).strip()], m.group(2)))
    return out


class World:
    """one configuration + journal on disk under base/, with one of three input storages"""

    def __init__(self, base, run, kind, big):
        self.base, self.kind = base, kind
        r = run.rng
        shutil.rmtree(base, ignore_errors=True)
        os.makedirs(os.path.join(base, "txns", "sub"))
        self.only_exports = (big == "wide-exports")
        wide = big in ("wide", "wide-exports")           # many accounts: every output, the equity export included, exceeds one 8 KiB buffer
        g = J.Gen(r, max_depth=3, n_accounts=(400 if wide else r.randint(3, 8)))
        n = 260 if wide else (r.randint(60, 120) if big else r.randint(2, 6))
        ts = g.journal(n, prices=False, meta=True, implicit_p=0.2)
        half = len(ts) // 2
        open(os.path.join(base, "txns", "a.txn"), "w").write(J.print_journal(ts[:half] or ts))
        open(os.path.join(base, "txns", "sub", "b.txn"), "w").write(J.print_journal(ts[half:] or ts))
        open(os.path.join(base, "all.txn"), "w").write(J.print_journal(ts))
        toml = J.make_toml(targets=('' if self.only_exports else '"balance", "balance-group", "register"'), exports='"equity", "identity"',
                           group_by=r.choice(["month", "date", "year"]))
        if kind == "git":
            toml = toml.replace('input = { storage = "fs", fs = { dir = "txns", suffix = "txn" } }',
                                'input = { storage = "git", fs = { dir = "txns", suffix = "txn" }, git = { repo = "repo.git", ref = "main", dir = "txns", suffix = "txn" } }')
            env = dict(os.environ, GIT_AUTHOR_NAME="v", GIT_AUTHOR_EMAIL="v@v", GIT_COMMITTER_NAME="v", GIT_COMMITTER_EMAIL="v@v",
                       GIT_CONFIG_GLOBAL="/dev/null", GIT_CONFIG_SYSTEM="/dev/null")
            w = os.path.join(base, "work")
            os.makedirs(w)
            shutil.copytree(os.path.join(base, "txns"), os.path.join(w, "txns"))
            for cmd in (["git", "init", "-q", "-b", "main", "."], ["git", "add", "-A"], ["git", "commit", "-q", "-m", "txns"]):
                subprocess.run(cmd, cwd=w, env=env, check=True, capture_output=True)
            subprocess.run(["git", "clone", "-q", "--bare", w, os.path.join(base, "repo.git")], env=env, check=True, capture_output=True)
            shutil.rmtree(w)
        open(os.path.join(base, "tackler.toml"), "w").write(toml)
        self.args0 = ["--config", os.path.join(base, "tackler.toml")]
        if kind == "file":
            self.args0 += ["--input.file", os.path.join(base, "all.txn")]

    def run(self, outname, limit=None, pre=None, links=None):
        out = os.path.join(self.base, outname)
        shutil.rmtree(out, ignore_errors=True)
        shutil.rmtree(out + "-outside", ignore_errors=True)
        os.makedirs(out)
        for suf, content in (pre or {}).items():
            open(os.path.join(out, "r." + suf), "w").write(content)
        for suf in (links or []):
            # a destination name occupied by a symbolic link whose target does not exist
            os.makedirs(out + "-outside", exist_ok=True)      # the directory exists, the target file does not
            os.symlink(os.path.join(out + "-outside", "target." + suf), os.path.join(out, "r." + suf))
        rc, so, se = run_cli(self.args0 + ["--output.dir", out, "--output.prefix", "r"], fsize_limit=limit)
        files = {}
        for f in sorted(os.listdir(out)):
            fp = os.path.join(out, f)
            files[f] = b"<dangling symlink>" if (os.path.islink(fp) and not os.path.exists(fp)) else open(fp, "rb").read()
        if links:
            files["<outside>"] = ",".join(sorted(os.listdir(out + "-outside"))).encode() if os.path.isdir(out + "-outside") else b""
        shutil.rmtree(out, ignore_errors=True)
        shutil.rmtree(out + "-outside", ignore_errors=True)
        return rc, so, se, files


def world_desc(w):
    """the world as data, for the replay file"""
    files = {}
    for rel in ("txns/a.txn", "txns/sub/b.txn", "all.txn"):
        files[rel] = open(os.path.join(w.base, rel)).read()
    return {"kind": w.kind, "only_exports": bool(w.only_exports), "toml": open(os.path.join(w.base, "tackler.toml")).read(), "files": files}


def world_from_desc(base, d):
    """the World of a replay: the stored files under base/ (Git storage: committed and cloned as in World.__init__)"""
    w = World.__new__(World)
    w.base, w.kind, w.only_exports = base, d["kind"], bool(d["only_exports"])
    shutil.rmtree(base, ignore_errors=True)
    os.makedirs(os.path.join(base, "txns", "sub"))
    for rel, text in d["files"].items():
        open(os.path.join(base, rel), "w").write(text)
    if w.kind == "git":
        env = dict(os.environ, GIT_AUTHOR_NAME="v", GIT_AUTHOR_EMAIL="v@v", GIT_COMMITTER_NAME="v", GIT_COMMITTER_EMAIL="v@v",
                   GIT_CONFIG_GLOBAL="/dev/null", GIT_CONFIG_SYSTEM="/dev/null")
        wk = os.path.join(base, "work")
        os.makedirs(wk)
        shutil.copytree(os.path.join(base, "txns"), os.path.join(wk, "txns"))
        for cmd in (["git", "init", "-q", "-b", "main", "."], ["git", "add", "-A"], ["git", "commit", "-q", "-m", "txns"]):
            subprocess.run(cmd, cwd=wk, env=env, check=True, capture_output=True)
        subprocess.run(["git", "clone", "-q", "--bare", wk, os.path.join(base, "repo.git")], env=env, check=True, capture_output=True)
        shutil.rmtree(wk)
    open(os.path.join(base, "tackler.toml"), "w").write(d["toml"])
    w.args0 = ["--config", os.path.join(base, "tackler.toml")]
    if w.kind == "file":
        w.args0 += ["--input.file", os.path.join(base, "all.txn")]
    w.desc = d
    return w


def baseline(w):
    """the undisturbed run of a world -> (destinations in writing order, expected contents, their sizes)"""
    rc, so, se, files = w.run("out-base")
    if rc != 0:
        raise Infra("baseline run failed: rc=%s %s" % (rc, se[-500:]))
    SUFS = [x for x in SUFFIXES if not (w.only_exports and x.endswith(".txt"))]     # destinations of this world, in writing order
    expected = {s: files.get("r." + s) for s in SUFS}
    if any(v is None for v in expected.values()):
        raise Infra("baseline run did not produce all outputs: %s" % sorted(files))
    return SUFS, expected, [len(expected[s]) for s in SUFS]


def judge_fsize(run, w, N, result, SUFS, expected, sizes, findings, distinct, terms, tmeta):
    """a write failure at byte offset N of every destination (RLIMIT_FSIZE = N)"""
    kind = w.kind
    rc, so, se, files = result
    run.cov["evaluations"] += 1
    ann = announced(so)
    complete = {s: files.get("r." + s) == expected[s] for s in SUFS}
    obs = (rc == 0, tuple(a for a, _ in ann), tuple(complete[s] for s in SUFS))
    distinct.add((kind,) + obs)
    what = None
    if rc == 0 and not all(complete[s] for s, _ in ann):
        what = "run reported success but an announced output is incomplete"
    elif rc == 0 and not all(complete.values()):
        what = "run reported success although a destination is missing or incomplete"
    elif rc != 0 and all(complete.values()):
        pass   # failing although everything is there: not a C14 violation
    bad_ann = [s for s, _ in ann if not complete[s]]
    if what is None and bad_ann:
        what = "an output was announced although its file is incomplete (%s)" % bad_ann
    extra_files = [f for f in files if f not in ["r." + s for s in SUFS]]
    if what is None and extra_files:
        what = "files other than the destinations were created: %s" % extra_files
    if what:
        rep = {"input_storage": kind, "write_fails_at_byte": N, "how": "RLIMIT_FSIZE=%d with SIGXFSZ ignored" % N,
               "exit_status": rc, "announced": [a for a, _ in ann], "sizes_on_disk": {f: len(b) for f, b in files.items()},
               "expected_sizes": dict(zip(SUFS, sizes)), "config": open(os.path.join(w.base, "tackler.toml")).read(),
               "journal": open(os.path.join(w.base, "all.txn")).read()[:3000], "stderr": se[-300:],
               "world": w.desc, "probe": {"type": "fsize", "N": N}}
        kf = [f for f in findings if f.get("class") == "unflushed_bufwriter"]
        if kf and rc == 0:
            run.known_finding(kf[0]["what"])
        else:
            run.violation(what, rep)
    terms.append("c14_case %s %s %s %s %s" % (g_list([g_nat(x) for x in sizes]), g_nat(N), g_bool(rc == 0),
                                             g_list([g_nat(SUFS.index(a)) for a, _ in ann]),
                                             g_list([g_bool(complete[s]) for s in SUFS])))
    tmeta.append((kind, N, sizes, w.desc))
    if len(run.cov["samples"]) < 3 and N in (0, sizes[0]):
        run.cov["samples"].append({"input_storage": kind, "fail_at_byte": N, "exit": rc, "announced": [a for a, _ in ann],
                                   "complete": complete, "sizes": dict(zip(SUFS, sizes))})


def judge_pre(run, w, sub, result, distinct):
    """pre-existing destinations"""
    kind = w.kind
    rc, so, se, files = result
    run.cov["evaluations"] += 1
    distinct.add((kind, "pre", sub, rc == 0))
    bad = [s for s in sub if files.get("r." + s) != ("SENTINEL %s\n" % s).encode()]
    if bad or rc == 0:
        run.violation("an existing destination was overwritten/truncated, or the run succeeded although a destination existed",
                      {"input_storage": kind, "pre_existing": list(sub), "changed": bad, "exit_status": rc,
                       "announced": announced(so), "config": open(os.path.join(w.base, "tackler.toml")).read(),
                       "world": w.desc, "probe": {"type": "pre", "sub": list(sub)}})


def console_probe(w, N):
    """standard output redirected to a file that can hold N bytes, or ("devfull") to a full device -> (exit status, bytes written or None)"""
    cons = os.path.join(w.base, "console.out")
    if N == "devfull":
        rc, _, se = run_cli(w.args0, stdout_path="/dev/full")
        got = None
    else:
        rc, _, se = run_cli(w.args0, fsize_limit=N, stdout_path=cons)
        got = open(cons, "rb").read()
        os.remove(cons)
    return rc, got


def judge_console(run, w, N, rc0, full_text, rc, got, distinct):
    kind = w.kind
    run.cov["evaluations"] += 1
    distinct.add((kind, "console", N if N == "devfull" else (N >= len(full_text)), rc == 0))
    if rc0 == 0 and rc == 0 and (got is None or got != full_text):
        run.violation("console output: the run reported success although standard output could not be written completely",
                      {"input_storage": kind, "stdout": ("/dev/full" if N == "devfull" else "regular file limited to %s bytes" % N),
                       "exit_status": rc, "bytes_written": (None if got is None else len(got)), "expected_bytes": len(full_text),
                       "config": open(os.path.join(w.base, "tackler.toml")).read(),
                       "world": w.desc, "probe": {"type": "console", "N": N}})


def judge_links(run, w, ls, result, distinct):
    """a destination name occupied by a dangling symbolic link"""
    kind = w.kind
    rc, so, se, files = result
    run.cov["evaluations"] += 1
    distinct.add((kind, "link", tuple(ls), rc == 0))
    through = files.get("<outside>", b"")
    replaced = [x for x in ls if files.get("r." + x) != b"<dangling symlink>"]
    if rc == 0 or through or replaced:
        run.violation("a destination occupied by a dangling symbolic link was written through or replaced, or the run reported success",
                      {"input_storage": kind, "dangling_links_at": ls, "exit_status": rc, "created_outside_output_dir": through.decode(),
                       "links_replaced": replaced, "announced": announced(so),
                       "world": w.desc, "probe": {"type": "links", "ls": list(ls)}})


def judge_digest(run, w, before):
    """inputs, configuration and repository are only read"""
    after = tree_digest(w.base)
    if before != after:
        diff = [a for a in after if a not in before] + [b for b in before if b not in after]
        run.violation("input files, configuration or repository were modified or files were created next to them",
                      {"input_storage": w.kind, "changed_entries": [d[0] for d in diff][:20],
                       "world": w.desc, "probe": {"type": "digest"}})


def judge_model(run, terms, tmeta):
    vals, errs = coq_eval("C14", IMPORTS, terms)
    if errs:
        raise Infra("coq evaluation failed: " + errs[0])
    for (kind, N, sizes, desc), v in zip(tmeta, vals):
        bits = as_N(v)
        if bits is None:
            raise Infra("no result")
        if not (bits & 1):
            run.cov["disagreements_checked"] += 1
            run.violation("correspondence broken: Output.run_targets predicts a different outcome than the CLI under a write failure",
                          {"correspondence": "C14_corr.c14_case", "input_storage": kind, "write_fails_at_byte": N,
                           "content_sizes": sizes, "world": desc, "probe": {"type": "fsize", "N": N}}, found_input=False)


def main(run):
    info = proof_stage(run, "C14", extra_targets=["corr/C14_corr.vo"])
    cli_build()
    quick = run.tier == "quick"
    root = os.path.join(CACHE, "c14-%d" % os.getpid())
    shutil.rmtree(root, ignore_errors=True)
    findings = [f for f in load_findings("C14") if f.get("status") == "open"]
    terms, tmeta = [], []
    distinct = set()
    kinds = [("fs", False), ("file", True), ("git", False), ("fs", "wide"), ("fs", "wide-exports")] if quick else \
            [("fs", False), ("fs", True), ("file", True), ("git", True), ("git", False), ("fs", "wide"), ("file", "wide"), ("file", "wide-exports")]
    try:
        for wi, (kind, big) in enumerate(kinds):
            w = World(os.path.join(root, "w%d" % wi), run, kind, big)
            w.desc = world_desc(w)
            before = tree_digest(w.base)
            SUFS, expected, sizes = baseline(w)
            # ---- write failures at byte offset N of every destination (RLIMIT_FSIZE = N)
            offs = set([0, 1, 2, 7, 100, 4095, 4096, 4097, 8191, 8192, 8193, 16384])
            for L in sizes:
                offs.update([L - 1, L, L + 1, max(0, L - 8192), L // 2])
            offs = sorted(o for o in offs if 0 <= o <= max(sizes) + 1)
            if quick:
                extra = [run.rng.randint(0, max(sizes)) for _ in range(25)]
            else:
                extra = list(range(0, max(sizes) + 2)) if max(sizes) < 6000 else [run.rng.randint(0, max(sizes)) for _ in range(1500)]
            offs = sorted(set(offs + extra))

            def one(N):
                return N, w.run("out-f%d" % N, limit=N)

            with ThreadPoolExecutor(max_workers=NPROC) as ex:
                results = list(ex.map(one, offs))
            for N, result in results:
                judge_fsize(run, w, N, result, SUFS, expected, sizes, findings, distinct, terms, tmeta)
            # ---- pre-existing destinations: every non-empty subset
            subsets = [c for k in range(1, len(SUFS) + 1) for c in itertools.combinations(SUFS, k)]
            if quick and wi > 0:
                subsets = run.rng.sample(subsets, min(8, len(subsets)))

            def pre_one(sub):
                pre = {s: "SENTINEL %s\n" % s for s in sub}
                return sub, w.run("out-p" + "".join(str(SUFS.index(s)) for s in sub), pre=pre)

            with ThreadPoolExecutor(max_workers=NPROC) as ex:
                presults = list(ex.map(pre_one, subsets))
            for sub, result in presults:
                judge_pre(run, w, sub, result, distinct)
            # ---- console output is a destination too: standard output redirected to a file that can
            #      hold N bytes, and to a full device; success only with the complete text
            if not w.only_exports:
                rc0, so0, se0 = run_cli(w.args0)
                full_text = so0.encode()
                cn = sorted(set([0, 1, 100, 4095, 4096, 8191, 8192, 8193, len(full_text) - 1, len(full_text), len(full_text) // 2,
                                 max(0, len(full_text) - 4096)] + [run.rng.randint(0, len(full_text)) for _ in range(6 if quick else 200)]))
                for N in [x for x in cn if x >= 0] + ["devfull"]:
                    rc, got = console_probe(w, N)
                    judge_console(run, w, N, rc0, full_text, rc, got, distinct)
            # ---- a destination name occupied by a dangling symbolic link: the run must fail, the link must stay,
            #      and nothing may be created through it
            link_sets = [[s_] for s_ in SUFS] + [list(SUFS)]
            if quick and wi > 0:
                link_sets = run.rng.sample(link_sets, min(2, len(link_sets)))
            for ls in link_sets:
                result = w.run("out-l" + "".join(str(SUFS.index(x)) for x in ls), links=ls)
                judge_links(run, w, ls, result, distinct)
            # ---- inputs, configuration and repository are only read
            judge_digest(run, w, before)
    finally:
        shutil.rmtree(root, ignore_errors=True)
    judge_model(run, terms, tmeta)
    run.cov["distinct_nontrivial"] = len(distinct)
    run.cov["rule"] = ("tackler CLI built from /repo, 3 input storages (fs, single file, git), 5 destinations; write failure at byte offset N of "
                       "every destination via RLIMIT_FSIZE=N (SIGXFSZ ignored): boundary offsets (0,1,sizes+-1,buffer multiples) + random "
                       "(quick) / every offset (thorough); every non-empty subset of pre-existing destinations; inputs digested before/after; "
                       "distinct = distinct (storage, exit ok, announced set, completeness vector)")
    run.cov["exhaustive"] = False
    return run.finish(info)


def replay(run, path):
    """the stored world (journal files, configuration, input storage) is written again and the stored probe (write failure
    at byte N / pre-existing destinations / limited console / dangling links / read-only inputs) is run through the tackler
    binary built from REPO and judged as in the normal run"""
    j, rp, rc = replay_begin(run, path)
    if rc is not None:
        return rc
    d, pr = rp.get("world"), rp.get("probe")
    if not (isinstance(d, dict) and isinstance(d.get("files"), dict) and isinstance(pr, dict) and pr.get("type")):
        return replay_print(j)
    print(j.get("what"))
    print("world: input storage %s, only exports %s, journal of %d characters; probe %s" % (d["kind"], d["only_exports"], len(d["files"].get("all.txn", "")), json.dumps(pr)))
    corr_build("C14")
    cli_build()
    root = os.path.join(CACHE, "c14-replay-%d" % os.getpid())
    findings = [f for f in load_findings("C14") if f.get("status") == "open"]
    terms, tmeta, distinct = [], [], set()
    try:
        w = world_from_desc(os.path.join(root, "w"), d)
        before = tree_digest(w.base)
        SUFS, expected, sizes = baseline(w)
        t = pr["type"]
        if t in ("fsize", "digest"):
            for N in ([int(pr["N"])] if t == "fsize" else [0, sizes[0] // 2, sizes[0], max(sizes)]):
                result = w.run("out-f%d" % N, limit=N)
                print("write failure at byte %d: exit status %s, announced %s, sizes on disk %s (expected %s)"
                      % (N, result[0], [a for a, _ in announced(result[1])], {f: len(b) for f, b in result[3].items()}, dict(zip(SUFS, sizes))))
                judge_fsize(run, w, N, result, SUFS, expected, sizes, findings, distinct, terms, tmeta)
        if t in ("pre", "digest"):
            sub = tuple(pr["sub"]) if t == "pre" else tuple(SUFS[:1])
            result = w.run("out-p" + "".join(str(SUFS.index(s)) for s in sub), pre={s: "SENTINEL %s\n" % s for s in sub})
            print("pre-existing %s: exit status %s, files %s" % (list(sub), result[0], {f: len(b) for f, b in result[3].items()}))
            judge_pre(run, w, sub, result, distinct)
        if t in ("console", "digest") and not w.only_exports:
            rc0, so0, se0 = run_cli(w.args0)
            full_text = so0.encode()
            N = pr["N"] if t == "console" else len(full_text) // 2
            rc_, got = console_probe(w, N)
            print("console limited to %s: exit status %s, %s of %d bytes written" % (N, rc_, None if got is None else len(got), len(full_text)))
            judge_console(run, w, N, rc0, full_text, rc_, got, distinct)
        if t in ("links", "digest"):
            ls = list(pr["ls"]) if t == "links" else list(SUFS)
            result = w.run("out-l" + "".join(str(SUFS.index(x)) for x in ls), links=ls)
            print("dangling links at %s: exit status %s, files %s" % (ls, result[0], {f: (b[:20].decode("utf-8", "replace") if b.startswith(b"<") else len(b)) for f, b in result[3].items()}))
            judge_links(run, w, ls, result, distinct)
        judge_digest(run, w, before)
    finally:
        shutil.rmtree(root, ignore_errors=True)
    judge_model(run, terms, tmeta)
    want = {"digest": "input files, configuration"}.get(pr["type"])
    return replay_verdict(run, path, j, "probe %s on the stored world (%s input): outputs complete or the run fails, nothing overwritten or written through, "
                          "inputs untouched, the model agrees" % (json.dumps(pr), d["kind"]),
                          only=(lambda v: v[0].startswith(want)) if want else None)
