# C03 — register report: canonical order and exact running totals
import json, os, re, datetime
from decimal import Decimal
from common import *
import journal as J

IMPORTS = ("From TkModel Require Import Base Dec Acct Txn Balance Register.\n"
           "From TkSpec Require Import Balance_spec Register_spec.\n"
           "From TkCorr Require Import C03_corr.\n")

STYLES = ["date", "seconds", "full"]
ZONES = ["UTC", "Pacific/Kiritimati"]      # +00:00 and +14:00: the civil date differs for most instants

UUIDS = ["0e3f2a3c-0000-4000-8000-00000000000a", "0e3f2a3c-0000-4000-8000-00000000000b",
         "0E3F2A3C-0000-4000-8000-00000000000A", "ffffffff-ffff-4fff-bfff-ffffffffffff",
         "00000000-0000-4000-8000-000000000000"]
CODES = [None, None, "", "a", "b", "B", "#1", "a b"]
DESCS = [None, None, "", "x", "y", "X", "ä", "it's"]


def esc_re(s):
    out = ""
    for ch in s:
        out += ("\\" + ch) if ch in r"\.+*?()|[]{}^$-" else ch
    return out


# ---------------------------------------------------------------- generator
def render_ts(r, sec, ns):
    """one of the journal's spellings of the instant (sec, ns) [UTC epoch]; journal zone is UTC"""
    forms = ["off", "off", "z", "none"]
    if ns == 0 and sec % 86400 == 0:
        forms.append("date")
    f = r.choice(forms)
    off = 0
    if f == "off":
        off = r.choice([-1, 1]) * (r.randint(0, 14) * 3600 + r.choice([0, 0, 900, 1800, 2700]))
        off = max(-14 * 3600, min(14 * 3600, off))
    d = datetime.datetime(1970, 1, 1) + datetime.timedelta(seconds=sec + off)
    if f == "date":
        return d.strftime("%Y-%m-%d")
    s = d.strftime("%Y-%m-%dT%H:%M:%S")
    if ns:
        frac = "%09d" % ns
        if r.random() < 0.5:
            frac = frac.rstrip("0")
        s += "." + frac
    elif r.random() < 0.15:
        s += "." + "0" * r.randint(1, 9)
    if f == "z":
        s += "Z"
    elif f == "off":
        a = abs(off)
        s += ("-" if off < 0 else "+") + "%02d:%02d" % (a // 3600, (a % 3600) // 60)
    return s


def instant_pool(r):
    day = (datetime.date(r.choice([2023, 2024, 2025]), r.randint(1, 12), r.randint(1, 28)) - datetime.date(1970, 1, 1)).days
    base = day * 86400
    cands = [(base, 0), (base, 1), (base + 1, 0), (base - 1, 999999999), (base + 43200, 0),
             (base + 43200, 500000000), (base + 86400, 0), (base - 86400 * r.randint(1, 400), 0)]
    return r.sample(cands, r.randint(1, 3))


def gen_txns(r, n, n_accounts, tie_heavy, small=False):
    g = J.Gen(r, max_depth=r.choice([1, 2, 3]), n_accounts=n_accounts, big=(r.random() < 0.08))
    pool = instant_pool(r)
    ts = []
    for k in range(n):
        if small:
            a, b = r.choice(g.accounts), r.choice(g.accounts)
            amt = (r.randint(1, 99) * r.choice([1, -1]), r.choice([0, 1]))
            t = {"posts": [{"acc": a, "amount": amt, "comm": "", "closing": None, "opening": None, "comment": None},
                           {"acc": b, "amount": J.neg(amt), "comm": "", "closing": None, "opening": None, "comment": None}],
                 "last": None, "loc": None, "tags": None, "comments": []}
        else:
            t = g.txn(k, prices=(r.random() < 0.45), implicit_p=0.25, meta=False)
        sec, ns = r.choice(pool)
        t["ts"] = render_ts(r, sec, ns)
        if tie_heavy and r.random() < 0.5:
            t["code"], t["desc"], t["uuid"] = None, None, None
        else:
            t["code"] = r.choice(CODES)
            t["desc"] = r.choice(DESCS)
            t["uuid"] = r.choice(UUIDS) if r.random() < 0.4 else None
        t["posts"][0]["comment"] = "i%d" % k
        ts.append(t)
    return g, ts


def gen_cases(run, n, n_order):
    cases = []
    r = run.rng
    cdir = os.path.join(VERIF, "corpus", "C03")
    if os.path.isdir(cdir):
        for f in sorted(os.listdir(cdir)):
            if f.endswith(".json"):
                c = json.load(open(os.path.join(cdir, f)))
                cases.append({"text": c["text"], "names": c.get("names", []), "src": "corpus/" + f, "kind": "reg"})
    for i in range(n):
        g, ts = gen_txns(r, r.randint(1, 7), r.randint(2, 5), tie_heavy=(r.random() < 0.4))
        used = sorted({p["acc"] for t in ts for p in t["posts"]} | {t["last"]["acc"] for t in ts if t.get("last")})
        names = []
        k = r.random()
        if k < 0.25:
            names = r.sample(used, min(len(used), r.randint(1, 2)))
        elif k < 0.35 and len(used) > 1:
            hide = r.choice(used)
            names = [a for a in used if a != hide]                     # hide one account
        elif k < 0.42:
            names = ["no:such:account"]                                # hide everything
        elif k < 0.5:
            names = [r.choice(used), "no:such", r.choice(used) + ":x"]  # prefix-confusable, duplicates allowed
        cases.append({"text": J.print_journal(ts), "names": names, "src": "gen", "kind": "reg"})
    for i in range(n_order):
        g, ts = gen_txns(r, r.randint(6, 16), 3, tie_heavy=(r.random() < 0.5), small=True)
        cases.append({"text": J.print_journal(ts), "names": [], "src": "gen", "kind": "order"})
    return cases


# ---------------------------------------------------------------- Gallina terms
def file_index(t):
    c = t["posts"][0].get("comment") if t["posts"] else None
    m = re.match(r"^i(\d+)$", c or "")
    return int(m.group(1)) if m else None


def g_posting(p):
    return "(mkPosting %s %s %s %s %s %s)" % (g_acct(p["acc"]), g_str(p["comm"]), g_dec(p["amount"]),
                                              g_dec(p["txn_amount"]), g_bool(p["total"]), g_str(p["txn_comm"]))


def g_txn(t):
    h = "(mkHeader %s %s %s %s %s None [] [])" % (g_Z(int(t["ts"]["ns"])), g_Z(int(t["ts"]["off"])),
                                                   g_opt(t["code"], g_str), g_opt(t["desc"], g_str), g_opt(t["uuid"], g_str))
    return "(mkTxn %s %s)" % (h, g_list([g_posting(p) for p in t["posts"]]))


def g_obs(entries):
    out = []
    for e in entries:
        rows = ["(mkOrow %s %s %s %s)" % (g_acct(x["acc"]), g_str(x["comm"]), g_dec(x["amount"]), g_dec(x["total"])) for x in e["rows"]]
        out.append("(%s, %s)" % (g_nat(e["idx"]), g_list(rows) if rows else "(@nil orow)"))
    return g_list(out) if out else "(@nil (nat * list orow))"


def g_names(names):
    return g_list([g_acct(a) for a in names]) if names else "(@nil (list (list N)))"


# ---------------------------------------------------------------- text report
TS_RE = re.compile(r"^-?\d{4,}-\d\d-\d\d( \d\d:\d\d:\d\d(\.\d+)?)?")


def parse_text_register(text):
    """-> list of entries: (header remainder, [meta lines], [(account, amount, total, commodity)])"""
    lines = text.split("\n")
    try:
        k = lines.index("REG")
    except ValueError:
        return None
    body = lines[k + 2:]
    entries, cur = [], None
    for l in body:
        if l == "":
            continue
        if re.match(r"^-+$", l):
            if cur is not None:
                entries.append(cur)
            cur = None
            continue
        if not l.startswith(" "):
            m = TS_RE.match(l)
            if not m or cur is not None:
                return None
            cur = (l[m.end():], [], [])
            continue
        if cur is None:
            return None
        body_l = l[12:]
        if body_l.startswith("#") or body_l.startswith(";"):
            cur[1].append(body_l)
        else:
            f = body_l.split()
            if len(f) not in (3, 4):
                return None
            cur[2].append((f[0], Decimal(f[1]), Decimal(f[2]), f[3] if len(f) == 4 else ""))
    if cur is not None:
        return None
    return entries


def dec_value(j):
    m, s = dec_parts(j)
    # exact: Decimal.scaleb would round to the context precision (28 digits; a 96-bit mantissa has up to 29)
    return Decimal((1 if m < 0 else 0, tuple(int(d) for d in str(abs(m))), -s))


# ---------------------------------------------------------------- the check
def main(run, only=None):
    """only: the cases of a replay (no generation, no proof stage, no extra stage, no verdict)"""
    quick = run.tier == "quick"
    if only is None:
        info = proof_stage(run, "C03", extra_targets=["corr/C03_corr.vo"])
        harness_build()
        cases = gen_cases(run, 140 if quick else 1500, 40 if quick else 400)
    else:
        cases = only
    toml = J.make_toml()
    reqs = []
    for c in cases:
        ops = [{"op": "txns"}, {"op": "register", "ras": [esc_re(x) for x in c["names"]]}]
        reqs.append({"conf": {"toml": toml}, "inputs": [{"text": c["text"]}], "ops": ops})
    # metamorphic text check on a part of the register cases: 3 styles x 2 report zones
    text_of = {}
    for i, c in enumerate(cases):
        if c["kind"] == "reg" and (c["src"] != "gen" or run.rng.random() < (0.3 if quick else 0.15)):
            acc = (", accounts = " + J.toml_list([esc_re(x) for x in c["names"]])) if c["names"] else ""
            for st in STYLES:
                for z in ZONES:
                    text_of[(i, st, z)] = len(reqs)
                    reqs.append({"conf": {"toml": J.make_toml(reg_ts=', timestamp-style = "%s"' % st, rtz=z, reg_acc=acc)},
                                 "inputs": [{"text": c["text"]}], "ops": [{"op": "text_register"}]})
    res = harness_run(reqs)

    terms, idx = [], []
    stages = {}
    feat = {"ties_instant": 0, "ties_full_header": 0, "same_key_twice_in_txn": 0, "multi_commodity_txn": 0,
            "selector": 0, "entry_emptied": 0, "row_hidden": 0, "order_only": 0, "text_checked": 0}
    for i, c in enumerate(cases):
        rr = res[i]
        st = rr.get("stage") if rr else "none"
        stages[st] = stages.get(st, 0) + 1
        if st != "done":
            continue
        txns = rr["results"][0].get("ok")
        reg = rr["results"][1].get("ok")
        if txns is None or reg is None:
            stages["op-failed"] = stages.get("op-failed", 0) + 1
            continue
        ks = [file_index(t) for t in txns]
        if None in ks or sorted(ks) != list(range(len(txns))):
            raise Infra("cannot reconstruct the file order of case %d (%s)" % (i, c["src"]))
        by_file = [None] * len(txns)
        for t, k in zip(txns, ks):
            by_file[k] = t
        entries = [{"idx": file_index(e["txn"]), "rows": e["rows"]} for e in reg]
        c["impl"] = {"order": ks, "register": [{"txn": e["idx"], "rows": [(x["acc"], x["comm"], dec_parts(x["amount"]), dec_parts(x["total"])) for x in e["rows"]]} for e in entries]}
        c["side"] = []
        for e in reg:
            for x in e["rows"]:
                if x["target"] != x["comm"] or x["rate"] is not None:
                    c["side"].append("row converted although no report commodity is configured")
        # realised features
        insts = [t["ts"]["ns"] for t in txns]
        hdrs = [(t["ts"]["ns"], t["code"] or "", t["desc"] or "", t["uuid"] or "") for t in txns]
        feat["ties_instant"] += len(set(insts)) < len(insts)
        feat["ties_full_header"] += len(set(hdrs)) < len(hdrs)
        feat["same_key_twice_in_txn"] += any(len({(p["acc"], p["comm"]) for p in t["posts"]}) < len(t["posts"]) for t in txns)
        feat["multi_commodity_txn"] += any(len({p["comm"] for p in t["posts"]}) > 1 for t in txns)
        feat["selector"] += bool(c["names"])
        feat["entry_emptied"] += any(not e["rows"] for e in entries)
        feat["row_hidden"] += any(0 < len(e["rows"]) < len(by_file[e["idx"]]["posts"]) for e in entries)
        inp = g_list([g_txn(t) for t in by_file])
        if c["kind"] == "order":
            feat["order_only"] += 1
            terms.append("c03_order_case %s %s" % (inp, g_list([g_nat(k) for k in ks])))
        else:
            terms.append("c03_case %s %s %s %s" % (inp, g_names(c["names"]), g_list([g_nat(k) for k in ks]), g_obs(entries)))
        idx.append(i)
        # text reports
        if (i, "date", "UTC") in text_of and all(len(p["acc"]) < 33 for t in txns for p in t["posts"]):
            feat["text_checked"] += 1
            want = [[(x["acc"], dec_value(x["amount"]), dec_value(x["total"]), x["comm"]) for x in e["rows"]] for e in entries if e["rows"]]
            ref = None
            for st_ in STYLES:
                for z in ZONES:
                    tr = res[text_of[(i, st_, z)]]
                    txt = tr["results"][0].get("ok") if tr and tr.get("stage") == "done" else None
                    parsed = parse_text_register(txt) if isinstance(txt, str) else None
                    if parsed is None:
                        c.setdefault("text_fail", "text register report (%s, %s) missing or not in the expected layout" % (st_, z))
                        continue
                    if [e[2] for e in parsed] != want:
                        c.setdefault("text_fail", "text register report (%s, %s) shows other rows/amounts/totals than the register entries" % (st_, z))
                        c["text_report"] = txt
                    key = [(e[0], e[1], e[2]) for e in parsed]
                    if ref is None:
                        ref = key
                    elif key != ref:
                        c.setdefault("text_fail", "text register report differs between timestamp styles / report zones beyond the time stamp (%s, %s)" % (st_, z))
                        c["text_report"] = txt

    vals, errs = coq_eval("C03", IMPORTS, terms)
    if errs:
        raise Infra("coq evaluation failed: " + errs[0])
    distinct = set()
    n_dom = 0
    for j, v in zip(idx, vals):
        c = cases[j]
        bits = as_N(v)
        if bits is None:
            raise Infra("no result for case %d" % j)
        run.cov["evaluations"] += 1
        nrows = sum(len(e["rows"]) for e in c["impl"]["register"])
        if nrows >= 2 or (c["kind"] == "order" and len(c["impl"]["order"]) >= 2):
            distinct.add(json.dumps(c["impl"], sort_keys=True))
        if len(run.cov["samples"]) < 3 and c["src"] == "gen":
            run.cov["samples"].append({"journal": c["text"], "selected": c["names"], "implementation": c["impl"], "bits": bits})
        if not (bits & 4):
            continue
        n_dom += 1
        rep = {"journal": c["text"], "selected_accounts": c["names"], "implementation_output": c["impl"], "source": c["src"], "case_kind": c["kind"],
               "replay_hint": "tackler --config <base.toml> --input.file <journal> --reports register [--accounts ...]; ./check C03 --replay <this file>"}
        if not (bits & 2):
            run.violation("register report contradicts the specification (canonical order / exact running totals / selection hides only)", rep)
        elif c.get("text_fail"):
            rep["text_report"] = c.get("text_report")
            run.violation(c["text_fail"], rep)
        elif not (bits & 1) or c["side"]:
            run.cov["disagreements_checked"] += 1
            rep["correspondence"] = "C03_corr.c03_case" if c["kind"] == "reg" else "C03_corr.c03_order_case"
            rep["side_conditions"] = c["side"]
            run.violation("correspondence broken: model Register.register / Txn.sort_txns differs from implementation (spec oracle clean on this input)",
                          rep, found_input=False)
    if only is not None:
        return None
    run.cov["distinct_nontrivial"] = len(distinct)
    run.cov["rule"] = ("corpus + seeded journals: 1-7 transactions on 1-3 instants of one pool (equal instants spelled with different UTC offsets, "
                       "+-1 ns / +-1 s / +-1 day neighbours), code/description/uuid from small pools incl. None vs \"\" and upper-case uuid, 2-5 accounts "
                       "(repeated inside a transaction), 1-3 commodities with '@'/'=' priced foreign postings, literal account selectors hiding "
                       "first/middle/all rows; plus order-only journals of 6-16 two-posting transactions; text report under 3 timestamp styles x 2 zones "
                       "on a sample; non-trivial = >= 2 rows (register) or >= 2 transactions (order); distinct = distinct implementation outputs")
    run.notes["stages"] = stages
    run.notes["in_exact_domain"] = n_dom
    run.notes["features"] = feat
    # extra stage (extension T01, DESIGN section 12): the rendered register text against ReportText.v
    import t01_text
    ok_t, log_t = coq_make(["props/T01.vo"])
    if not ok_t:
        run.violation("proof obligation does not check: props/T01.v (report text model) failed to build",
                      {"theorem_file": "coq/props/T01.v", "log": log_t[-2000:], "stage": "T01"}, found_input=False)
    else:
        t01_text.run_text_stage(run, "register", n=(25 if run.tier == "quick" else 300))
    return run.finish(info)


def replay(run, path):
    """the stored journal + selection again: harness (register, text register under 3 styles x 2 zones) + c03_case /
    c03_order_case; replays of the T01 text stage go to t01.replay (common.replay_begin)"""
    j, rp, rc = replay_begin(run, path)
    if rc is not None:
        return rc
    if not isinstance(rp.get("journal"), str):
        return replay_print(j)
    print(j.get("what"))
    kind = rp.get("case_kind") or ("order" if "c03_order_case" in str(rp.get("correspondence")) else "reg")
    c = {"text": rp["journal"], "names": list(rp.get("selected_accounts") or []), "src": "replay", "kind": kind}
    print("journal:\n%s\nselected accounts: %s (%s case)" % (c["text"], c["names"], kind))
    corr_build("C03")
    harness_build()
    main(run, only=[c])
    print("implementation now: %s" % json.dumps(c.get("impl", "journal not loaded / register not reached"), ensure_ascii=False)[:3000])
    if c.get("text_fail"):
        print("text report: %s" % c["text_fail"])
    return replay_verdict(run, path, j, "order, running totals, selection and the text register of the stored journal are as specified and the model agrees "
                                        "(or the case is not evaluated: rejected journal / outside the exact domain)")
