# T05 (extension) — the TEXT of the register, balance and balance-group reports UNDER PRICE CONVERSION
# and ROUNDING, byte for byte, with the whole model chain inside Coq:
#   price file + configuration -> Price.settings_price / make_ctx / convert_prices (C07)
#   -> Register.reg_engine / Balance.balance_report / Group.balance_groups (C03, C02, C13)
#   -> ReportText (T01) under Round.shown_text (C17)                      (coq/model/T05_report.v)
# Nothing of the implementation's figures is fed to the model: the inputs of a case are the price file
# as written, the configuration, and the loaded transactions (op txns).  The implementation's text from
# the title line on is compared character by character (coq/corr/T05_corr.v, bit 1) and must satisfy the
# end-to-end oracle of coq/spec/T05_spec.v (bit 2: every figure read back from the text is the exact sum,
# computed from the price file with the documented rate, rounded half away from zero to the report scale).
#   run_c07_stage(run, cases)  extra stage of ./check C07 on the cases of that check
#   run_text_stage(run, n)     own generator (account trees, several postings per account, mid-points
#                              after conversion, rates with up to 28 decimals, zero rates) for ./check T05
# A text difference is a broken correspondence (no-failing-input-found); an oracle failure on the
# implementation's text is a violation with a concrete input.
import json, os, random
from common import *
import journal as J
import t01_text as T1
import c07 as C7

IMPORTS = ("From TkModel Require Import Base Dec Acct Txn Balance Register Round Price Time Group ReportText T05_report.\n"
           "From TkCorr Require Import C07_corr T05_corr.\n")

KINDS = ("register", "balance", "balgrp")
TITLES = {"balance": "BAL", "balgrp": "BALGRP", "register": "REG"}
SCALES = [(0, 0), (2, 2), (2, 7), (0, 28), (28, 28), (0, 3), (1, 4), (0, 1)]
GB_COQ = {"year": "GbYear", "month": "GbMonth", "date": "GbDate", "iso-week": "GbIsoWeek", "iso-week-date": "GbIsoWeekDate"}
STYLES = ["date", "seconds", "full"]


# ---------------------------------------------------------------- requests
def request(tc):
    price = '[price]\ndb-path = "prices.db"\nlookup-type = "%s"' % tc["lt"]
    rcomm = 'commodity = "%s"' % tc["rc"] if tc["rc"] is not None else ""
    ov = {}
    if tc.get("before") is not None:
        ov["before_time"] = tc["before"]
    ras = [T1.esc_re(a) for a in tc.get("sel") or []]
    acc = (", accounts = " + J.toml_list(ras)) if ras else ""
    off, dft = tc.get("tz_off") or 0, tc.get("deftime") or 0
    tz = 'name = "UTC"' if off == 0 else 'offset = "%s%02d:%02d"' % ("+" if off >= 0 else "-", abs(off) // 60, abs(off) % 60)
    deftime = "%02d:%02d:%02d" % (dft // 3600, dft // 60 % 60, dft % 60)
    toml = J.make_toml(price=price, rcomm=rcomm, smin=tc["smin"], smax=tc["smax"], tz=tz, deftime=deftime,
                       bal_acc=acc, balgrp_acc=acc, reg_acc=acc, rtz="UTC",
                       reg_ts=', timestamp-style = "%s"' % tc["style"], group_by=tc["group_by"])
    k = tc["kind"]
    fig = {"register": {"op": "register", "ras": ras}, "balance": {"op": "balance", "ras": ras},
           "balgrp": {"op": "balgrp", "ras": ras}}[k]
    return {"conf": {"toml": toml, "pricedb": tc["file_text"]}, "overlaps": ov, "inputs": [{"text": tc["journal"]}],
            "ops": [{"op": "txns"}, {"op": "text_" + k}, fig]}


# ---------------------------------------------------------------- Gallina terms
def g_txn(t):
    ps = ["(mkPosting %s %s %s %s false %s)" % (g_acct(p["acc"]), g_str(p["comm"]), g_dec(p["amount"]), g_dec(p["amount"]), g_str(p["comm"]))
          for p in t["posts"]]
    return "(mkTxn %s %s)" % (T1.g_header(t), g_list(ps) if ps else "(@nil posting)")


def g_kind(tc):
    return {"register": "KReg", "balance": "KBal", "balgrp": "(KGrp %s)" % GB_COQ[tc["group_by"]]}[tc["kind"]]


def args(tc, txns):
    rc = "None" if tc["rc"] is None else "(Some %s)" % g_str(tc["rc"])
    bf = "None" if tc.get("before_ns") is None else "(Some %s)" % g_Z(tc["before_ns"])
    f = g_list([C7.g_pe(e["ns"], e["base"], tuple(e["rate"]), e["eq"]) for e in tc["entries"]]) if tc["entries"] else "(@nil pentry)"
    names = g_list([g_acct(a) for a in tc.get("sel") or []]) if tc.get("sel") else "(@nil (list (list N)))"
    tab = sorted({int(t["ts"]["ns"]) for t in txns})
    g_tab = g_list(["(%s, %s)" % (g_Z(ns), g_str(T1.ts_text(ns, tc["style"], 0))) for ns in tab]) if tab else "(@nil (Z * list N))"
    g_txns = g_list([g_txn(t) for t in txns]) if txns else "(@nil txn)"
    return "%s %s %s %s %s %s %s %s (mkScale %s %s) %s" % (g_kind(tc), C7.LT_COQ[tc["lt"]], rc, bf, f, g_txns, names,
                                                           g_str(TITLES[tc["kind"]]), g_N(tc["smin"]), g_N(tc["smax"]), g_tab)


# ---------------------------------------------------------------- statistics
def new_stats():
    return {"stages": {}, "op_failed": 0, "neg_zero_skipped": 0, "outside_exact_domain": 0, "compared": 0, "different": 0,
            "oracle_failed": 0, "characters": 0, "kinds": {}, "lookups": {}, "scales": {},
            "register_rows": 0, "register_rows_converted": 0, "register_rows_with_rate": 0,
            "entries_with_converted_and_unconverted_rows": 0, "accounts_with_converted_and_unconverted_row_in_one_entry": 0,
            "balance_rows": 0, "balance_rows_in_report_commodity": 0,
            "figures": 0, "figures_rounded": 0, "figures_rounded_at_midpoint": 0, "figures_negative_rounded": 0}


def rounded_stats(fig, smax, st):
    """how many figures of the case need more decimals than shown (rounding is exercised), and how many of
    those sit exactly on a mid-point of the last shown decimal"""
    for j in fig:
        if j is None:
            continue
        m, s = dec_parts(j)
        st["figures"] += 1
        if s > smax and m % 10 ** (s - smax) != 0:
            st["figures_rounded"] += 1
            if m < 0:
                st["figures_negative_rounded"] += 1
            if 2 * (abs(m) % 10 ** (s - smax)) == 10 ** (s - smax):
                st["figures_rounded_at_midpoint"] += 1


def features(tc, data, st):
    k = tc["kind"]
    st["kinds"][k] = st["kinds"].get(k, 0) + 1
    st["lookups"][tc["lt"]] = st["lookups"].get(tc["lt"], 0) + 1
    key = "%d,%d" % (tc["smin"], tc["smax"])
    st["scales"][key] = st["scales"].get(key, 0) + 1
    if k == "register":
        for e in data:
            conv = [x for x in e["rows"] if x["target"] != x["comm"]]
            st["register_rows"] += len(e["rows"])
            st["register_rows_converted"] += len(conv)
            st["register_rows_with_rate"] += sum(1 for x in conv if x["rate"] is not None)
            if conv and len(conv) < len(e["rows"]):
                st["entries_with_converted_and_unconverted_rows"] += 1
                ca = {x["acc"] for x in conv}
                st["accounts_with_converted_and_unconverted_row_in_one_entry"] += len(
                    {x["acc"] for x in e["rows"] if x["target"] == x["comm"] and x["acc"] in ca})
            rounded_stats([x["total"] for x in e["rows"]] + [x["amount"] for x in e["rows"]], tc["smax"], st)
    else:
        groups = [data] if k == "balance" else data
        for g in groups:
            st["balance_rows"] += len(g["rows"])
            st["balance_rows_in_report_commodity"] += sum(1 for x in g["rows"] if tc["rc"] is not None and x["comm"] == tc["rc"])
            rounded_stats([x[f] for x in g["rows"] for f in ("own", "tree")] + [d["delta"] for d in g["deltas"]], tc["smax"], st)


# ---------------------------------------------------------------- the comparison
def replay_obj(tc, i, mt):
    return {"correspondence": "T05_corr.t05_case", "case": {k: tc.get(k) for k in CASE_KEYS},
            "lookup_type": tc["lt"], "report_commodity": tc["rc"], "before_time": tc.get("before"), "price_file": tc["file_text"],
            "journal": tc["journal"], "scale": {"min": tc["smin"], "max": tc["smax"]}, "report": tc["kind"],
            "listed_accounts": tc.get("sel") or "all", "first_differing_character": i,
            "implementation_text": tc["impl_text"], "model_text": mt,
            "implementation_around": tc["impl_text"][max(0, i - 60):i + 20] if i is not None and i >= 0 else None,
            "model_around": mt[max(0, i - 60):i + 20] if mt is not None and i is not None and i >= 0 else None,
            "figures": tc.get("data"), "source": tc.get("src"),
            "replay_hint": "./check T05 --replay <this file>; tackler.toml: [price] db-path, lookup-type=<lookup_type>; [report] commodity=<report_commodity>, "
                           "scale={min,max}; --price.before <before_time>; --reports %s"
                           % {"balance": "balance", "balgrp": "balance-group", "register": "register"}[tc["kind"]]}


CASE_KEYS = ("kind", "lt", "rc", "before", "before_ns", "entries", "file_text", "journal", "tz_off", "deftime", "smin", "smax",
             "style", "group_by", "sel", "src", "tags")


def check_cases(run, tcases, st, distinct=None, tag="T05"):
    res = harness_run([request(tc) for tc in tcases])
    terms, keep = [], []
    for tc, rr in zip(tcases, res):
        stg = rr.get("stage") if rr else "none"
        st["stages"][stg] = st["stages"].get(stg, 0) + 1
        if stg != "done":
            tc["skipped"] = "stage " + str(stg)
            continue          # configuration errors, rejected journals, overflow panics: subject of C07 / C15
        rs = rr["results"]
        if any(x.get("panic") for x in rs) or not all("ok" in x for x in rs):
            st["op_failed"] += 1
            tc["skipped"] = "op failed"
            continue
        txns, text, data = rs[0]["ok"], rs[1]["ok"], rs[2]["ok"]
        amounts = [p["amount"] for t in txns for p in t["posts"]]
        if any(T1.is_neg_zero(f) for f in T1.figures(tc["kind"], data) + amounts):
            st["neg_zero_skipped"] += 1          # the sign of zero is outside the model (Dec.v)
            tc["skipped"] = "negative zero"
            continue
        body = T1.from_title(text, TITLES[tc["kind"]])
        if body is None:
            raise Infra("T05: title line %r not found in the %s report" % (TITLES[tc["kind"]], tc["kind"]))
        tc["txns_loaded"], tc["impl_text"], tc["data"] = txns, body, data
        terms.append("t05_case %s %s" % (args(tc, txns), g_str(body)))
        keep.append(tc)
    ok, log = coq_make(["corr/T05_corr.vo"])
    if not ok:
        raise Infra("coq build of corr/T05_corr.vo failed:\n" + log[-3000:])
    vals, errs = coq_eval(tag + "-" + run.prop, IMPORTS, terms)
    if errs:
        raise Infra("coq evaluation failed: " + errs[0])
    bad = []
    for tc, v in zip(keep, vals):
        n = as_N(v)
        if n is None:
            raise Infra("no result for a T05 text case")
        tc["bits"] = n
        if not (n & 4):
            st["outside_exact_domain"] += 1      # a product or a sum leaves 96 bits / 28 decimals: skipped, never reported
            tc["skipped"] = "outside the exact domain"
            continue
        st["compared"] += 1
        st["characters"] += len(tc["impl_text"])
        features(tc, tc["data"], st)
        if distinct is not None and tc["impl_text"].count("\n") > 3:
            distinct.add(tc["impl_text"])
            conv = tc["kind"] == "register" and any(x["target"] != x["comm"] for e in tc["data"] for x in e["rows"])
            if ("sample" not in st or (conv and not st["sample"].get("converted_rows"))) and len(tc["impl_text"]) < 1800:
                st["sample"] = {"kind": tc["kind"], "lookup_type": tc["lt"], "report_commodity": tc["rc"], "before_time": tc.get("before"),
                                "scale": "%d,%d" % (tc["smin"], tc["smax"]), "price_file": tc["file_text"], "journal": tc["journal"],
                                "text": tc["impl_text"], "result": n, "converted_rows": conv}
        if not (n & 2):
            st["oracle_failed"] += 1
        if not (n & 1) or not (n & 2):
            tc["first_diff"] = (n >> 3) - 1
            bad.append(tc)
    if bad:
        mv, errs = coq_eval(tag + "-" + run.prop + "-model", IMPORTS, ["t05_model_text %s" % args(tc, tc["txns_loaded"]) for tc in bad[:5]])
        if errs:
            raise Infra("coq evaluation of the model text failed: " + errs[0])
        for tc, v in zip(bad[:5], mv):
            mt = T1.parse_str(v)
            rep = replay_obj(tc, tc["first_diff"], mt)
            if not (tc["bits"] & 2):
                # the implementation's own text does not show the rounded exact sums of the documented conversion
                run.violation("the %s report text under price conversion does not show the exact sums of amount x documented rate, rounded "
                              "half away from zero to the report scale (end-to-end oracle T05_spec.%s on the implementation's text)"
                              % (tc["kind"], {"register": "register_text_ok", "balance": "balance_text_ok", "balgrp": "grp_text_ok"}[tc["kind"]]),
                              rep, found_input=(tc["kind"] != "balgrp"))
            else:
                run.cov["disagreements_checked"] += 1
                run.violation("correspondence broken: the model chain Price -> %s -> ReportText differs from the %s report text of the implementation "
                              "under price conversion (oracle clean on this input)"
                              % ({"register": "Register", "balance": "Balance", "balgrp": "Group/Balance"}[tc["kind"]], tc["kind"]),
                              rep, found_input=False)
    st["different"] += len(bad)
    return keep


# ---------------------------------------------------------------- stage of ./check C07
def derive(r, c, kind):
    """a text case from a case of the C07 check: same configuration, price file and journal"""
    smin, smax = r.choice(SCALES)
    return {"kind": kind, "lt": c["lt"], "rc": c["rc"], "before": c["before"], "before_ns": c["before_ns"],
            "entries": [{"ns": e["ns"], "base": e["base"], "rate": list(e["rate"]), "eq": e["eq"]} for e in c["entries"]],
            "file_text": c["file_text"], "journal": c["journal"], "tz_off": c.get("tz_off", 0), "deftime": c.get("deftime", 0),
            "smin": smin, "smax": smax, "style": r.choice(STYLES), "group_by": r.choice(list(GB_COQ)), "sel": [],
            "src": "C07:" + c.get("src", "gen"), "tags": list(c.get("tags") or [])}


def run_c07_stage(run, cases, limit=None):
    """violations registered by this stage carry "stage": "T05" in their replays (common.Run.in_stage)"""
    with run.in_stage("T05"):
        return _run_c07_stage(run, cases, limit)


def _run_c07_stage(run, cases, limit=None):
    """extra stage of the C07 check: every evaluated case of that check which loaded (stage done), lies in the exact
    domain and has distinct price keys is rendered as register, balance and balance-group text under a report scale
    drawn per case; the three texts are compared with the model chain and judged by the end-to-end oracle"""
    r = random.Random(run.rng.getrandbits(64))
    if limit is None:
        limit = 150 if run.tier == "quick" else 3000
    pool = [c for c in cases if c.get("stage") == "done" and c.get("bits") is not None and (c["bits"] & 4) and (c["bits"] & 8) and (c["bits"] & 1)]
    corpus = [c for c in pool if c.get("src", "gen") != "gen"]
    gen = [c for c in pool if c.get("src", "gen") == "gen"][:max(0, limit - len(corpus))]
    tcases = []
    for c in corpus + gen:
        for kind in KINDS:
            tcases.append(derive(r, c, kind))
    st = new_stats()
    distinct = set()
    check_cases(run, tcases, st, distinct, tag="T05c07")
    st["distinct_texts"] = len(distinct)
    st["c07_cases_rendered"] = len(corpus) + len(gen)
    st.pop("sample", None)
    run.notes["text_under_conversion"] = st
    run.violations.sort(key=lambda v: not v[2])      # as in c07.main: violations with a concrete failing input first
    return st


# ---------------------------------------------------------------- own generator
POOL = C7.POOL


def rate_gen(r, smax):
    k = r.random()
    if k < 0.06:
        return (0, r.choice([0, 0, 2]))                               # zero rate: everything in that commodity is worth 0
    if k < 0.12:
        return (-r.randint(1, 5000), r.randint(0, 3))                 # negative rate
    if k < 0.30:
        return (r.choice([5, 25, 75, 125, 15, 35, 45]), r.randint(1, 3))   # x.5-like rates: mid-points after conversion
    if k < 0.36:
        s = r.randint(18, 28)                                         # up to 28 decimals
        return (r.randint(1, 10 ** r.randint(1, 27 - max(0, s - 27))), s)
    if k < 0.85:
        return (r.randint(1, 50000), r.randint(0, 4))
    return (r.randint(1, 10 ** 9), r.randint(0, 9))


def amount_gen(r, smax):
    k = r.random()
    sg = r.choice([1, -1])
    if k < 0.25:
        return (sg * r.choice([1, 3, 5, 7, 15, 25, 35, 101, 999, 9995]), r.randint(0, 3))   # with x.5 rates: exact mid-points
    if k < 0.35 and smax < 20:
        return (sg * (int("9" * r.randint(1, 6)) * 10 + r.choice([4, 5, 9])), smax + 1)     # carries (9.995 -> 10.00), also negative
    if k < 0.45:
        return (sg * r.randint(1, 9), r.randint(0, 8))                                      # tiny: rounds to zero
    if k < 0.85:
        return (sg * r.randint(1, 5000), r.choice([0, 0, 1, 2]))
    return (sg * r.randint(1, 10 ** 10), r.randint(0, 6))


def gen_case(r, i, kind=None):
    C7.ZONE["off"] = r.choice(C7.ZONES) if r.random() < 0.2 else 0
    C7.ZONE["def"] = r.choice(C7.DEFTIMES) if r.random() < 0.15 else 0
    smin, smax = SCALES[i % len(SCALES)]
    if r.random() < 0.1:
        a, b = r.randint(0, 28), r.randint(0, 28)
        smin, smax = min(a, b), max(a, b)
    anc = C7.anchors(r)
    comms = r.sample(POOL, r.choice([1, 2, 2, 3, 3, 4]))
    k = r.random()
    tgt = r.choice(comms) if k < 0.6 else r.choice(POOL)
    lt = r.choice(["txn-time"] * 6 + ["last-price"] * 4 + ["given-time"] * 4 + ["none"])
    g = J.Gen(r, max_depth=r.choice([1, 2, 3]), n_accounts=r.randint(2, 5), comms=comms)
    accounts = g.accounts
    txns = []
    for _ in range(r.randint(1, 5)):
        c = r.choice(comms + [""]) if r.random() < 0.85 else ""
        ns = C7.around(r, anc)
        posts, total = [], (0, 0)
        for _ in range(r.randint(1, 4)):
            amt = amount_gen(r, smax)
            acc = r.choice(accounts if r.random() < 0.8 else accounts[:1])      # the same account several times in one entry
            others = [x for x in comms if x != c]
            if c and others and r.random() < 0.55:
                f = r.choice(others)
                pr = (r.randint(1, 900), r.randint(0, 2))
                posts.append({"acc": acc, "amount": amt, "comm": f, "closing": ("@", pr, c), "opening": None, "comment": None})
                total = J.add(total, (amt[0] * pr[0], amt[1] + pr[1]))
            else:
                posts.append({"acc": acc, "amount": amt, "comm": c, "closing": None, "opening": None, "comment": None})
                total = J.add(total, amt)
        if total[0] == 0:
            posts.append({"acc": r.choice(accounts), "amount": (7, 0), "comm": c, "closing": None, "opening": None, "comment": None})
            total = J.add(total, (7, 0))
        last = None
        if r.random() < 0.3:
            last = {"acc": r.choice(accounts), "comment": None}
        else:
            posts.append({"acc": r.choice(accounts), "amount": J.neg(total), "comm": c, "closing": None, "opening": None, "comment": None})
        t = {"ts": C7.fmt_ts(r, ns), "ns": ns, "code": None, "desc": None, "uuid": None, "loc": None, "tags": None,
             "comments": [], "posts": posts, "last": last}
        if r.random() < 0.3:
            t["code"] = r.choice(["#1", "a b", "X"])
        if r.random() < 0.3:
            t["desc"] = r.choice(["desc", "it's (c)", "ünï ¢"])
        txns.append(t)
    ents = C7.gen_entries(r, comms, tgt, anc)
    have = {(e["ns"], e["base"], e["eq"]) for e in ents}
    for b in comms:                 # mostly there is a price before every transaction: conversions happen
        if b != tgt and r.random() < 0.65:
            ns0 = min(anc) - r.randint(401, 430) * C7.DAY
            if (ns0, b, tgt) not in have:
                ents.insert(r.randint(0, len(ents)), {"ns": ns0, "base": b, "rate": None, "eq": tgt, "ts": C7.fmt_ts(r, ns0), "tail": "", "sp": [" "] * 4})
    for e in ents:
        e["rate"] = rate_gen(r, smax)
    sel = []
    if r.random() < 0.25:
        sel = r.sample(accounts, min(len(accounts), r.randint(1, 2)))
    tc = {"kind": kind or KINDS[i % 3], "lt": lt, "rc": tgt, "before": None, "before_ns": None,
          "entries": [{"ns": e["ns"], "base": e["base"], "rate": list(e["rate"]), "eq": e["eq"]} for e in ents],
          "file_text": C7.file_text(r, ents), "journal": J.print_journal(txns), "tz_off": C7.ZONE["off"], "deftime": C7.ZONE["def"],
          "smin": smin, "smax": smax, "style": r.choice(STYLES), "group_by": r.choice(list(GB_COQ)), "sel": sel, "src": "gen", "tags": []}
    if lt == "given-time":
        tc["before_ns"] = C7.around(r, sorted(set(anc + [e["ns"] for e in ents])))
        tc["before"] = C7.fmt_ts(r, tc["before_ns"], zoneless=(True if r.random() < 0.5 else None))
    if r.random() < 0.03:
        tc["rc"] = None if lt == "none" else tc["rc"]
    return tc


def corpus_cases():
    out = []
    cdir = os.path.join(VERIF, "corpus", "T05")
    if os.path.isdir(cdir):
        for f in sorted(os.listdir(cdir)):
            if f.endswith(".json"):
                for j, c in enumerate(json.load(open(os.path.join(cdir, f)))):
                    base = {"before": None, "before_ns": None, "tz_off": 0, "deftime": 0, "smin": 2, "smax": 2, "style": "date",
                            "group_by": "month", "sel": [], "tags": [], "src": "corpus/%s#%d" % (f, j)}
                    base.update(c)
                    if "file_text" not in base:
                        base["file_text"] = "".join("P %s %s %s %s\n" % (e["ts"], e["base"], J.dec_str(*e["rate"]), e["eq"]) for e in base["entries"])
                    for kind in (base.pop("kinds", None) or [base.get("kind", "register")]):
                        d = dict(base); d["kind"] = kind
                        out.append(d)
    return out


def run_text_stage(run, n=None):
    """violations registered by this stage carry "stage": "T05" in their replays (common.Run.in_stage)"""
    with run.in_stage("T05"):
        return _run_text_stage(run, n)


def _run_text_stage(run, n=None):
    if n is None:
        n = 150 if run.tier == "quick" else 2400
    r = run.rng
    tcases = corpus_cases() + [gen_case(r, i) for i in range(n)]
    st = new_stats()
    distinct = set()
    kept = check_cases(run, tcases, st, distinct)
    st["distinct_texts"] = len(distinct)
    st["corpus_cases"] = {tc["src"] + ":" + tc["kind"]: (tc.get("skipped") or ("bits=%d" % tc.get("bits", -1))) for tc in tcases if tc["src"] != "gen"}
    run.notes["text_under_conversion"] = st
    return st
