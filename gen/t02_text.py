# T02 (extension) — the TEXT of the equity export, byte for byte.
# run_text_stage(run, n=None) is the stage of ./check T02 (and can be added to the C10 check): it
# exports seeded journals with the implementation (op equity), evaluates the model
# coq/model/EquityText.v (print_equity of Equity.equity of the same transaction set) and compares the
# two texts character by character (coq/corr/T02_corr.v).  The WORDING of the comment lines under a
# header is not modelled - neither the rendering of the metadata items nor the text of the comment
# block written when the selected balances of a commodity already cancel (no property speaks about
# either) - their PLACE is: the stage cuts the header comment lines of every transaction out of the
# implementation's own text (the lines after the header line that start with "   ; ", up to the first
# posting line) and splits them the way the code writes them:
#   * first the metadata block: one item per metadata item of the transaction set (their number is
#     known from the session: op `metadata`, absent when the set has no metadata) plus the account
#     selector checksum item iff the set has metadata and audit mode is on; every item ends with the
#     empty comment "   ; " (md: list of items, cut from the first transaction);
#   * whatever follows is the warning block (warn: list of text lines; the first non-empty such block
#     of the export, [] when there is none).
# The model (print_equity md warn es) has to put md back under EVERY header and warn under exactly the
# headers whose sum is zero (e_warn - the model's decision, not the observation's): comment lines
# observed where the sum is not zero, two different blocks, or metadata that differs between the
# transactions make the texts differ.  (An absent block where the sum is zero is warn = [] and
# agrees: C10 does not demand the comment.)  A difference is a broken correspondence
# (no numbered property speaks about the layout): always reported as no-failing-input-found.
# Additionally the implementation's text is read by the journal grammar model (Journal.parse_journal)
# and must yield exactly the model's transactions (EquityText_spec.text_reads_as, sound by
# T02_oracle_sound) whenever the export is well formed (export_wf, the hypothesis of T02's theorems).
import json, os, re
from common import *
import journal as J
import c10 as C10          # generator, request and emitters of the C10 check are reused, not edited

IMPORTS = ("From TkModel Require Import Base Dec Acct Txn Balance Accept Equity Journal EquityText.\n"
           "From TkSpec Require Import Balance_spec Equity_spec Journal_spec EquityText_spec.\n"
           "From TkCorr Require Import C10_corr T02_corr.\n")

CPREFIX = "   ; "


def header_comments(text):
    """export text -> per transaction (chunk of non-empty lines) the texts of its header comment lines:
    the run of lines after the header line that start with `   ; ` (prefix removed), up to the first
    other line (a posting line; a comment written differently, e.g. `   ;` alone, also ends the run
    and is then shown by the comparison)."""
    out, cur, state = [], None, 0          # state 0: between transactions, 1: in the comment run, 2: postings
    for l in text.split("\n"):
        if l == "":
            state = 0
        elif state == 0:
            cur = []; out.append(cur); state = 1
        elif state == 1 and l.startswith(CPREFIX):
            cur.append(l[len(CPREFIX):])
        else:
            state = 2
    return out


def session_md_items(mdtext, audit):
    """number of items of the metadata block under every header, from the session (not from the export
    text): the items of the transaction set's metadata (Metadata::text = every item's lines followed
    by an empty line) plus the account selector checksum item, which the exporter adds iff the set
    has metadata and a hash is configured (audit mode)."""
    if mdtext is None:
        return 0
    return mdtext.split("\n").count("") + (1 if audit else 0)


def split_comments(blocks, n_items):
    """header comment texts per transaction -> (md items, warn lines, well-shaped?).
    md = the first n_items items (an item ends with the empty text) of the first transaction;
    warn = the first non-empty remainder over all transactions."""
    if not blocks:
        return [], [], True
    items, cur, k = [], [], 0
    for l in blocks[0]:
        if len(items) == n_items:
            break
        k += 1
        if l == "":
            items.append(cur); cur = []
        else:
            cur.append(l)
    shaped = len(items) == n_items
    if not shaped:
        items.append(cur)                  # fewer terminated items than the session has: let the comparison show it
    warn = []
    for b in blocks:
        if len(b) > k:
            warn = b[k:]
            break
    return items, warn, shaped


def g_warn(lines):
    if not lines:
        return "(@nil (list N))"
    return g_list([g_str(l) for l in lines])


def request(c):
    """the request of the C10 check plus the session's metadata text (extent of the metadata block)"""
    r = C10.request1(c)
    r["ops"] = list(r["ops"]) + [{"op": "metadata"}]
    return r


def g_md(items):
    if not items:
        return "(@nil (list (list N)))"
    return g_list([g_list([g_str(l) for l in it]) if it else "(@nil (list N))" for it in items])


def parse_str(v):
    return "".join(chr(int(x)) for x in re.findall(r"\d+", v or ""))


def args_of(c):
    return "%s %s %s %s %s" % (g_list([C10.g_txn(t) for t in c["txns"]]) if c["txns"] else "(@nil txn)",
                               g_acct(c["eqa"]), C10.g_sel(c["sel"]), g_md(c["md"]), g_warn(c["warn"]))


def new_stats():
    return {"stages": {}, "op_failed": 0, "compared": 0, "different": 0, "oracle_failed": 0, "outside_decimal_domain": 0,
            "well_formed_exports": 0, "not_well_formed": 0, "characters": 0, "lines": 0, "transactions": 0,
            "empty_exports": 0, "with_metadata": 0, "metadata_items": {}, "metadata_block_not_shaped": 0, "with_warning": 0,
            "warning_blocks": {}, "with_balancing_posting": 0,
            "with_uuid_in_header": 0, "with_commodity": 0, "multi_commodity": 0, "negative_zero_skipped": 0}


def corpus_cases():
    out = list(C10.load_corpus())
    cdir = os.path.join(VERIF, "corpus", "T02")
    if os.path.isdir(cdir):
        for f in sorted(os.listdir(cdir)):
            if f.endswith(".json"):
                c = json.load(open(os.path.join(cdir, f)))
                c["sel"] = None if c.get("sel") is None else [(bool(e), s) for (e, s) in c["sel"]]
                c.setdefault("audit", False); c.setdefault("via_cli_accounts", False); c.setdefault("prices_configured", False)
                c["tags"] = list(c.get("tags", [])); c["src"] = "corpus/T02/" + f
                out.append(c)
    return out


def check_cases(run, cases, st, distinct=None):
    res = harness_run([request(c) for c in cases])
    terms, keep = [], []
    for c, rr in zip(cases, res):
        stg = rr.get("stage") if rr else "none"
        st["stages"][stg] = st["stages"].get(stg, 0) + 1
        if c.get("expect_stage") and stg != c["expect_stage"]:
            # hand-made case with a stated outcome: e.g. an equity account name outside the journal grammar must be
            # rejected by the configuration (the export written with it is not a journal: T02_eq_account_ok_insufficient)
            rep = dict(C10.replay_obj(c))
            rep.update({"expected_stage": c["expect_stage"], "observed_stage": stg, "error": (rr or {}).get("err"),
                        "export_text": ((rr or {}).get("results") or [{}, {}])[1].get("ok") if stg == "done" else None})
            run.violation("corpus case %s: expected the run to end at stage %r, it ended at %r (an equity account name the journal "
                          "grammar cannot read must be rejected at start-up, otherwise the export is not a journal)"
                          % (c.get("src"), c["expect_stage"], stg), rep, found_input=(stg == "done"))
            continue
        if stg != "done":
            continue                      # rejected configuration (invalid equity account), load error ...: C10 / C15
        txns, eq, bal, mdt = rr["results"]
        if "ok" not in txns or "ok" not in eq or "ok" not in mdt:
            st["op_failed"] += 1           # overflow etc.: subject of C10 / C02
            continue
        c["txns"], c["impl_text"] = txns["ok"], eq["ok"]
        if any(p["amount"]["n"] and int(p["amount"]["m"]) == 0 for t in c["txns"] for p in t["posts"]):
            st["negative_zero_skipped"] += 1
            continue
        c["md_items_in_session"] = session_md_items(mdt["ok"], c["audit"])
        c["md"], c["warn"], c["md_shaped"] = split_comments(header_comments(c["impl_text"]), c["md_items_in_session"])
        terms.append("t02_case %s %s" % (args_of(c), g_str(c["impl_text"])))
        keep.append(c)
    ok, log = coq_make(["corr/T02_corr.vo"])
    if not ok:
        raise Infra("coq build of corr/T02_corr.vo failed:\n" + log[-3000:])
    vals, errs = coq_eval("T02-" + run.prop, IMPORTS, terms) if terms else ([], [])
    if errs:
        raise Infra("coq evaluation failed: " + errs[0])
    bad = []
    for c, v in zip(keep, vals):
        n = as_N(v)
        if n is None:
            raise Infra("no result for a T02 text case (%s)" % c.get("src"))
        if not (n & 4):
            st["outside_decimal_domain"] += 1
            continue
        st["compared"] += 1
        text = c["impl_text"]
        st["characters"] += len(text)
        lines = text.split("\n")
        st["lines"] += len(lines) - 1
        hdrs = [l for l in lines if l[:1].isdigit()]
        st["transactions"] += len(hdrs)
        st["empty_exports"] += text == ""
        st["with_metadata"] += bool(c["md"])
        for it in c["md"]:
            k = it[0] if it else "(empty)"
            st["metadata_items"][k] = st["metadata_items"].get(k, 0) + 1
        st["metadata_block_not_shaped"] += not c["md_shaped"]
        st["with_warning"] += bool(c["warn"])
        if c["warn"]:
            k = "\n".join(c["warn"])
            st["warning_blocks"][k] = st["warning_blocks"].get(k, 0) + 1
        st["with_balancing_posting"] += ("   " + c["eqa"] + "  ") in text
        st["with_uuid_in_header"] += any("last txn (uuid)" in h for h in hdrs)
        st["with_commodity"] += any("'Equity for " in h for h in hdrs)
        st["multi_commodity"] += len(hdrs) > 1
        st["well_formed_exports" if n & 8 else "not_well_formed"] += 1
        if distinct is not None and text:
            distinct.add(text)
            if "sample" not in st and 2 < len(lines) < 40 and c.get("src") == "gen":
                st["sample"] = {"journal": c["text"], "equity_account": c["eqa"],
                                "selectors": None if c["sel"] is None else C10.sel_patterns(c["sel"]),
                                "metadata_items": c["md"], "warning_lines": c["warn"], "text": text, "result": n}
        c["oracle_failed"] = bool(n & 8) and not (n & 2)
        if c["oracle_failed"]:
            st["oracle_failed"] += 1
        if not (n & 1) or c["oracle_failed"]:
            c["first_diff"] = (n >> 4) - 1
            bad.append(c)
    if bad:
        mv, errs = coq_eval("T02-%s-model" % run.prop, IMPORTS, ["t02_model_text %s" % args_of(c) for c in bad[:5]])
        if errs:
            raise Infra("coq evaluation of the model text failed: " + errs[0])
        for c, v in zip(bad[:5], mv):
            mt = parse_str(v)
            i = c["first_diff"]
            rep = dict(C10.replay_obj(c))
            rep.update({"correspondence": "T02_corr.t02_case", "case": {k: c.get(k) for k in ("text", "eqa", "sel", "audit", "via_cli_accounts",
                                                                                                 "prices_configured", "filter", "src")},
                        "metadata_items_cut_from_implementation_text": c["md"],
                        "metadata_items_in_session": c["md_items_in_session"], "metadata_block_has_that_many_items": c["md_shaped"],
                        "warning_lines_cut_from_implementation_text": c["warn"], "first_differing_character": i,
                        "implementation_text": c["impl_text"], "model_text": mt,
                        "implementation_around": c["impl_text"][max(0, i - 60):i + 20] if i >= 0 else None,
                        "model_around": mt[max(0, i - 60):i + 20] if i >= 0 else None,
                        "grammar_model_reads_implementation_text_as_model_transactions": not c["oracle_failed"],
                        "replay_hint": "./check T02 --replay <this file>; tackler --config <tackler_toml> --input.file <journal> --exports equity"})
            run.cov["disagreements_checked"] += 1
            what = "correspondence broken: EquityText.print_equity differs from the equity export text of the implementation"
            if c["oracle_failed"] and i < 0:
                what = ("correspondence broken: EquityText.print_equity equals the implementation's text but Journal.parse_journal does not "
                        "read it as the model's transactions (contradicts T02_parse_export)")
            run.violation(what, rep, found_input=False)
    st["different"] += len(bad)
    return keep


def run_text_stage(run, n=None):
    """violations registered by this stage carry "stage": "T02" in their replays (common.Run.in_stage)"""
    with run.in_stage("T02"):
        return _run_text_stage(run, n)


def _run_text_stage(run, n=None):
    """the harness must be built (harness_build()). Returns the counts (also stored in run.notes["text_equity"])."""
    if n is None:
        n = 120 if run.tier == "quick" else 1500
    cases = corpus_cases() + [C10.gen_case(run.rng, i) for i in range(n)]
    st = new_stats()
    distinct = set()
    check_cases(run, cases, st, distinct)
    st["distinct_texts"] = len(distinct)
    run.notes["text_equity"] = st
    return st
