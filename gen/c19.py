# C19 — command-line options override the configuration file key by key
import json, os, shutil, itertools
from concurrent.futures import ThreadPoolExecutor
from common import *
import journal as J

IMPORTS = "From TkModel Require Import Base Config.\nFrom TkCorr Require Import C19_corr.\n"
REPORTS = ["balance", "balance-group", "register"]
EXPORTS = ["equity", "identity"]
GROUPS = ["year", "month", "date", "iso-week", "iso-week-date"]
GDBG = {"Year": 0, "Month": 1, "Date": 2, "IsoWeek": 3, "IsoWeekDate": 4}
RDBG = {"Balance": 0, "BalanceGroup": 1, "Register": 2}
EDBG = {"Equity": 0, "Identity": 1}
LOOKUPS = ["none", "txn-time", "last-price", "given-time"]
SELS = [["a.*"], ["e:.*", "a"], ["x"], [], ["a:b", "e"], [".*:c"]]
JOURNAL = """2024-01-05 'one
 # uuid: 11111111-1111-4111-8111-111111111111
 a:b  10 ACME
 e:c  -10 ACME

2024-02-10T12:00:00Z 'two
 # uuid: 22222222-2222-4222-8222-222222222222
 a  2.5 EUR
 e:c  -2.5 EUR

2024-03-15 (c3) 'three
 # uuid: 33333333-3333-4333-8333-333333333333
 x  1
 a:b  -1
"""
# the same journal with a tag that the (empty) chart of tags does not declare: acceptable only with strict mode off
JOURNAL_TAGGED = JOURNAL.replace(" # uuid: 22222222-2222-4222-8222-222222222222\n", " # uuid: 22222222-2222-4222-8222-222222222222\n # tags: undeclared\n")
PRICES = "P 2024-01-01 ACME 2 EUR\nP 2024-02-01 ACME 3 EUR\nP 2024-01-01 USD 0.9 EUR\n"
ACCOUNTS = 'accounts = [ "a", "a:b", "e:c", "x", "Equity:Balance" ]\n'
ACCOUNTS_NO_EQ = 'accounts = [ "a", "a:b", "e:c", "x" ]\n'
COMMS = 'permit-empty-commodity = true\ncommodities = [ "ACME", "EUR", "USD" ]\n'
TAGS = 'tags = [ ]\n'


def rand_file(r):
    return {"strict": r.random() < 0.4, "audit": r.random() < 0.4,
            "reports": r.sample(REPORTS, r.randint(0, 3)), "exports": r.sample(EXPORTS, r.randint(0, 2)),
            "accounts": r.choice([None, None] + SELS), "bal": r.choice([None, None] + SELS), "balgrp": r.choice([None, None] + SELS),
            "reg": r.choice([None, None] + SELS), "eq": r.choice([None, None] + SELS),
            "commodity": r.choice([None, "EUR", "EUR", "USD"]), "lookup": r.choice([0, 0, 1, 2]), "db": r.random() < 0.7,
            "group_by": r.randrange(5), "eq_declared": r.random() < 0.6, "tagged": r.random() < 0.3}


def rand_cli(r, p=0.35):
    def opt(v):
        return v if r.random() < p else None
    return {"strict": opt(r.random() < 0.5), "audit": opt(r.random() < 0.5),
            "reports": opt(r.sample(REPORTS, r.randint(1, 3))), "exports": opt(r.sample(EXPORTS, r.randint(1, 2))),
            "accounts": opt(r.choice([x for x in SELS if x] + [[""], ["", "a.*"]])), "commodity": opt(r.choice(["EUR", "USD"])),
            "lookup": opt(r.choice([0, 1, 2, 3])), "db": opt(True), "before": opt(r.choice(["2024-02-01T00:00:00Z", "2024-01-15"])),
            "group_by": opt(r.randrange(5))}


def file_fix(f):
    # a file that the configuration loader itself accepts: lookup != none needs db-path and commodity handled by try_from
    if f["lookup"] != 0:
        f["db"] = True
    return f


def toml_of(f, prices_name="prices.db"):
    def acc(k):
        return "" if f[k] is None else ", accounts = %s" % J.toml_list(f[k])
    price = ""
    if f["db"] or f["lookup"] != 0:
        price = '[price]\ndb-path = "%s"\nlookup-type = "%s"\n' % (prices_name if f["db"] else "none", LOOKUPS[f["lookup"]])
    return J.make_toml(strict="true" if f["strict"] else "false", audit="true" if f["audit"] else "false",
                       accounts="accounts.toml", commodities="commodities.toml", tags="tags.toml", price=price,
                       rcomm=("" if f["commodity"] is None else 'commodity = "%s"' % f["commodity"]),
                       raccounts=("" if f["accounts"] is None else "accounts = %s" % J.toml_list(f["accounts"])),
                       targets=", ".join('"%s"' % x for x in f["reports"]), exports=", ".join('"%s"' % x for x in f["exports"]),
                       bal_acc=acc("bal"), balgrp_acc=acc("balgrp"), reg_acc=acc("reg"), eq_acc=acc("eq"), group_by=GROUPS[f["group_by"]])


def overlaps_of(c):
    o = {}
    for k in ("strict", "audit", "reports", "exports", "accounts", "commodity"):
        if c[k] is not None:
            o[k] = c[k]
    if c["accounts"] is not None:
        o["accounts"] = [a for a in c["accounts"] if a != ""]      # what get_overlaps passes on (after the F7 repair)
    if c["lookup"] is not None:
        o["lookup_type"] = LOOKUPS[c["lookup"]]
    if c["db"]:
        o["db_path"] = "prices2.db"
    if c["before"] is not None:
        o["before_time"] = c["before"]
    if c["group_by"] is not None:
        o["group_by"] = GROUPS[c["group_by"]]
    return o


def cli_args(c, base):
    a = []
    for k, flag in (("strict", "--strict.mode"), ("audit", "--audit.mode")):
        if c[k] is not None:
            a += [flag, "true" if c[k] else "false"]
    if c["reports"] is not None:
        a += ["--reports"] + c["reports"]
    if c["exports"] is not None:
        a += ["--exports"] + c["exports"]
    if c["accounts"] is not None:
        a += ["--accounts"] + c["accounts"]
    if c["commodity"] is not None:
        a += ["--report.commodity", c["commodity"]]
    if c["lookup"] is not None:
        a += ["--price.lookup-type", LOOKUPS[c["lookup"]]]
    if c["db"]:
        a += ["--pricedb", os.path.join(base, "prices2.db")]
    if c["before"] is not None:
        a += ["--price.before", c["before"]]
    if c["group_by"] is not None:
        a += ["--group-by", GROUPS[c["group_by"]]]
    return a


def merged(f, c):
    m = dict(f)
    for k in ("strict", "audit", "reports", "exports", "commodity", "lookup", "group_by"):
        if c[k] is not None:
            m[k] = c[k]
    if c["accounts"] is not None:
        m["accounts"] = [a for a in c["accounts"] if a != ""]
        for k in ("bal", "balgrp", "reg", "eq"):
            m[k] = None
    if c["db"]:
        m["db"] = "cli"
    return m


def g_strs(l):
    return g_list([g_str(x) for x in l])


def g_file(f):
    o = lambda v: "None" if v is None else "(Some %s)" % g_strs(v)
    return "(mkFile %s %s %s %s %s %s %s %s %s %s %s %s %s %s)" % (
        g_bool(f["strict"]), g_bool(f["audit"]), g_list([g_N(REPORTS.index(x)) for x in f["reports"]]),
        g_list([g_N(EXPORTS.index(x)) for x in f["exports"]]), o(f["accounts"]), o(f["bal"]), o(f["balgrp"]), o(f["reg"]), o(f["eq"]),
        g_opt(f["commodity"], g_str), g_N(f["lookup"]), ("(Some %s)" % g_str("f")) if f["db"] else "None", g_N(f["group_by"]),
        g_bool(f.get("eq_declared", True)))


def g_cli(c):
    ob = lambda v: "None" if v is None else "(Some %s)" % g_bool(v)
    return "(mkCli %s %s %s %s %s %s %s %s %s %s)" % (
        ob(c["strict"]), ob(c["audit"]),
        "None" if c["reports"] is None else "(Some %s)" % g_list([g_N(REPORTS.index(x)) for x in c["reports"]]),
        "None" if c["exports"] is None else "(Some %s)" % g_list([g_N(EXPORTS.index(x)) for x in c["exports"]]),
        "None" if c["accounts"] is None else "(Some %s)" % g_strs(c["accounts"]),
        g_opt(c["commodity"], g_str), "None" if c["lookup"] is None else "(Some %s)" % g_N(c["lookup"]),
        ("(Some %s)" % g_str("c")) if c["db"] else "None", g_opt(c["before"], g_str),
        "None" if c["group_by"] is None else "(Some %s)" % g_N(c["group_by"]))


def g_eff(s):
    return "(mkEff %s %s %s %s %s %s None None %s %s %s %s %s)" % (
        g_bool(s["strict"]), g_bool(s["audit"]), g_list([g_N(RDBG[x]) for x in s["reports"]]), g_list([g_N(EDBG[x]) for x in s["exports"]]),
        g_opt(s["commodity"], g_str), g_N(LOOKUPS.index(s["lookup"]["type"])), g_N(GDBG[s["group_by"]]),
        g_strs(s["ras_balance"]), g_strs(s["ras_balgrp"]), g_strs(s["ras_register"]), g_strs(s["ras_equity"]))


def write_world(base, f):
    shutil.rmtree(base, ignore_errors=True)
    os.makedirs(os.path.join(base, "txns"))
    open(os.path.join(base, "txns", "j.txn"), "w").write(JOURNAL_TAGGED if f.get("tagged") else JOURNAL)
    open(os.path.join(base, "tackler.toml"), "w").write(toml_of(f))
    open(os.path.join(base, "accounts.toml"), "w").write(ACCOUNTS if f.get("eq_declared", True) else ACCOUNTS_NO_EQ)
    open(os.path.join(base, "commodities.toml"), "w").write(COMMS)
    open(os.path.join(base, "tags.toml"), "w").write(TAGS)
    open(os.path.join(base, "prices.db"), "w").write(PRICES)
    open(os.path.join(base, "prices2.db"), "w").write(PRICES.replace(" 2 EUR", " 7 EUR"))


def input_scenarios(run, only=None):
    """fixed worlds: every input option against the same value written into the configuration file
    (only: the name of the one scenario to run, for replays)"""
    import subprocess
    root = os.path.join(CACHE, "c19i-%d" % os.getpid())
    shutil.rmtree(root, ignore_errors=True)
    os.makedirs(os.path.join(root, "txns"))
    os.makedirs(os.path.join(root, "alt", "deep"))
    os.makedirs(os.path.join(root, "one"))
    T = lambda d, n, a: "2024-01-%02d '%s\n a  %d\n b  -%d\n" % (d, n, a, a)
    open(os.path.join(root, "txns", "a.txn"), "w").write(T(1, "fs-default", 1))
    open(os.path.join(root, "alt", "deep", "b.jrn"), "w").write(T(2, "alt-jrn", 2))
    open(os.path.join(root, "alt", "c.txn"), "w").write(T(3, "alt-txn", 3))
    open(os.path.join(root, "one", "single.txn"), "w").write(T(4, "single-file", 4))
    env = dict(os.environ, GIT_AUTHOR_NAME="v", GIT_AUTHOR_EMAIL="v@v", GIT_COMMITTER_NAME="v", GIT_COMMITTER_EMAIL="v@v",
               GIT_CONFIG_GLOBAL="/dev/null", GIT_CONFIG_SYSTEM="/dev/null")
    w = os.path.join(root, "repo")
    os.makedirs(os.path.join(w, "j"))

    def g(*a):
        subprocess.run(["git"] + list(a), cwd=w, env=env, check=True, capture_output=True)
    g("init", "-q", "-b", "main", ".")
    open(os.path.join(w, "j", "m.jrn"), "w").write(T(5, "git-main-jrn", 5))
    open(os.path.join(w, "j", "m.txn"), "w").write(T(6, "git-main-txn", 6))
    g("add", "-A"); g("commit", "-q", "-m", "one")
    sha1 = subprocess.run(["git", "rev-parse", "HEAD"], cwd=w, env=env, capture_output=True, text=True).stdout.strip()
    g("checkout", "-q", "-b", "other")
    open(os.path.join(w, "j", "o.jrn"), "w").write(T(7, "git-other-jrn", 7))
    g("add", "-A"); g("commit", "-q", "-m", "two")
    g("checkout", "-q", "main")

    def conf(name, storage="fs", fs=("txns", "txn"), git=None):
        inp = 'input = { storage = "%s", fs = { dir = "%s", suffix = "%s" }' % (storage, fs[0], fs[1])
        if git:
            inp += ', git = { repo = "%s", ref = "%s", dir = "%s", suffix = "%s" }' % git
        inp += " }"
        t = J.make_toml(targets='"register"').replace('input = { storage = "fs", fs = { dir = "txns", suffix = "txn" } }', inp)
        p = os.path.join(root, name + ".toml")
        open(p, "w").write(t)
        return p
    G = ("repo", "main", "j", "jrn")
    out = []
    try:
        def pair(name, a_conf, a_args, b_conf):
            if only is None or name == only:
                out.append((name, run_cli(["--config", a_conf] + a_args), run_cli(["--config", b_conf])))
        pair("fs_dir_ext", conf("s1a"), ["--input.fs.dir", os.path.join(root, "alt"), "--input.fs.ext", "jrn"], conf("s1b", fs=("alt", "jrn")))
        pair("input_file", conf("s2a"), ["--input.file", os.path.join(root, "one", "single.txn")], conf("s2b", fs=("one", "txn")))
        pair("storage_git", conf("s3a", git=G), ["--input.storage", "git"], conf("s3b", storage="git", git=G))
        pair("storage_fs", conf("s4a", storage="git", git=G), ["--input.storage", "fs"], conf("s4b", storage="fs", git=G))
        pair("git_ref", conf("s5a", storage="git", git=G), ["--input.git.ref", "other"], conf("s5b", storage="git", git=("repo", "other", "j", "jrn")))
        pair("git_commit", conf("s6a", storage="git", git=("repo", "other", "j", "jrn")), ["--input.git.commit", sha1], conf("s6b", storage="git", git=("repo", sha1, "j", "jrn")))
        # git selector options WITHOUT --input.git.repository while the file's default storage is fs:
        # the option selects git storage with the configured repository
        pair("git_ref_with_fs_default", conf("s8a", storage="fs", git=G), ["--input.git.ref", "other"],
             conf("s8b", storage="git", git=("repo", "other", "j", "jrn")))
        pair("git_commit_with_fs_default", conf("s9a", storage="fs", git=("repo", "other", "j", "jrn")), ["--input.git.commit", sha1],
             conf("s9b", storage="git", git=("repo", sha1, "j", "jrn")))
        pair("git_repository_suffix", conf("s7a", git=("nonexistent", "main", "x", "jrn")),
             ["--input.git.repository", os.path.join(root, "repo"), "--input.git.dir", "j", "--input.git.ref", "main"], conf("s7b", storage="git", git=G))
    finally:
        shutil.rmtree(root, ignore_errors=True)
    return out


def strict_scenarios(run, only=None):
    """(only: the name of the one scenario to run, for replays)"""
    root = os.path.join(CACHE, "c19s-%d" % os.getpid())
    shutil.rmtree(root, ignore_errors=True)
    variants = {
        "undeclared-tag": JOURNAL_TAGGED,
        "undeclared-account": JOURNAL.replace(" x  1\n", " not:declared  1\n"),
        "undeclared-commodity": JOURNAL.replace(" a  2.5 EUR\n e:c  -2.5 EUR\n", " a  2.5 XYZ\n e:c  -2.5 XYZ\n"),
        "undeclared-implicit-last-account": JOURNAL.replace(" x  1\n a:b  -1\n", " x  1\n not:declared\n"),
    }
    out = []
    try:
        k = 0
        for vname, text in variants.items():
            for file_strict in (False, True):
                for cli_strict in (False, True):
                    if only is not None and only != "%s/file=%s/cli=%s" % (vname, file_strict, cli_strict):
                        k += 1
                        continue
                    f = {"strict": file_strict, "audit": False, "reports": ["balance"], "exports": [], "accounts": None, "bal": None,
                         "balgrp": None, "reg": None, "eq": None, "commodity": None, "lookup": 0, "db": False, "group_by": 2, "eq_declared": True}
                    a, b = os.path.join(root, "a%d" % k), os.path.join(root, "b%d" % k)
                    write_world(a, f)
                    open(os.path.join(a, "txns", "j.txn"), "w").write(text)
                    fm = dict(f, strict=cli_strict)
                    write_world(b, fm)
                    open(os.path.join(b, "txns", "j.txn"), "w").write(text)
                    ra = run_cli(["--config", os.path.join(a, "tackler.toml"), "--strict.mode", "true" if cli_strict else "false"])
                    rb = run_cli(["--config", os.path.join(b, "tackler.toml")])
                    out.append(("%s/file=%s/cli=%s" % (vname, file_strict, cli_strict), ra, rb))
                    k += 1
    finally:
        shutil.rmtree(root, ignore_errors=True)
    return out


def main(run):
    info = proof_stage(run, "C19", extra_targets=["corr/C19_corr.vo"])
    harness_build()
    cli_build()
    r = run.rng
    n = 150 if run.tier == "quick" else 2500
    pairs = []
    cdir = os.path.join(VERIF, "corpus", "C19")
    if os.path.isdir(cdir):
        for fn in sorted(os.listdir(cdir)):
            if fn.endswith(".json"):
                j = json.load(open(os.path.join(cdir, fn)))
                pairs.append((j["file"], j["cli"]))
    for _ in range(n):
        pairs.append((file_fix(rand_file(r)), rand_cli(r, p=r.choice([0.15, 0.35, 0.6]))))
    # ---- (a) Settings::try_from through the harness vs the model
    distinct = set()
    stages = {}
    judge_settings(run, pairs, distinct, stages)
    # ---- (b) the real command line: options vs options written into the file
    root = os.path.join(CACHE, "c19-%d" % os.getpid())
    m = 40 if run.tier == "quick" else 400
    # corpus pairs run in both output modes; every other generated pair writes files (exports exist only then)
    ncorpus = len(pairs) - n
    cli_pairs = ([(f, c, True) for f, c in pairs[:ncorpus]] + [(f, c, False) for f, c in pairs[:ncorpus]]
                 + [pairs[ncorpus + k] + (k % 2 == 0,) for k in range(min(m, n))])

    def one(k):
        f, c, use_out = cli_pairs[k]
        return cli_pair(root, k, f, c, use_out=use_out)

    try:
        with ThreadPoolExecutor(max_workers=NPROC) as ex:
            outs = list(ex.map(one, range(len(cli_pairs))))
    finally:
        shutil.rmtree(root, ignore_errors=True)
    ncli = 0
    for k, (rc1, so1, se1), (rc2, so2, se2) in outs:
        f, c, use_out = cli_pairs[k]
        ncli += 1
        judge_cli(run, f, c, use_out, (rc1, so1, se1), (rc2, so2, se2), distinct)
    # ---- (d) strict mode from the file vs from the command line, on journals that use an undeclared
    #      tag / account / commodity: every use of strict mode must follow the effective value
    for name, a, b in strict_scenarios(run):
        judge_strict(run, name, a, b, distinct)
    # ---- (c) input storage / location options vs the same values in the file
    for name, a, b in input_scenarios(run):
        judge_input(run, name, a, b, distinct)
    run.cov["distinct_nontrivial"] = len(distinct)
    run.cov["rule"] = ("random (configuration file, option subset) pairs over strict, audit, report/export targets, global/per-report/equity "
                       "selectors, report commodity, price db and lookup type (+ --price.before), group-by; (a) Settings::try_from effective "
                       "settings vs model + per-key oracle; (b) real CLI: options vs merged file, stdout and exit status compared; "
                       "distinct = distinct outputs")
    run.notes["stages"] = stages
    run.notes["cli_pairs"] = ncli
    import t06_text   # extra stage (extension T06): a whole run of the binary (console text / output files) against T06_run.run_console / run_files
    with run.in_stage(lambda rep: "T07" if (rep.get("world") or {}).get("t07") else "T06"):      # for ./check C19 --replay (common.replay_begin)
        t06_text.run_stage(run, n=(25 if run.tier == "quick" else 300))
    return run.finish(info)


def judge_settings(run, pairs, distinct, stages):
    """(a): Settings::try_from through the harness vs the model and the per-key oracle"""
    reqs = []
    for f, c in pairs:
        reqs.append({"conf": {"toml": toml_of(f), "accounts": ACCOUNTS if f.get("eq_declared", True) else ACCOUNTS_NO_EQ,
                              "commodities": COMMS, "tags": TAGS, "pricedb": PRICES},
                     "overlaps": overlaps_of(c), "inputs": [{"text": JOURNAL}], "ops": [{"op": "settings"}]})
    # prices2.db must exist for db_path overlaps: the harness writes only prices.db -> reuse it
    for rq in reqs:
        if rq["overlaps"].get("db_path"):
            rq["overlaps"]["db_path"] = "prices.db"
    res = harness_run(reqs)
    terms, idx = [], []
    for i, ((f, c), rr) in enumerate(zip(pairs, res)):
        st = rr.get("stage")
        stages[st] = stages.get(st, 0) + 1
        if st == "settings":
            impl = "None"
        elif st == "done" and "ok" in rr["results"][0]:
            impl = "(Some %s)" % g_eff(rr["results"][0]["ok"])
        else:
            continue        # configuration-file or load errors: outside the overlay logic
        terms.append("c19_case %s %s %s" % (g_file(f), g_cli(c), impl))
        idx.append(i)
    vals, errs = coq_eval("C19", IMPORTS, terms)
    if errs:
        raise Infra("coq evaluation failed: " + errs[0])
    for i, v in zip(idx, vals):
        bits = as_N(v)
        if bits is None:
            raise Infra("no result")
        f, c = pairs[i]
        run.cov["evaluations"] += 1
        distinct.add(json.dumps(res[i].get("results", res[i].get("err", ""))[:1] if isinstance(res[i].get("results"), list) else "rejected", sort_keys=True))
        if len(run.cov["samples"]) < 2:
            run.cov["samples"].append({"file": f, "cli": c, "implementation": res[i].get("results", res[i].get("err"))})
        if not (bits & 2):
            run.violation("effective settings contradict 'option overrides the file key, file applies when the option is absent'",
                          {"file": f, "cli_options": c, "config_toml": toml_of(f), "overlaps": overlaps_of(c),
                           "implementation_settings": res[i].get("results"), "stage": res[i].get("stage"), "case": {"part": "settings"}})
        elif not (bits & 1):
            run.cov["disagreements_checked"] += 1
            run.violation("correspondence broken: Config.effective differs from Settings::try_from",
                          {"correspondence": "C19_corr.c19_case", "file": f, "cli_options": c,
                           "implementation": res[i].get("results", res[i].get("err")), "case": {"part": "settings"}}, found_input=False)


def cli_pair(root, k, f, c, use_out):
    """(b): tackler with the options c on the file f, and tackler on the merged file (use_out: both write files)"""
    base = os.path.join(root, "p%d" % k)
    write_world(base, f)
    def outargs(b):
        return ["--output.dir", os.path.join(b, "out"), "--output.prefix", "p"] if use_out else []
    def outfiles(b):
        d = os.path.join(b, "out")
        return {f: open(os.path.join(d, f), "rb").read().decode("utf-8", "replace") for f in sorted(os.listdir(d))} if os.path.isdir(d) else {}
    if use_out:
        os.makedirs(os.path.join(base, "out"))
    rc1, so1, se1 = run_cli(["--config", os.path.join(base, "tackler.toml")] + cli_args(c, base) + outargs(base))
    files1 = outfiles(base)
    fm = merged(f, c)
    base2 = os.path.join(root, "q%d" % k)
    write_world(base2, fm)
    if fm["db"] == "cli":
        shutil.copyfile(os.path.join(base2, "prices2.db"), os.path.join(base2, "prices.db"))
    rest = ["--price.before", c["before"]] if c["before"] is not None else []
    if use_out:
        os.makedirs(os.path.join(base2, "out"))
    rc2, so2, se2 = run_cli(["--config", os.path.join(base2, "tackler.toml")] + rest + outargs(base2))
    files2 = outfiles(base2)
    # announced paths differ by construction: compare the file CONTENTS, and stdout without the paths
    strip = lambda t, b: t.replace(b, "<dir>")
    so1 = strip(so1, base) + "".join("\n== %s ==\n%s" % kv for kv in files1.items())
    so2 = strip(so2, base2) + "".join("\n== %s ==\n%s" % kv for kv in files2.items())
    return k, (rc1, so1, se1), (rc2, so2, se2)


def judge_cli(run, f, c, use_out, a, b, distinct):
    (rc1, so1, se1), (rc2, so2, se2) = a, b
    run.cov["evaluations"] += 1
    distinct.add(so1[:4000])
    same = (rc1 == 0) == (rc2 == 0) and (rc1 != 0 or so1 == so2)
    if not same:
        run.violation("tackler with command-line options behaves differently from tackler with the same values written into the configuration file",
                      {"file": f, "cli_options": c, "command_line": cli_args(c, "<dir>"), "config_toml": toml_of(f),
                       "merged_config_toml": toml_of(merged(f, c)), "exit_with_options": rc1, "exit_with_merged_file": rc2,
                       "stdout_with_options": so1[:3000], "stdout_with_merged_file": so2[:3000], "stderr": (se1[-300:], se2[-300:]),
                       "case": {"part": "cli", "use_out": bool(use_out)}})


def judge_strict(run, name, a, b, distinct):
    run.cov["evaluations"] += 1
    (rc1, so1, se1), (rc2, so2, se2) = a, b
    distinct.add((name, rc1 == 0))
    if not ((rc1 == 0) == (rc2 == 0) and (rc1 != 0 or so1 == so2)):
        run.violation("strict-mode scenario '%s': --strict.mode and the same value written into the file give different results" % name,
                      {"scenario": name, "exit_with_option": rc1, "exit_with_file": rc2, "stdout_with_option": so1[:1500],
                       "stdout_with_file": so2[:1500], "stderr": (se1[-300:], se2[-300:]), "case": {"part": "strict"}})


def judge_input(run, name, a, b, distinct):
    run.cov["evaluations"] += 1
    (rc1, so1, se1), (rc2, so2, se2) = a, b
    distinct.add(so1[:2000])
    if not ((rc1 == 0) == (rc2 == 0) and (rc1 != 0 or so1 == so2)):
        kf = [f for f in load_findings("C19") if f.get("status") == "open" and f.get("class") == name]
        if kf:
            run.known_finding(kf[0]["what"])
        else:
            run.violation("input option scenario '%s': options and the same values written into the file give different results" % name,
                          {"scenario": name, "exit_with_options": rc1, "exit_with_file": rc2, "stdout_with_options": so1[:2500],
                           "stdout_with_file": so2[:2500], "stderr": (se1[-300:], se2[-300:]), "case": {"part": "input"}})


def replay(run, path):
    """by part: (a) the stored (file, options) pair through Settings::try_from + c19_case; (b) the same pair through the
    tackler binary, options vs merged file; (c)/(d) the stored scenario alone; replays of the T06 / T07 whole-run stage go
    to t06.replay / t07.replay (common.replay_begin)"""
    j, rp, rc = replay_begin(run, path)
    if rc is not None:
        return rc
    cs = rp.get("case") if isinstance(rp.get("case"), dict) else {}
    part = cs.get("part")
    if part is None and isinstance(rp.get("file"), dict) and isinstance(rp.get("cli_options"), dict) and "command_line" not in rp:
        part = "settings"                                   # files written before the key existed carry everything needed
    if part is None and "scenario" in rp:
        part = "strict" if "exit_with_option" in rp else "input"
    ok_pair = isinstance(rp.get("file"), dict) and isinstance(rp.get("cli_options"), dict)
    if part not in ("settings", "cli", "strict", "input") or (part in ("settings", "cli") and not ok_pair) or \
            (part in ("strict", "input") and not isinstance(rp.get("scenario"), str)):
        return replay_print(j)
    print(j.get("what"))
    distinct = set()
    if part in ("settings", "cli"):
        f, c = rp["file"], rp["cli_options"]
        print("configuration file:\n%s\noptions: %s" % (toml_of(f), " ".join(cli_args(c, "<dir>"))))
    if part == "settings":
        corr_build("C19")
        harness_build()
        stages = {}
        judge_settings(run, [(f, c)], distinct, stages)
        print("Settings::try_from now ends at: %s" % stages)
        why = "the effective settings of the stored (file, options) pair follow 'option overrides the file key' and the model agrees"
    elif part == "cli":
        cli_build()
        root = os.path.join(CACHE, "c19-replay-%d" % os.getpid())
        try:
            k, a, b = cli_pair(root, 0, f, c, bool(cs.get("use_out")))
        finally:
            shutil.rmtree(root, ignore_errors=True)
        print("exit status with options %s, with the merged file %s" % (a[0], b[0]))
        judge_cli(run, f, c, bool(cs.get("use_out")), a, b, distinct)
        why = "tackler with the stored options and tackler with the merged configuration file behave alike (exit status %s / %s)" % (a[0], b[0])
    else:
        cli_build()
        name = rp["scenario"]
        got = strict_scenarios(run, only=name) if part == "strict" else input_scenarios(run, only=name)
        if not got:
            print("the scenario %r does not exist in this version of the check" % name)
            return replay_print(j)
        for nm, a, b in got:
            print("scenario %s: exit status with option(s) %s, with the file %s" % (nm, a[0], b[0]))
            (judge_strict if part == "strict" else judge_input)(run, nm, a, b, distinct)
        why = "scenario %s: option(s) and the same value(s) written into the file give the same result" % name
    return replay_verdict(run, path, j, why)
