# C04 — results depend only on the set of transactions, not on how it was supplied
import json, os, re, copy
from common import *
import journal as J

IMPORTS = "From TkModel Require Import Base Dec Acct Txn.\nFrom TkCorr Require Import C04_corr.\n"
TEXT_OPS = ["text_balance", "text_balgrp", "text_register", "identity", "equity", "metadata"]
OPS = [{"op": o} for o in TEXT_OPS] + [{"op": "balance"}, {"op": "balgrp"}, {"op": "txns"}]


def g_hdr_txn(t, idx):
    ts = t["ts"]
    return "(mkTxn (mkHeader %s %s %s %s %s None [] [[%s]]) [])" % (
        g_Z(int(ts["ns"])), g_Z(int(ts["off"])), g_opt(t["code"], g_str), g_opt(t["desc"], g_str),
        g_opt(t["uuid"], g_str), g_N(idx))


def idx_of(t):
    for p in t["posts"]:
        c = p.get("comment")
        if c and re.match(r"^i\d+$", c):
            return int(c[1:])
    return None


def norm_dec(j):
    m, s = dec_parts(j)
    while s > 0 and m % 10 == 0:
        m //= 10; s -= 1
    return (m, s)


def numbers(bal):
    return {"rows": [(r["acc"], r["comm"], norm_dec(r["own"]), norm_dec(r["tree"])) for r in bal["rows"]],
            "deltas": [(d["comm"], norm_dec(d["delta"])) for d in bal["deltas"]]}


def checksum_lines(md):
    if not md:
        return None
    return [l.strip() for l in md.split("\n") if re.search(r"(SHA|Set size|size)", l)]


def gen_case(run, tie):
    r = run.rng
    g = J.Gen(r, max_depth=r.choice([2, 3, 4]), n_accounts=r.randint(2, 7))
    audit = r.random() < 0.4
    ts = g.journal(r.randint(2, 7), prices=(r.random() < 0.3), meta=True, implicit_p=0.2)
    for k, t in enumerate(ts):
        t["posts"][0]["comment"] = "i%d" % k
        if audit and not t["uuid"]:
            import uuid as _u
            t["uuid"] = str(_u.UUID(int=r.getrandbits(128), version=4))
        if not tie:
            t["desc"] = (t["desc"] or "") + " #%d" % k        # pairwise distinguishable
    if tie and len(ts) >= 2:
        a, b = r.sample(range(len(ts)), 2)
        for f in ("ts", "code", "desc"):
            ts[b][f] = ts[a][f]
        if not audit:
            ts[b]["uuid"] = ts[a]["uuid"]
    uuid_only = False
    if not tie and len(ts) >= 2 and r.random() < 0.35:
        # distinguishable by the UUID alone (one of them may have none): still byte-identical outputs
        import uuid as _u
        a, b = r.sample(range(len(ts)), 2)
        for f in ("ts", "code", "desc"):
            ts[b][f] = ts[a][f]
        ts[a]["uuid"] = str(_u.UUID(int=r.getrandbits(128), version=4))
        ts[b]["uuid"] = None if (not audit and r.random() < 0.5) else str(_u.UUID(int=r.getrandbits(128), version=4))
        uuid_only = True
    tz = None
    if r.random() < 0.25:
        # named journal zone with DST, zone-less time stamps on both sides of a transition:
        # the instant of each must not depend on what was parsed before it
        tz = r.choice(['name = "Europe/Helsinki"', 'name = "America/New_York"'])
        days = ["2024-03-31", "2024-10-27", "2024-03-30"] if "Helsinki" in tz else ["2024-03-10", "2024-11-03", "2024-03-09"]
        for t in ts:
            t["ts"] = "%sT%02d:%02d:00" % (r.choice(days[:2] if r.random() < 0.8 else days), r.choice([0, 1, 1, 2, 3, 4, 12, 12, 23]), r.choice([0, 30, 59]))
    prices = None
    if r.random() < 0.35:
        # price conversion: several commodities with price entries at the same instant
        used = sorted({p["comm"] for t in ts for p in t["posts"] if p["comm"] and p["comm"] != "EUR"} | {"USD", "ACME"})
        lines = []
        for day in ("2020-01-01", "2022-06-30"):
            for c in used:
                lines.append("P %s %s %d.%d EUR" % (day, c, r.randint(1, 9), r.randint(0, 99)))
        r.shuffle(lines)
        prices = {"db": "\n".join(lines) + "\n", "lookup": r.choice(["last-price", "given-time", "txn-time"])}
    return {"txns": ts, "audit": audit, "tie": tie, "group_by": r.choice(["year", "month", "date", "iso-week", "iso-week-date"]),
            "eq_sel": r.random() < 0.3, "uuid_only": uuid_only, "prices": prices, "reruns": 4 if prices else 1, "tz": tz}


def arrangements(run, c):
    r = run.rng
    ts = c["txns"]
    perm = list(range(len(ts)))
    r.shuffle(perm)
    pts = [ts[i] for i in perm]
    arr = []
    arr.append(("original", {"load": "string", "inputs": [{"text": J.print_journal(ts)}]}, list(range(len(ts)))))
    arr.append(("rerun", {"load": "string", "inputs": [{"text": J.print_journal(ts)}]}, list(range(len(ts)))))
    indent = r.choice(["  ", "\t", "    ", " \t "])
    mo = "".join(r.sample("ult", 3))
    sep = r.choice(["\n", "\n\n", " \n", "\t\n \n"])
    arr.append(("permuted+layout", {"load": "string", "inputs": [{"text": J.print_journal(pts, indent, mo, sep)}]}, perm))
    # sharded over files in nested directories; the loader decides the file order
    k = r.randint(1, min(4, len(pts)))
    shards = [[] for _ in range(k)]
    for i, t in enumerate(pts):
        shards[r.randrange(k)].append((perm[i], t))
    names = r.sample(["a.txn", "b.txn", "2024/01/x.txn", "2024/y.txn", "z/z/z.txn", "0.txn", "dir.txn/f.txn", ".archive/old.txn", "2024/.late.txn"], k)
    inputs, order = [], []
    for nm, sh in zip(names, shards):
        if sh:
            inputs.append({"name": nm, "text": J.print_journal([t for _, t in sh], r.choice([" ", "   "]), "ult", "\n")})
    arr.append(("sharded", {"load": "fsdir", "fs_dir": "", "fs_ext": "txn", "inputs": inputs}, None))
    # the same shards, one of them reached through a symbolic link to a directory outside the root
    if inputs:
        moved = r.randrange(len(inputs))
        inputs2 = []
        for k, i in enumerate(inputs):
            if k == moved:
                inputs2.append({"name": "real/" + i["name"], "text": i["text"]})
            else:
                inputs2.append({"name": "root/" + i["name"], "text": i["text"]})
        inputs2.append({"name": "root/linked-dir", "symlink_to": "../real"})
        arr.append(("sharded+symlinked-dir", {"load": "fsdir", "fs_dir": "root", "fs_ext": "txn", "inputs": inputs2}, None))
    return arr


def main(run):
    info = proof_stage(run, "C04", extra_targets=["corr/C04_corr.vo"])
    harness_build()
    n = 40 if run.tier == "quick" else 400
    cases = []
    cdir = os.path.join(VERIF, "corpus", "C04")
    if os.path.isdir(cdir):
        for f in sorted(os.listdir(cdir)):
            if f.endswith(".json"):
                c = json.load(open(os.path.join(cdir, f))); c["src"] = "corpus/" + f
                cases.append(c)
    for i in range(n):
        cases.append(gen_case(run, tie=(run.rng.random() < 0.25)))
    reqs, meta = [], []
    for ci, c in enumerate(cases):
        pr = c.get("prices")
        toml = J.make_toml(audit="true" if c["audit"] else "false", group_by=c["group_by"],
                           targets='"balance", "balance-group", "register"',
                           eq_acc=(', accounts = ["a.*", "e.*"]' if c.get("eq_sel") else ""),
                           price=('[price]\ndb-path = "prices.db"\nlookup-type = "%s"\n' % pr["lookup"]) if pr else "",
                           rcomm=('commodity = "EUR"' if pr else ""),
                           **({"tz": c["tz"]} if c.get("tz") else {}))
        conf = {"toml": toml}
        overl = None
        if pr:
            conf["pricedb"] = pr["db"]
            if pr["lookup"] == "given-time":
                overl = {"before_time": "2023-01-01T00:00:00Z"}
        reps = c.get("reruns", 1)
        for name, load, order in arrangements(run, c):
            for k in range(reps if name == "rerun" else 1):
                rq = {"conf": conf, "ops": OPS}
                if overl:
                    rq["overlaps"] = overl
                rq.update(load)
                reqs.append(rq)
                meta.append((ci, name, order))
    # spread over many processes: every process and every map draws fresh hash seeds
    res = harness_run(reqs, nproc=NPROC)
    per = {}
    for (ci, name, order), rr, rq in zip(meta, res, reqs):
        per.setdefault(ci, []).append((name, order, rr, rq))
    distinct = set()
    stages = {}
    nterms = judge(run, cases, per, distinct, stages)
    run.cov["distinct_nontrivial"] = len(distinct)
    run.cov["rule"] = ("per generated journal (2-7 txns, 25% with two indistinguishable headers, 40% audit mode): original, re-run, "
                       "permuted + re-laid-out (indent, metadata order, blank lines), sharded over nested directories; outputs "
                       "balance/balance-group/register/identity/equity/metadata compared byte for byte (numbers and checksums only when "
                       "headers tie); every session runs with fresh hash seeds; non-trivial = distinct balance texts")
    run.notes["stages"] = stages
    run.notes["model_order_checks"] = nterms
    run.notes["hash_sites_audit"] = hash_sites()
    return run.finish(info)


def case_of(c, runs):
    """what ./check C04 --replay needs: the sessions of the case (one harness request per arrangement, with the order in
    which a single-string arrangement lists the transactions) and whether two headers tie"""
    return {"tie": bool(c["tie"]), "runs": [[name, order, {k: v for k, v in rq.items() if k != "id"}] for name, order, rr, rq in runs]}


def judge(run, cases, per, distinct, stages):
    """per[ci] = [(arrangement name, order or None, harness result, request)]: the comparisons of the property and the
    model's order; returns the number of model order checks"""
    terms, tidx = [], []
    for ci, c in enumerate(cases):
        runs = per[ci]
        base = runs[0][2]
        st = base.get("stage")
        stages[st] = stages.get(st, 0) + 1
        run.cov["evaluations"] += len(runs)
        if st != "done":
            # all arrangements must fail alike
            for name, order, rr, rq in runs[1:]:
                if rr.get("stage") != st:
                    run.violation("arrangement changes acceptance of the same transaction set",
                                  {"arrangement": name, "inputs_a": runs[0][3].get("inputs"), "inputs_b": rq.get("inputs"),
                                   "stage_a": st, "stage_b": rr.get("stage"), "err_a": base.get("err"), "err_b": rr.get("err"), "case": case_of(c, runs)})
            continue
        bres = {o["op"]: x for o, x in zip(OPS, base["results"])}
        if "ok" in bres["text_balance"]:
            distinct.add(bres["text_balance"]["ok"])
        if len(run.cov["samples"]) < 2:
            run.cov["samples"].append({"arrangements": [(nm, rq.get("inputs")) for nm, _, _, rq in runs], "tie": c["tie"],
                                       "balance_text": bres["text_balance"].get("ok")})
        for name, order, rr, rq in runs[1:]:
            if rr.get("stage") != "done":
                run.violation("arrangement changes acceptance of the same transaction set",
                              {"arrangement": name, "inputs_a": runs[0][3].get("inputs"), "inputs_b": rq.get("inputs"),
                               "stage_b": rr.get("stage"), "err_b": rr.get("err"), "case": case_of(c, runs)})
                continue
            ores = {o["op"]: x for o, x in zip(OPS, rr["results"])}
            if not c["tie"]:
                for op in TEXT_OPS:
                    if ores[op] != bres[op]:
                        run.violation("output %s differs between two arrangements of the same transaction set (byte comparison)" % op,
                                      {"arrangement_a": "original", "arrangement_b": name, "inputs_a": runs[0][3].get("inputs"),
                                       "inputs_b": rq.get("inputs"), "config": rq["conf"]["toml"], "output_a": bres[op], "output_b": ores[op], "case": case_of(c, runs)})
                        break
            else:
                same = True
                for op in ("balance", "balgrp"):
                    a, b = bres[op], ores[op]
                    if ("ok" in a) != ("ok" in b):
                        same = False
                    elif "ok" in a:
                        na = numbers(a["ok"]) if op == "balance" else [(x["title"], numbers(x)) for x in a["ok"]]
                        nb = numbers(b["ok"]) if op == "balance" else [(x["title"], numbers(x)) for x in b["ok"]]
                        same = same and (na == nb)
                if checksum_lines(bres["metadata"].get("ok")) != checksum_lines(ores["metadata"].get("ok")):
                    same = False
                if not same:
                    run.violation("balance figures or checksum differ between two arrangements of the same transaction set (headers not distinct)",
                                  {"arrangement_b": name, "inputs_a": runs[0][3].get("inputs"), "inputs_b": rq.get("inputs"),
                                   "output_a": {k: bres[k] for k in ("balance", "metadata")}, "output_b": {k: ores[k] for k in ("balance", "metadata")}, "case": case_of(c, runs)})
        # model: the stable canonical sort predicts the implementation's order in each single-string arrangement
        for name, order, rr, rq in runs:
            if order is None or rr.get("stage") != "done":
                continue
            dump = {o["op"]: x for o, x in zip(OPS, rr["results"])}["txns"].get("ok")
            if dump is None:
                continue
            ids = [idx_of(t) for t in dump]
            if None in ids:
                continue
            byid = {idx_of(t): t for t in dump}
            file_order = [g_hdr_txn(byid[i], i) for i in order]
            terms.append("c04_case %s %s %s" % (g_list(file_order), g_list([g_N(i) for i in ids]), g_bool(not c["tie"])))
            tidx.append((ci, name))
    vals, errs = coq_eval("C04", IMPORTS, terms)
    if errs:
        raise Infra("coq evaluation failed: " + errs[0])
    for (ci, name), v in zip(tidx, vals):
        bits = as_N(v)
        if bits is None:
            raise Infra("no result for case")
        if not (bits & 1):
            run.cov["disagreements_checked"] += 1
            run.violation("correspondence broken: canonical order of the implementation differs from Txn.sort_txns",
                          {"correspondence": "C04_corr.c04_case", "arrangement": name,
                           "inputs": [rq.get("inputs") for nm, _, _, rq in per[ci] if nm == name], "case": case_of(cases[ci], per[ci])}, found_input=False)
    return len(terms)


def hash_sites():
    """informational: where hash containers occur in the anchored files"""
    out = []
    for f in ["tackler-core/src/kernel/balance.rs", "tackler-core/src/kernel/price_lookup.rs", "tackler-core/src/kernel/accumulator.rs",
              "tackler-core/src/model/txn_data.rs", "tackler-core/src/kernel/settings.rs", "tackler-core/src/parser/tackler_txns.rs"]:
        p = os.path.join(REPO, f)
        if os.path.exists(p):
            for ln, line in enumerate(open(p), 1):
                if re.search(r"Hash(Map|Set)", line) and not line.strip().startswith("//") and "use " not in line:
                    out.append("%s:%d" % (f, ln))
    return out


def replay(run, path):
    """the stored arrangements of one transaction set again (each in a fresh harness process, the re-run as often as in
    the normal run) + the comparisons of judge()"""
    j, rp, rc = replay_begin(run, path)
    if rc is not None:
        return rc
    cs = rp.get("case")
    if not (isinstance(cs, dict) and cs.get("runs")):
        return replay_print(j)
    print(j.get("what"))
    for name, order, rq in cs["runs"]:
        print("arrangement %s (%s): %s" % (name, rq.get("load"), json.dumps(rq.get("inputs"), ensure_ascii=False)[:1500]))
    corr_build("C04")
    harness_build()
    c = {"tie": bool(cs["tie"]), "src": "replay"}
    reqs = [copy.deepcopy(rq) for name, order, rq in cs["runs"]]
    res = harness_run(reqs, nproc=NPROC)
    per = {0: [(name, order, rr, rq) for (name, order, _), rr, rq in zip(cs["runs"], res, reqs)]}
    judge(run, [c], per, set(), {})
    return replay_verdict(run, path, j, "the %d arrangements of the stored transaction set give %s and the model predicts the order of each"
                          % (len(reqs), "the same figures and checksums" if c["tie"] else "byte-identical outputs"))
