# common.py — shared machinery of ./check: builds, harness I/O, Coq evaluation,
# Gallina term emitters, evidence and verdict.
import json, os, re, subprocess, sys, time, hashlib, shutil, random
from concurrent.futures import ThreadPoolExecutor

VERIF = os.path.dirname(os.path.dirname(os.path.abspath(__file__)))
# The checks always run against /repo. VERIF_REPO is only used by tools/seed_eval.py to point a
# check at a scratch worktree (a seeded change) without touching /repo; it then uses a private
# copy of the harness crate and private build directories.
REPO = os.environ.get("VERIF_REPO", "/repo")
COQ = os.path.join(VERIF, "coq")
CACHE = os.path.join(VERIF, ".cache")
if REPO == "/repo":
    TARGET = os.path.join(VERIF, "target")
    HARNESS_DIR = os.path.join(VERIF, "harness")
else:
    _tag = hashlib.sha256(REPO.encode()).hexdigest()[:10]
    TARGET = os.path.join(CACHE, "alt-" + _tag, "target")
    HARNESS_DIR = os.path.join(CACHE, "alt-" + _tag, "harness")
HARNESS_BIN = os.path.join(TARGET, "debug", "tkh")
OUT_DIR = VERIF if REPO == "/repo" else os.path.dirname(TARGET)      # evidence/ and replays/ live here
NPROC = 16
COQ_DIRS = ["model", "spec", "proofs", "props", "corr"]

FORBIDDEN = re.compile(
    r"\b(Admitted|admit|Axiom|Axioms|Parameter|Parameters|Conjecture|Conjectures|Hypothesis|Hypotheses|Variable|Variables|"
    r"bypass_check|Admit\s+Obligations)\b|Unset\s+Guard|Unset\s+Positivity|Unset\s+Universe|type-in-type|impredicative-set|native_compute")


import fcntl, contextlib


@contextlib.contextmanager
def coq_lock():
    """serialise everything that reads or writes coq/*.vo (several checks may run at once)"""
    os.makedirs(CACHE, exist_ok=True)
    f = open(os.path.join(CACHE, "coq.lock"), "w")
    try:
        fcntl.flock(f, fcntl.LOCK_EX)
        yield
    finally:
        fcntl.flock(f, fcntl.LOCK_UN)
        f.close()


class Infra(Exception):
    """infrastructure failure (exit 2) — never a violation"""


def sh(cmd, timeout=1200, cwd=None, env=None, inp=None):
    e = dict(os.environ)
    e.update({"CARGO_NET_OFFLINE": "true"})
    if env:
        e.update(env)
    p = subprocess.run(cmd, cwd=cwd, env=e, input=inp, capture_output=True, text=True, timeout=timeout)
    return p.returncode, p.stdout, p.stderr


# ---------------------------------------------------------------- Coq side
def coq_sources():
    out = []
    for d in COQ_DIRS:
        p = os.path.join(COQ, d)
        if os.path.isdir(p):
            out += sorted(os.path.join(d, f) for f in os.listdir(p) if f.endswith(".v"))
    return out


def coq_makefile():
    srcs = coq_sources()
    stamp = os.path.join(COQ, ".srclist")
    cur = "\n".join(srcs)
    old = open(stamp).read() if os.path.exists(stamp) else None
    if cur != old or not os.path.exists(os.path.join(COQ, "Makefile")):
        rc, o, e = sh(["coq_makefile", "-f", "_CoqProject", "-o", "Makefile"] + srcs, cwd=COQ)
        if rc != 0:
            raise Infra("coq_makefile failed: " + e)
        open(stamp, "w").write(cur)


def coq_make(targets, timeout=1500):
    """full .vo build of the given targets (and their dependencies); returns (ok, log)"""
    with coq_lock():
        coq_makefile()
        rc, o, e = sh(["make", "-j%d" % NPROC] + targets, cwd=COQ, timeout=timeout)
    return rc == 0, o + e


def coq_scan_forbidden():
    """no Admitted/admit/Axiom/Parameter/... anywhere in the development.
    Section-local Variable/Hypothesis are allowed only in files that declare a Section;
    we check that every Variable/Hypothesis line sits between Section and End."""
    bad = []
    for rel in coq_sources():
        txt = open(os.path.join(COQ, rel)).read()
        # strip comments (nested)
        out, depth, i = [], 0, 0
        while i < len(txt):
            if txt.startswith("(*", i):
                depth += 1; i += 2; continue
            if txt.startswith("*)", i) and depth > 0:
                depth -= 1; i += 2; continue
            if depth == 0:
                out.append(txt[i])
            i += 1
        code = "".join(out)
        sect = 0
        for ln, line in enumerate(code.split("\n"), 1):
            s = line.strip()
            if re.match(r"^Section\b", s):
                sect += 1
            if re.match(r"^End\b", s) and sect > 0:
                sect -= 1
            for m in FORBIDDEN.finditer(line):
                w = m.group(0)
                if re.match(r"(Variable|Variables|Hypothesis|Hypotheses)$", w) and sect > 0:
                    continue
                if w in ("Context",):
                    continue
                bad.append("%s:%d: %s" % (rel, ln, w))
    return bad


def coq_props(prop):
    """compile props/<prop>.v afresh (after its dependencies), collect its theorems and
    the Print Assumptions verdicts. Returns dict."""
    pv = os.path.join("props", prop + ".v")
    if not os.path.exists(os.path.join(COQ, pv)):
        return {"ok": False, "log": "missing " + pv, "theorems": [], "closed": 0, "axioms": []}
    ok, log = coq_make([pv + "o"])
    res = {"ok": ok, "log": log[-4000:], "theorems": [], "closed": 0, "axioms": [], "pins": 0}
    if not ok:
        return res
    # dependencies are built; now re-run coqc on the props file itself to capture its output
    args = ["coqc", "-q", "-noglob"]
    for d, l in [("model", "TkModel"), ("spec", "TkSpec"), ("proofs", "TkProofs"), ("props", "TkProps"), ("corr", "TkCorr")]:
        args += ["-Q", d, l]
    args += ["-w", "-notation-overridden,-deprecated-hint-without-locality,-deprecated-syntactic-definition"]
    tmp = os.path.join(CACHE, "props")
    os.makedirs(tmp, exist_ok=True)
    with coq_lock():
        rc, o, e = sh(args + ["-o", os.path.join(tmp, prop + ".vo"), pv], cwd=COQ, timeout=900)
    if rc != 0:
        res["ok"] = False
        res["log"] = (o + e)[-4000:]
        return res
    src = open(os.path.join(COQ, pv)).read()
    res["theorems"] = re.findall(r"^(?:Theorem|Lemma|Corollary)\s+([A-Za-z0-9_']+)", src, re.M)
    res["pins"] = len(re.findall(r"^Check\s+\(?[A-Za-z0-9_']+\s*:", src, re.M))
    res["closed"] = o.count("Closed under the global context")
    # axioms listed by Print Assumptions
    ax = []
    for blk in re.findall(r"Axioms:\n((?:.+\n)+?)(?=\n|\Z)", o):
        for line in blk.split("\n"):
            m = re.match(r"^([A-Za-z0-9_.']+)\s*:", line)
            if m:
                ax.append(m.group(1))
    res["axioms"] = sorted(set(ax))
    res["n_print"] = len(re.findall(r"^Print Assumptions", src, re.M))
    res["out"] = o[-3000:]
    return res


COQ_HEADER = "From TkModel Require Import Base Dec.\n"


def coq_eval(prop, imports, terms, timeout=900, width=16):
    """Evaluate Gallina terms of type N with vm_compute, sharded over coqc processes.
    Returns list of ints (or None where evaluation failed)."""
    # one directory per process: concurrent checks of the same property (other seeds, other trees) never share files
    d = os.path.join(CACHE, "cases", prop, "p%d" % os.getpid())
    shutil.rmtree(d, ignore_errors=True)
    os.makedirs(d, exist_ok=True)
    n = len(terms)
    if n == 0:
        return [], []
    nsh = min(width, max(1, n // 8)) if n >= 8 else 1
    shards = [[] for _ in range(nsh)]
    for i, t in enumerate(terms):
        shards[i % nsh].append((i, t))
    args = ["coqc", "-q", "-noglob"]
    for dd, l in [("model", "TkModel"), ("spec", "TkSpec"), ("proofs", "TkProofs"), ("corr", "TkCorr")]:
        args += ["-Q", os.path.join(COQ, dd), l]
    args += ["-w", "-notation-overridden,-deprecated-hint-without-locality,-deprecated-syntactic-definition,-abstract-large-number"]

    def run(k):
        fn = os.path.join(d, "shard%d.v" % k)
        with open(fn, "w") as f:
            f.write(imports + "\nSet Printing Width 1000000.\nSet Printing Depth 1000000.\n")
            for (i, t) in shards[k]:
                f.write("Definition c%d := %s.\nEval vm_compute in (%d%%N, c%d).\n" % (i, t, i, i))
        rc, o, e = sh(args + [fn], cwd=d, timeout=timeout)
        return rc, o, e

    results = [None] * n
    errs = []
    with coq_lock(), ThreadPoolExecutor(max_workers=nsh) as ex:
        for rc, o, e in ex.map(run, range(nsh)):
            if rc != 0:
                errs.append((e or o)[-1500:])
            for m in re.finditer(r"=\s*\((\d+)%N,\s*(.*?)\)\s*\n\s*:", o, re.S):
                results[int(m.group(1))] = m.group(2).strip()
    if not errs:
        shutil.rmtree(d, ignore_errors=True)      # kept only for diagnosis of a failed evaluation
    return results, errs


def as_N(s):
    if s is None:
        return None
    m = re.match(r"^(\d+)%N$", s.strip())
    return int(m.group(1)) if m else None


# ---------------------------------------------------------------- Gallina emitters
def g_N(n):
    return "%d%%N" % n


def g_Z(z):
    return "(%d)%%Z" % z


def g_nat(n):
    return "%d%%nat" % n


def g_bool(b):
    return "true" if b else "false"


def g_list(items):
    return "[" + "; ".join(items) + "]"


def g_str(s):
    return "[" + "; ".join("%d" % ord(c) for c in s) + "]%N" if s else "(@nil N)"


def g_opt(x, f):
    return "None" if x is None else "(Some %s)" % f(x)


def g_acct(a):
    """account string -> component list (Rust: split(':'))"""
    return "[" + "; ".join(g_str(c) for c in a.split(":")) + "]"


def dec_parts(j):
    """impl JSON {n,m,s} -> (signed mantissa, scale)"""
    m = int(j["m"])
    return (-m if j["n"] else m), int(j["s"])


def g_dec(j):
    m, s = dec_parts(j) if isinstance(j, dict) else j
    return "(mkDec %s %s)" % (g_Z(m), g_N(s))


# ---------------------------------------------------------------- implementation side
def harness_build():
    os.makedirs(CACHE, exist_ok=True)
    os.makedirs(os.path.join(CACHE, "tmp"), exist_ok=True)
    if REPO != "/repo":
        # private copy of the harness crate with its path dependencies redirected
        src = os.path.join(VERIF, "harness")
        shutil.rmtree(HARNESS_DIR, ignore_errors=True)
        shutil.copytree(src, HARNESS_DIR, ignore=shutil.ignore_patterns("Cargo.lock"))
        ct = open(os.path.join(HARNESS_DIR, "Cargo.toml")).read().replace('"/repo/', '"%s/' % REPO)
        open(os.path.join(HARNESS_DIR, "Cargo.toml"), "w").write(ct)
    lock_src = os.path.join(REPO, "Cargo.lock")
    lock_dst = os.path.join(HARNESS_DIR, "Cargo.lock")
    if not os.path.exists(lock_dst) or open(lock_src).read() != open(lock_dst).read():
        shutil.copyfile(lock_src, lock_dst)
    t0 = time.time()
    rc, o, e = sh(["cargo", "build", "--offline", "--target-dir", TARGET], cwd=HARNESS_DIR, timeout=1800)
    if rc != 0:
        raise Infra("harness build failed (does /repo compile?):\n" + e[-3000:])
    return time.time() - t0


def harness_run(reqs, nproc=NPROC, timeout=600):
    """run requests through tkh processes; returns list of result dicts in order"""
    for i, r in enumerate(reqs):
        r["id"] = i
    n = len(reqs)
    if n == 0:
        return []
    k = min(nproc, n)
    chunks = [reqs[i::k] for i in range(k)]
    out = [None] * n

    def run(ch):
        inp = "".join(json.dumps(r) + "\n" for r in ch)
        try:
            p = subprocess.run([HARNESS_BIN, os.path.join(CACHE, "tmp")], input=inp, capture_output=True,
                               text=True, timeout=timeout)
            lines = p.stdout.split("\n")
            rc = p.returncode
        except subprocess.TimeoutExpired as ex:
            lines = (ex.stdout or b"").decode("utf-8", "replace").split("\n") if isinstance(ex.stdout, bytes) else (ex.stdout or "").split("\n")
            rc = -9
        res = []
        for l in lines:
            if l.strip():
                try:
                    res.append(json.loads(l))
                except Exception:
                    pass
        return ch, res, rc

    with ThreadPoolExecutor(max_workers=k) as ex:
        for ch, res, rc in ex.map(run, chunks):
            seen = set()
            for r in res:
                if "id" in r:
                    out[r["id"]] = r
                    seen.add(r["id"])
            # a process that died (abort, stack overflow) loses the request it was on
            missing = [r["id"] for r in ch if r["id"] not in seen]
            if missing:
                first = missing[0]
                out[first] = {"stage": "abort", "rc": rc}
                # re-run the remainder one by one
                for rid in missing[1:]:
                    rq = reqs[rid]
                    try:
                        p = subprocess.run([HARNESS_BIN, os.path.join(CACHE, "tmp")], input=json.dumps(rq) + "\n",
                                           capture_output=True, text=True, timeout=timeout)
                        ls = [l for l in p.stdout.split("\n") if l.strip()]
                        out[rid] = json.loads(ls[0]) if ls else {"stage": "abort", "rc": p.returncode}
                    except subprocess.TimeoutExpired:
                        out[rid] = {"stage": "timeout"}
    return out


# ---------------------------------------------------------------- findings / verdict / evidence
def load_findings(prop):
    p = os.path.join(VERIF, "known-findings.jsonl")
    out = []
    if os.path.exists(p):
        for l in open(p):
            l = l.strip()
            if l and not l.startswith("#"):
                j = json.loads(l)
                if j.get("property") == prop:
                    out.append(j)
    return out


class Run:
    def __init__(self, prop, tier, seed):
        self.prop, self.tier, self.seed = prop, tier, seed
        self.t0 = time.time()
        self.violations = []      # (what, replay_obj, found_input: bool)
        self.known = []           # lines
        self.cov = {"evaluations": 0, "distinct_nontrivial": 0, "samples": [], "disagreements_checked": 0}
        self.assumptions = []
        self.notes = {}
        self.rng = random.Random(seed * 1000003 + int(hashlib.sha256(prop.encode()).hexdigest()[:8], 16))
        self.stage = None         # "T01" ... while an extra stage runs (see in_stage): written into its replays

    @contextlib.contextmanager
    def in_stage(self, name):
        """violations registered inside carry "stage": name in their replay object, so that
        ./check <host> --replay <file> can hand the file to the stage's own replay logic
        (name: "T0x", or a function of the replay object that returns it)"""
        old, self.stage = self.stage, name
        try:
            yield
        finally:
            self.stage = old

    def violation(self, what, replay, found_input=True):
        if self.stage is not None and isinstance(replay, dict) and replay.get("stage") not in STAGE_MODULES:
            replay = dict(replay, stage=(self.stage(replay) if callable(self.stage) else self.stage))
        self.violations.append((what, replay, found_input))

    def known_finding(self, text):
        if text not in self.known:
            self.known.append(text)

    def finish(self, proof_info, level="proof"):
        os.makedirs(os.path.join(OUT_DIR, "evidence"), exist_ok=True)
        os.makedirs(os.path.join(OUT_DIR, "replays"), exist_ok=True)
        cov = dict(self.cov)
        cov["samples"] = cov["samples"][:5] or ["(no case generated)"]
        nthm = len(proof_info.get("theorems", []))
        ok_proofs = proof_info.get("ok") and proof_info.get("closed_ok")
        cov.update({
            "obligations": max(nthm, 1),
            "discharged": nthm if ok_proofs else 0,
            "theorems": proof_info.get("theorems", []),
            "checker_cmd": "make -C coq props/%s.vo (coqc 8.16.1, full .vo build) + Print Assumptions scan + forbidden-word scan%s"
                           % (self.prop, "; coqchk -o -silent" if self.tier == "thorough" else ""),
            "trusted_base": proof_info.get("trusted_base", []),
            "traces_validated_against_impl": cov.get("evaluations", 0),
        })
        if not ok_proofs:
            cov.pop("discharged"); cov["proofs_ok"] = False
        cov.update(self.notes)
        ev = {
            "property_id": self.prop, "tier": self.tier, "seed": self.seed, "level": level,
            "coverage": cov, "assumptions": self.assumptions,
            "wall_s": round(time.time() - self.t0, 2), "violations": len(self.violations),
            "known_findings": self.known,
        }
        with open(os.path.join(OUT_DIR, "evidence", self.prop + ".json"), "w") as f:
            json.dump(ev, f, indent=1, ensure_ascii=False)
        import glob
        for old in glob.glob(os.path.join(OUT_DIR, "replays", "%s-%s-%d-*.json" % (self.prop, self.tier, self.seed))):
            os.remove(old)
        for k in self.known:
            print("KNOWN-FINDING: property=%s %s" % (self.prop, k))
        if self.violations:
            # one VIOLATION line per distinct violation (first one decides the replay naming)
            for idx, (what, replay, found) in enumerate(self.violations[:5]):
                path = os.path.join(OUT_DIR, "replays", "%s-%s-%d-%d.json" % (self.prop, self.tier, self.seed, idx))
                with open(path, "w") as f:
                    json.dump({"property": self.prop, "what": what, "found_input": bool(found), "replay": replay}, f, indent=1, ensure_ascii=False)
                print("VIOLATION property=%s replay=%s%s" % (self.prop, path, "" if found else " no-failing-input-found"))
            return 1
        print("OK property=%s tier=%s evaluations=%d theorems=%d wall=%.1fs" %
              (self.prop, self.tier, cov.get("evaluations", 0), nthm, time.time() - self.t0))
        return 0


TRUSTED_BASE = [
    "Coq 8.16.1 kernel (coqc; vm_compute used, native_compute not used); coqchk re-check in thorough tier",
    "axioms: none (every Print Assumptions must report 'Closed under the global context')",
    "hand-written Gallina model of the anchored Rust functions (coq/model), tied to /repo by the behavioural correspondence check only",
    "correspondence machinery: Rust harness tkh built from /repo with --cfg tackler_verif (tackler-core/src/verif.rs hooks), Python generators/differ, coqc vm_compute evaluation of model and spec on the same cases",
    "libraries under tackler modelled by contract: rust_decimal 1.37.1 (exact domain: 96-bit mantissa, scale<=28), jiff, regex, serde_json, toml, gix, winnow",
]


def proof_stage(run, prop, extra_targets=()):
    """build theorems of the property, check assumptions and forbidden words.
    On failure registers a no-failing-input-found violation (callers may still search)."""
    info = coq_props(prop)
    bad = coq_scan_forbidden()
    closed_ok = info["ok"] and info.get("n_print", 0) >= 1 and info["closed"] == info.get("n_print", -1) \
        and info.get("n_print", 0) >= len(info["theorems"]) and not info["axioms"]
    info["closed_ok"] = bool(closed_ok) and not bad
    info["trusted_base"] = TRUSTED_BASE
    if extra_targets:
        ok, log = coq_make(list(extra_targets))
        if not ok:
            raise Infra("coq build of %s failed:\n%s" % (extra_targets, log[-3000:]))
    if not info["ok"]:
        run.violation("proof obligation does not check: props/%s.v failed to build" % prop,
                      {"theorem_file": "coq/props/%s.v" % prop, "log": info["log"]}, found_input=False)
    elif not info["closed_ok"]:
        run.violation("assumption audit failed for props/%s.v" % prop,
                      {"theorem_file": "coq/props/%s.v" % prop, "axioms": info["axioms"], "forbidden": bad,
                       "closed": info["closed"], "n_print": info.get("n_print"), "theorems": info["theorems"]},
                      found_input=False)
    if run.tier == "thorough" and info["ok"]:
        rc, o, e = sh(["coqchk", "-silent", "-o", "-Q", "model", "TkModel", "-Q", "spec", "TkSpec", "-Q", "proofs", "TkProofs",
                       "-Q", "props", "TkProps", "-Q", "corr", "TkCorr", "TkProps." + prop], cwd=COQ, timeout=3000)
        info["coqchk"] = (o + e)[-1500:]
        flat = re.sub(r"\s+", " ", o + e)
        if rc != 0:
            run.violation("coqchk rejected TkProps.%s" % prop, {"theorem_file": "coq/props/%s.v" % prop, "log": info["coqchk"]}, found_input=False)
        elif "Axioms: <none>" not in flat:
            run.violation("coqchk reports axioms under TkProps.%s" % prop, {"theorem_file": "coq/props/%s.v" % prop, "log": info["coqchk"]}, found_input=False)
        run.notes["coqchk"] = info["coqchk"][-600:]
    return info


# ---------------------------------------------------------------- the tackler CLI built from /repo's working tree
CLI_BIN = os.path.join(TARGET, "cli", "debug", "tackler")


def cli_build():
    t0 = time.time()
    rc, o, e = sh(["cargo", "build", "--offline", "-p", "tackler"], cwd=REPO, timeout=2400,
                  env={"CARGO_TARGET_DIR": os.path.join(TARGET, "cli")})
    if rc != 0 or not os.path.exists(CLI_BIN):
        raise Infra("tackler CLI build failed (does /repo compile?):\n" + e[-3000:])
    return time.time() - t0


def run_cli(args, cwd=None, fsize_limit=None, timeout=60, stdout_path=None):
    """run the tackler binary; stdout/stderr through pipes (not subject to RLIMIT_FSIZE),
    or stdout into the file/device stdout_path (then subject to the limit)"""
    import resource, signal

    def pre():
        if fsize_limit is not None:
            signal.signal(signal.SIGXFSZ, signal.SIG_IGN)
            resource.setrlimit(resource.RLIMIT_FSIZE, (fsize_limit, fsize_limit))
        resource.setrlimit(resource.RLIMIT_AS, (8 << 30, 8 << 30))
    try:
        if stdout_path is not None:
            with open(stdout_path, "wb") as so:
                p = subprocess.run([CLI_BIN] + args, cwd=cwd, stdout=so, stderr=subprocess.PIPE, timeout=timeout, preexec_fn=pre)
            return p.returncode, "", p.stderr.decode("utf-8", "replace")
        p = subprocess.run([CLI_BIN] + args, cwd=cwd, capture_output=True, text=True, timeout=timeout, preexec_fn=pre)
        return p.returncode, p.stdout, p.stderr
    except subprocess.TimeoutExpired:
        return -999, "", "timeout"


# ---------------------------------------------------------------- replay contract: ./check Cxx --replay <file>
# (design-notes/BUILDING.md, "Replays").  Every check's replay(run, path) rebuilds the stored case, runs it (and only it)
# through the evaluation path of the normal run against REPO's current working tree and ends with replay_verdict().
STAGE_MODULES = {"T01": "t01", "T02": "t02", "T03": "t03", "T04": "t04", "T05": "t05", "T06": "t06", "T07": "t07", "T09": "t09"}
_NO_INPUT_PREFIXES = ("correspondence broken", "proof obligation", "assumption audit", "coqchk ", "known finding", "open finding")


def replay_load(path):
    """-> (the whole file, the stored replay object ({} when there is none))"""
    j = json.load(open(path))
    if not isinstance(j, dict):
        return {"content": j}, {}
    rp = j.get("replay")
    return j, (rp if isinstance(rp, dict) else {})


def replay_print(j, limit=6000):
    """a file this version cannot interpret (old format): shown, exit 0"""
    print(json.dumps(j, indent=1, ensure_ascii=False)[:limit])
    return 0


def stored_found_input(j):
    """kind of the stored violation: True = concrete failing input, False = no-failing-input-found"""
    if isinstance(j.get("found_input"), bool):
        return j["found_input"]
    return not str(j.get("what") or "").startswith(_NO_INPUT_PREFIXES)      # files written before the key existed


def stage_of(rp):
    """the extra stage (T01 ... T07) that wrote this replay object, or None"""
    s = rp.get("stage")
    if isinstance(s, str) and s in STAGE_MODULES:
        return s
    m = re.match(r"^(T0[1-79])_corr\.", str(rp.get("correspondence") or ""))      # files written before the key existed
    if m:
        return m.group(1)
    w = rp.get("world")
    if isinstance(w, dict) and "journal" in w and "mode" in w and "config_file" in rp:      # a world of the whole-run stage
        return "T06"
    return None


def replay_verdict(run, path, j, why_ok, only=None):
    """last step of every replay(): run.violations holds what the re-execution of the stored case registered.
    Failure seen again -> 'VIOLATION property=<run.prop> replay=<path>[ no-failing-input-found]', exit 1 (the suffix iff the
    stored violation was of that kind); otherwise 'REPLAY-OK property=<run.prop> <why_ok>', exit 0."""
    vs = [v for v in run.violations if only is None or only(v)]
    for what, rep, found in vs[:5]:
        print("REPRODUCED: %s%s" % (what, "" if found else " (no failing input: correspondence / proof only)"))
    for k in run.known:
        print("KNOWN-FINDING: property=%s %s" % (run.prop, k))
    if vs:
        stored = stored_found_input(j)
        if any(v[2] == stored for v in vs):
            found = stored
        else:
            found = vs[0][2]
            print("note: the stored violation was %s, the failure seen now is %s" %
                  (("a concrete failing input" if stored else "of the no-failing-input kind"),
                   ("a concrete failing input" if found else "of the no-failing-input kind")))
        print("VIOLATION property=%s replay=%s%s" % (run.prop, path, "" if found else " no-failing-input-found"))
        return 1
    print("REPLAY-OK property=%s %s" % (run.prop, " ".join(str(why_ok).split())))
    return 0


def replay_theorem(run, path, j, rp):
    """replays that name a theorem file instead of an input: the proof stage of that file is run again"""
    names = [os.path.basename(x.strip()) for x in str(rp.get("theorem_file")).split(",")]
    names = [x[:-2] if x.endswith(".v") else x for x in names]
    if not names or not all(re.match(r"^[A-Za-z0-9_]+$", x) and os.path.exists(os.path.join(COQ, "props", x + ".v")) for x in names):
        return replay_print(j)
    print(j.get("what"))
    for name in names:
        _replay_one_theorem_file(run, name)
    return replay_verdict(run, path, j, "%s: builds and the assumption audit is clean" % ", ".join("coq/props/%s.v" % x for x in names))


def _replay_one_theorem_file(run, name):
    if name == run.prop:
        proof_stage(run, name)
    else:
        ok, log = coq_make(["props/%s.vo" % name])
        if not ok:
            run.violation("proof obligation does not check: props/%s.v failed to build" % name,
                          {"theorem_file": "coq/props/%s.v" % name, "log": log[-2000:]}, found_input=False)
        else:
            info = coq_props(name)
            bad = coq_scan_forbidden()
            closed_ok = info["ok"] and info.get("n_print", 0) >= 1 and info["closed"] == info.get("n_print", -1) \
                and info.get("n_print", 0) >= len(info["theorems"]) and not info["axioms"] and not bad
            if not closed_ok:
                run.violation("assumption audit failed for props/%s.v" % name,
                              {"theorem_file": "coq/props/%s.v" % name, "axioms": info.get("axioms"), "forbidden": bad,
                               "closed": info.get("closed"), "n_print": info.get("n_print"), "log": info.get("log", "")[-1500:]}, found_input=False)


def replay_begin(run, path):
    """head of every host check's replay(): -> (j, rp, rc).  rc is not None when the file was dealt with here:
    a replay written by an extra stage goes to the stage module's replay (it reports under run.prop = the host),
    a replay naming a theorem file re-runs that proof stage, a file without replay object is printed."""
    j, rp = replay_load(path)
    st = stage_of(rp)
    if st is not None:
        import importlib
        return j, rp, importlib.import_module(STAGE_MODULES[st]).replay(run, path)
    if not rp:
        return j, rp, replay_print(j)
    if "theorem_file" in rp and not any(k in rp for k in ("case", "world", "journal", "finding")):
        return j, rp, replay_theorem(run, path, j, rp)
    return j, rp, None


def corr_build(prop):
    """the Coq side a replay needs (the normal run gets it from proof_stage)"""
    ok, log = coq_make(["corr/%s_corr.vo" % prop])
    if not ok:
        raise Infra("coq build of corr/%s_corr.vo failed:\n%s" % (prop, log[-2000:]))
