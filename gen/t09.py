# T09 (extension, not a numbered property) — SHA-256, tackler's default checksum algorithm, is inside the model:
# coq/model/Sha256.v is an executable Gallina SHA-256 (FIPS 180-4); coq/props/T09.v proves that its output always has 32
# bytes / 64 lower-case hexadecimal digits, that the padding meets its specification and reads back, that the digest is
# the iterated compression over the blocks of the padded text, checks the published test vectors, and instantiates
# C09's end-to-end theorem and T04's checksum-line theorem with H := sha256 (the line after `Txn Set Checksum` is
# `        SHA-256 : sha256_hex (pre-image of exactly the selected uuids)`; likewise the account selector checksum).
# ./check T09 runs the proof audit of coq/props/T09.v and the stage of gen/t09_text.py standalone (all lengths); the
# C09 check runs a thinned stage on every run.
import copy, json
from common import *
import t09_text as S


def main(run):
    info = proof_stage(run, "T09", extra_targets=["corr/T09_corr.vo"])
    harness_build()
    st = S.run_stage(run)
    run.cov["evaluations"] += sum(st.get("compared", {}).values())
    run.cov["distinct_nontrivial"] = st.get("distinct_digests", 0)
    for k in ("sample_digest", "sample_session"):
        if k in st:
            run.cov["samples"].append(st.pop(k))
    run.cov["rule"] = S.RULE
    return run.finish(info)


def replay(run, path):
    """also the replay of the T09 stage inside C09 (run.prop is the host then)"""
    j, rp = replay_load(path)
    if "theorem_file" in rp and "case" not in rp:
        return replay_theorem(run, path, j, rp)
    print(j.get("what"))
    c = rp.get("case")
    if not isinstance(c, dict):
        return replay_print(j)
    c = copy.deepcopy(c)
    st = S.new_stats()
    if c.get("kind") in ("raw", "sel", "set") and {"raw": "bytes", "sel": "pats", "set": "raws"}[c["kind"]] in c:
        print(json.dumps({k: rp.get(k) for k in ("case", "preimage_length", "hashlib_sha256", "implementation")}, ensure_ascii=False)[:3000])
        if not S.build_coq(run):
            return replay_verdict(run, path, j, "")
        if c["kind"] != "raw":
            harness_build()
        S.check_digests(run, [c], st)
        print("implementation now: %s" % json.dumps(c.get("impl"), ensure_ascii=False))
        return replay_verdict(run, path, j, "T09 stage: Coq sha256, hashlib and the implementation agree on this %d-byte pre-image now (compared=%s, stages=%s)"
                              % (len(S.digest_preimage(c)), {k: v for k, v in st["compared"].items() if v}, st["digest_stages"]))
    if not all(k in c for k in ("journal", "audit", "sel")):
        return replay_print(j)
    print(json.dumps({k: c.get(k) for k in ("audit", "hash", "rtz", "filter", "sel")}, indent=1, ensure_ascii=False))
    print("journal:\n%s" % c["journal"])
    if rp.get("first_differing_character") is not None:
        print("compared: %s, first differing character: %s\nimplementation: %r\nmodel:          %r"
              % (rp.get("compared"), rp.get("first_differing_character"), rp.get("implementation_around"), rp.get("model_around")))
    if not S.build_coq(run):
        return replay_verdict(run, path, j, "")
    harness_build()
    c["idx"] = 0
    c.setdefault("tags", ["replay"])
    for k, d in (("hash", S.NAME), ("git", None), ("price", None), ("filter", None), ("rtz", "UTC")):
        c.setdefault(k, d)
    S.check_sessions(run, [c], st)
    print("metadata text of the implementation now:\n%s" % c.get("impl_md"))
    for what, rep, found in run.violations:
        if rep.get("model_text") is not None:
            print("implementation text now:\n%s\nmodel text now:\n%s" % (rep.get("implementation_text"), rep.get("model_text")))
    return replay_verdict(run, path, j, "T09 stage: the texts equal the model's (digest computed by the model) and the reading oracle is clean now (compared=%s, stages=%s)"
                          % ({k: v for k, v in st["compared"].items() if v}, st["stages"]))
