# T02 (extension, not a numbered property) — the text of the equity export is the text of the model
# coq/model/EquityText.v, byte for byte, and (coq/props/T02.v) that text read by the journal grammar
# model is the AST of C10's theorems.  ./check T02 runs the proof audit of coq/props/T02.v and the
# text stage standalone (gen/t02_text.py: run_text_stage).
import json
from common import *
import t02_text as T


def main(run):
    info = proof_stage(run, "T02", extra_targets=["corr/T02_corr.vo"])
    harness_build()
    st = T.run_text_stage(run)
    run.cov["evaluations"] += st["compared"]
    run.cov["distinct_nontrivial"] = st["distinct_texts"]
    if "sample" in st:
        run.cov["samples"].append(st.pop("sample"))
    run.cov["rule"] = ("corpus/C10 + corpus/T02 + the seeded journals of the C10 check (1-7 txns, 0-3 commodities incl. none, account trees depth<=4, "
                       "priced postings, equal time stamps, audit+uuid in 30% (metadata: Txn Set Checksum, Account Selector Checksum), transaction filter "
                       "in 25% (metadata: Filter), selectors none / exact / prefix / everything / nothing, equity account outside or inside the journal "
                       "or with unusual valid names; invalid names are rejected by the configuration and not compared); the implementation's export "
                       "text is compared character by character with EquityText.print_equity of Equity.equity of the loaded transaction set; the "
                       "wording of the header comment lines is an input cut from the implementation's text (metadata items: as many items as the "
                       "session's metadata has, + the account selector checksum in audit mode; the rest = warning lines), their place is the "
                       "model's (metadata under every header, warning lines iff the sum is zero); the text must also be read by Journal.parse_journal as exactly the "
                       "model's transactions; non-trivial = non-empty export; distinct = distinct export texts")
    return run.finish(info)


def replay(run, path):
    """also the replay of the T02 stage inside C10 (run.prop is the host then): common.replay_begin"""
    j, rp = replay_load(path)
    if "theorem_file" in rp and "case" not in rp:
        return replay_theorem(run, path, j, rp)
    print(j.get("what"))
    c = rp.get("case")
    if not (isinstance(c, dict) and all(k in c for k in ('text', 'eqa'))):
        return replay_print(j)
    print("journal:\n%s\nequity account %r, selectors %s" % (c["text"], c["eqa"], rp.get("equity_selectors")))
    print("first differing character: %s\nimplementation: %r\nmodel:          %r" % (rp.get("first_differing_character"),
                                                                                    rp.get("implementation_around"), rp.get("model_around")))
    harness_build()
    c = dict(c)
    c["sel"] = None if c.get("sel") is None else [(bool(e), s) for (e, s) in c["sel"]]
    c.setdefault("tags", ["replay"])
    st = T.new_stats()
    T.check_cases(run, [c], st)
    for what, rep, found in run.violations:
        print("implementation text now:\n%s" % rep.get("implementation_text"))
        print("model text now:\n%s" % rep.get("model_text"))
    return replay_verdict(run, path, j, "T02 stage: the equity export text is the model's text and reads back as the model's transactions now "
                                        "(compared=%d, stages=%s)" % (st["compared"], st["stages"]))
