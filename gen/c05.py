# C05 — transaction filters select exactly the transactions their definition describes
import json, os, re as _re, hashlib, datetime
from common import *
import journal as J

IMPORTS = ("From TkModel Require Import Base Dec Acct Txn Filter.\nFrom TkSpec Require Import Filter_spec.\n"
           "From TkCorr Require Import C05_corr.\n")

LEAF_KINDS = ["begin", "end", "code", "desc", "uuid", "bbox", "bbox3", "tags", "comments",
              "pacc", "pcomment", "peq", "plt", "pgt", "pcomm"]
JSON_NAME = {"true": "NullaryTRUE", "false": "NullaryFALSE", "and": "TxnFilterAND", "or": "TxnFilterOR",
             "not": "TxnFilterNOT", "begin": "TxnFilterTxnTSBegin", "end": "TxnFilterTxnTSEnd",
             "code": "TxnFilterTxnCode", "desc": "TxnFilterTxnDescription", "uuid": "TxnFilterTxnUUID",
             "bbox": "TxnFilterBBoxLatLon", "bbox3": "TxnFilterBBoxLatLonAlt", "tags": "TxnFilterTxnTags",
             "comments": "TxnFilterTxnComments", "pacc": "TxnFilterPostingAccount",
             "pcomment": "TxnFilterPostingComment", "peq": "TxnFilterPostingAmountEqual",
             "plt": "TxnFilterPostingAmountLess", "pgt": "TxnFilterPostingAmountGreater",
             "pcomm": "TxnFilterPostingCommodity"}
COQ_NAME = {"code": "FCode", "desc": "FDesc", "tags": "FTags", "comments": "FComments", "pacc": "FPAccount",
            "pcomment": "FPComment", "pcomm": "FPCommodity", "peq": "FPAmountEq", "plt": "FPAmountLt", "pgt": "FPAmountGt"}

# ---------------------------------------------------------------- vocabulary
# Patterns: literals, '.', '.*', classes, alternation, '?', '+', groups only — the subset on which
# Rust regex `^(?:p)$`.is_match and Python re.fullmatch define the same language.
# Patterns with their OWN anchors and a top-level alternation (`^ab|cd$`) are the ones for which
# "wrapped as one whole-string match" differs from "compiled as written".
PATS = {
    "code": ["c1", "c.", "c[12]", ".*", "", "#1", "a b", "c1|c2", ".+", "c", "^c|2$", "^c1$", "^c", "1$", "^a|b$"],
    "desc": ["abc", "abc.*", ".*abc", "ab", "abcd?", ".*", "", "x abc", "(ab|abc)d?", "ünï", "ü.*", ".+",
             "^ab|cd$", "^abc$", "^ab", "bc$", "^x|bc$", "^a|d$", "^ü|ï$"],
    "tags": ["t1", "t2", "t.", "t[12]", "a:b", "a:.*", ".*", "x-y|t2", "t1t2", "abc", "t", "^t|2$", "^a|y$", "^t1$", "^x|c$"],
    "comments": ["note", "abc", "", ".*", "x ; y", ".*;.*", "(abc|note)", "no", ".+", "^n|c$", "^x|y$", "^note$", "^a|e$"],
    "pacc": ["a", "a:b", "a:b:c", "a.*", "a:.*", ".*", "a|e", "[ae]", "a:b(:c)?", "ab?", ".+:.+", "e.*", "e", "abc", "a.", "e:x",
             "^a|c$", "^e|x$", "^a:b$", "^a|b$", "^a", "c$"],
    "pcomment": ["pc", "abc", "", ".*", "p.", ".+", "pc|abc", "^p|c$", "^a|c$", "^pc$"],
    "pcomm": ["EUR", "E.*", "E", "U.D|EUR", "", ".*", ".+", "USD", "[EU].*", "ACME", "A.*|E", "^E|D$", "^U|R$", "^EUR$"],
}
CODES = [None, None, "c1", "c2", "#1", "a b", ""]
DESCS = [None, "abc", "abcd", "ab", "x abc", "", "ünï"]
TAGS = ["t1", "t2", "a:b", "x-y", "abc"]
TCOMMENTS = ["note", "abc", "", "x ; y"]
PCOMMENTS = [None, None, "pc", "abc", ""]
ACCOUNTS = ["a", "a:b", "a:b:c", "ab", "e", "e:x", "abc"]
COMMS = ["", "EUR", "USD", "E"]
UUIDS = ["8c913372-48e9-466c-a897-11b151548a19", "76a0f143-d64e-4497-b357-5ae2eb092219",
         "f01df5b5-18e2-477c-aaac-3e0b672b2729", "0e3f2ac2-8b3c-4e45-9d2f-f0b5c5d0a001",
         "0e3f2ac2-8b3c-4e45-9d2f-f0b5c5d0a002", "0e3f2ac2-8b3c-4e45-9d2f-f0b5c5d0a003",
         "ffffffff-ffff-4fff-bfff-ffffffffffff", "00000000-0000-4000-8000-000000000000"]
AMOUNTS = [(1, 0), (10, 1), (100, 2), (2, 0), (5, 1), (999, 2), (1001, 2), (-1, 0), (-10, 1), (12345, 3), (1, 3), (-5, 1)]
LATS = [(-90, 0), (-105, 1), (0, 0), (10, 0), (601, 1), (6010, 2), (90, 0)]
LONS = [(-180, 0), (-170, 0), (-175, 0), (-249, 1), (0, 0), (20, 0), (200, 1), (249, 1), (100, 0), (170, 0), (175, 0), (180, 0)]
ALTS = [None, None, (-10, 0), (0, 0), (5, 0), (50, 1), (8848, 0)]
T0 = 1704067200 * 10 ** 9          # 2024-01-01T00:00:00Z
INSTANTS = [T0, T0 + 1, T0 - 1, T0 + 36000 * 10 ** 9 + 123456789, T0 + 86400 * 10 ** 9, T0 + 3600 * 10 ** 9,
            T0 - 86400 * 10 ** 9 + 999999999, T0 + 45296 * 10 ** 9 + 500000000,
            # next to the epoch, with a fraction: written with the OFFSETS below, civil date and instant lie on different
            # sides of 1970-01-01T00:00Z (1969-12-31T23:00:00.5Z = 1970-01-01T00:00:00.5+01:00; repaired finding F17)
            -3600 * 10 ** 9 + 500000000, -3600 * 10 ** 9 + 400000000, 1800 * 10 ** 9 + 500000000]
OFFSETS = [0, 0, 7200, -18000, 19800, 20700, -34200, 50400, -43200, 3600]


def fmt_ts(ns, off, zulu=True, trim=False):
    """instant (ns since epoch) -> RFC 3339 text written with UTC offset `off` seconds"""
    sec, frac = divmod(ns, 10 ** 9)
    dt = datetime.datetime(1970, 1, 1) + datetime.timedelta(seconds=sec + off)
    s = dt.strftime("%Y-%m-%dT%H:%M:%S")
    if frac:
        f = "%09d" % frac
        s += "." + (f.rstrip("0") if trim else f)
    if off == 0 and zulu:
        return s + "Z"
    a = abs(off)
    return s + ("+" if off >= 0 else "-") + "%02d:%02d" % (a // 3600, (a % 3600) // 60)


def dcmp(a, b):
    t = max(a[1], b[1])
    x, y = J.rescale(a[0], a[1], t), J.rescale(b[0], b[1], t)
    return (x > y) - (x < y)


def rescaled(r, d):
    k = r.choice([0, 1, 2])
    return (d[0] * 10 ** k, d[1] + k)


def ulp(d, k):
    return (d[0] + k, d[1])


# ---------------------------------------------------------------- filter AST -> JSON text / Gallina
def filter_json(f):
    k = f[0]
    n = JSON_NAME[k]
    if k in ("true", "false"):
        body = "{}"
    elif k in ("and", "or"):
        body = '{"txnFilters":[%s]}' % ",".join(filter_json(g) for g in f[1])
    elif k == "not":
        body = '{"txnFilter":%s}' % filter_json(f[1])
    elif k in ("begin", "end"):
        body = '{"%s":"%s"}' % (k, fmt_ts(f[1], f[2], zulu=f[3], trim=f[4]))
    elif k == "uuid":
        body = '{"uuid":"%s"}' % (f[1].upper() if f[2] else f[1])
    elif k == "bbox":
        body = '{"south":"%s","west":"%s","north":"%s","east":"%s"}' % tuple(J.dec_str(*d) for d in f[1:5])
    elif k == "bbox3":
        body = '{"south":"%s","west":"%s","depth":"%s","north":"%s","east":"%s","height":"%s"}' % tuple(J.dec_str(*d) for d in f[1:7])
    elif k in ("peq", "plt", "pgt"):
        body = '{"regex":%s,"amount":%s}' % (json.dumps(f[1], ensure_ascii=False), J.dec_str(*f[2]))
    else:
        body = '{"regex":%s}' % json.dumps(f[1], ensure_ascii=False)
    return '{"%s":%s}' % (n, body)


def g_d(d):
    return "(mkDec %s %s)" % (g_Z(d[0]), g_N(d[1]))


def filter_gallina(f, pid):
    k = f[0]
    if k == "true":
        return "FTrue"
    if k == "false":
        return "FFalse"
    if k in ("and", "or"):
        return "(%s %s)" % ("FAnd" if k == "and" else "FOr", g_list([filter_gallina(g, pid) for g in f[1]]))
    if k == "not":
        return "(FNot %s)" % filter_gallina(f[1], pid)
    if k == "begin":
        return "(FTsBegin %s)" % g_Z(f[1])
    if k == "end":
        return "(FTsEnd %s)" % g_Z(f[1])
    if k == "uuid":
        return "(FUuid %s)" % g_str(f[1])
    if k == "bbox":
        return "(FBBox %s)" % " ".join(g_d(d) for d in f[1:5])
    if k == "bbox3":
        return "(FBBoxAlt %s)" % " ".join(g_d(d) for d in f[1:7])
    if k in ("peq", "plt", "pgt"):
        return "(%s %s %s)" % (COQ_NAME[k], g_N(pid[f[1]]), g_d(f[2]))
    return "(%s %s)" % (COQ_NAME[k], g_N(pid[f[1]]))


def walk(f):
    yield f
    if f[0] in ("and", "or"):
        for g in f[1]:
            yield from walk(g)
    elif f[0] == "not":
        yield from walk(f[1])


def depth_of(f):
    if f[0] in ("and", "or"):
        return 1 + max([depth_of(g) for g in f[1]] or [0])
    if f[0] == "not":
        return 1 + depth_of(f[1])
    return 0


def pattern_of(f):
    return f[1] if f[0] in COQ_NAME else None


def to_ast(x):
    """JSON (lists) -> AST (tuples), for corpus and replay files"""
    k = x[0]
    if k in ("and", "or"):
        return (k, [to_ast(g) for g in x[1]])
    if k == "not":
        return (k, to_ast(x[1]))
    return tuple(tuple(a) if isinstance(a, list) else a for a in x)


def is_degenerate_lon(f):
    return any(g[0] in ("bbox", "bbox3") and dcmp(g[2], g[4] if g[0] == "bbox" else g[5]) == 0 for g in walk(f))


# ---------------------------------------------------------------- generators
def gen_txn(r, ctx, audit, uuid_pool):
    ns = r.choice(ctx["instants"])
    off = r.choice(OFFSETS)
    if off == 0 and ns % (86400 * 10 ** 9) == 0 and r.random() < 0.5:
        ts = fmt_ts(ns, 0)[:10]                                   # date only: default time 00:00:00 UTC
    elif off == 0 and r.random() < 0.3:
        ts = fmt_ts(ns, 0, zulu=True, trim=r.random() < 0.5)[:-1]  # no zone: default zone UTC
    else:
        ts = fmt_ts(ns, off, zulu=r.random() < 0.5, trim=r.random() < 0.5)
    comm = r.choice(ctx["comms"])
    posts, total = [], (0, 0)
    for _ in range(r.randint(1, 3)):
        amt = r.choice(AMOUNTS)
        acc = r.choice(ACCOUNTS)
        p = {"acc": acc, "amount": amt, "comm": comm, "closing": None, "opening": None, "comment": r.choice(PCOMMENTS)}
        val = amt
        if comm != "" and r.random() < 0.3:
            # posting in another commodity priced into the transaction commodity:
            # posting commodity != transaction commodity, posting amount != transaction amount
            p["comm"] = r.choice([c for c in ("ACME", "E", "USD") if c != comm])
            if r.random() < 0.5:
                pr = r.choice([(2, 0), (15, 1), (1, 0), (300, 2)])
                p["closing"] = ("@", pr, comm)
                val = (amt[0] * pr[0], amt[1] + pr[1])
            else:
                val = (r.choice([3, 25, 1000]) * (1 if amt[0] > 0 else -1), r.choice([0, 1]))
                p["closing"] = ("=", val, comm)
            ctx["amounts"].append((acc, val))
        posts.append(p)
        ctx["amounts"].append((acc, amt))
        total = J.add(total, val)
    if total[0] == 0:
        posts.append({"acc": "a", "amount": (7, 0), "comm": comm, "closing": None, "opening": None, "comment": None})
        total = J.add(total, (7, 0))
    last = None
    if r.random() < 0.3:
        last = {"acc": r.choice(ACCOUNTS), "comment": None}
    else:
        bal = J.neg(total) if r.random() < 0.5 else J.strip(J.neg(total))
        acc = r.choice(ACCOUNTS)
        posts.append({"acc": acc, "amount": bal, "comm": comm, "closing": None, "opening": None, "comment": r.choice(PCOMMENTS)})
        ctx["amounts"].append((acc, bal))
    t = {"ts": ts, "code": r.choice(CODES), "desc": r.choice(DESCS), "uuid": None, "loc": None, "tags": None,
         "comments": [], "posts": posts, "last": last}
    if audit or r.random() < 0.5:
        t["uuid"] = uuid_pool.pop() if uuid_pool else None
        if t["uuid"]:
            ctx["uuids"].append(t["uuid"])
    if r.random() < 0.6:
        lat, lon, alt = r.choice(LATS), r.choice(LONS), r.choice(ALTS)
        t["loc"] = (J.dec_str(*lat), J.dec_str(*lon), J.dec_str(*alt) if alt else None)
        ctx["points"].append((lat, lon, alt))
    if r.random() < 0.5:
        t["tags"] = r.sample(TAGS, r.randint(1, 3))
    if r.random() < 0.4:
        t["comments"] = [r.choice(TCOMMENTS) for _ in range(r.randint(1, 2))]
    return t


def gen_box2d(r, ctx):
    lat, lon, _ = r.choice(ctx["points"]) if ctx["points"] and r.random() < 0.85 else (r.choice(LATS), r.choice(LONS), None)
    wide_lat = ((-90, 0), (90, 0))
    wide_lon = ((-180, 0), (180, 0))
    k = r.randrange(11)
    tag = ["point", "lat-degenerate", "lon-degenerate", "edge", "wrap", "whole-earth", "random", "west=east-off-point",
           "south>north", "wrap-ulp", "near-miss"][k]
    s, n = wide_lat
    w, e = wide_lon
    if k == 0:
        s, n, w, e = lat, rescaled(r, lat), rescaled(r, lon), lon
    elif k == 1:
        s, n = rescaled(r, lat), lat
    elif k == 2:
        w, e = lon, rescaled(r, lon)
    elif k == 3:
        edge = r.randrange(4)
        if edge == 0: s = rescaled(r, lat)
        elif edge == 1: n = rescaled(r, lat)
        elif edge == 2: w = rescaled(r, lon)
        else: e = rescaled(r, lon)
    elif k == 4:
        w, e = r.choice([((170, 0), (-170, 0)), (lon, ulp(lon, -1)), ((100, 0), (20, 0)), ((201, 1), (20, 0)),
                         (rescaled(r, lon), (-180, 0)), ((180, 0), rescaled(r, lon)), ((175, 0), (-175, 0))])
    elif k == 5:
        pass
    elif k == 6:
        s, n, w, e = r.choice(LATS), r.choice(LATS), r.choice(LONS), r.choice(LONS)
    elif k == 7:
        w = r.choice([x for x in LONS if dcmp(x, lon) != 0])
        e = rescaled(r, w)
    elif k == 8:
        s, n = ulp(lat, 1), lat
    elif k == 9:
        w, e = ulp(lon, 1), ulp(lon, -1)          # wraps around everything except the point's longitude
    else:
        which = r.randrange(4)                    # box that just excludes the point on one side
        if which == 0: s = ulp(lat, 1)
        elif which == 1: n = ulp(lat, -1)
        elif which == 2: w = ulp(lon, 1)
        else: e = ulp(lon, -1)
    return (s, w, n, e), tag


def gen_leaf(r, ctx, tags):
    k = r.choice(LEAF_KINDS + LEAF_KINDS + ["true", "false"])
    if k in ("true", "false"):
        return (k,)
    if k in ("begin", "end"):
        t = r.choice(ctx["instants"]) if r.random() < 0.9 else r.choice(INSTANTS)
        d = r.choice([-1, 0, 0, 1, 1, -10 ** 9, 3600 * 10 ** 9])
        tags["time:%+d" % d if abs(d) <= 1 else "time:far"] = 1
        return (k, t + d, r.choice(OFFSETS), r.random() < 0.5, r.random() < 0.5)
    if k == "uuid":
        u = r.choice(ctx["uuids"]) if ctx["uuids"] and r.random() < 0.7 else r.choice(UUIDS)
        return (k, u, r.random() < 0.2)
    if k == "bbox":
        (s, w, n, e), tag = gen_box2d(r, ctx)
        tags["box:" + tag] = 1
        return (k, s, w, n, e)
    if k == "bbox3":
        (s, w, n, e), tag = gen_box2d(r, ctx) if r.random() < 0.6 else ((((-90, 0), (-180, 0), (90, 0), (180, 0))), "whole-earth")
        tags["box3:" + tag] = 1
        alts = [p[2] for p in ctx["points"] if p[2] is not None]
        alt = r.choice(alts) if alts else (5, 0)
        j = r.randrange(7)
        tags["alt:" + ["exact", "depth-edge", "height-edge", "depth>height", "wide", "just-above", "just-below"][j]] = 1
        d, h = (-1000, 0), (10000, 0)
        if j == 0: d, h = rescaled(r, alt), alt
        elif j == 1: d = rescaled(r, alt)
        elif j == 2: h = rescaled(r, alt)
        elif j == 3: d, h = ulp(alt, 1), alt
        elif j == 5: d = ulp(alt, 1)
        elif j == 6: h = ulp(alt, -1)
        return (k, s, w, d, n, e, h)
    if k in ("peq", "plt", "pgt"):
        acc, amt = r.choice(ctx["amounts"])
        j = r.randrange(6)
        tags["amount:" + ["same", "rescaled", "+ulp", "-ulp", "negated", "random"][j]] = 1
        a = [amt, (amt[0] * 10, amt[1] + 1), ulp(amt, 1), ulp(amt, -1), J.neg(amt), r.choice(AMOUNTS)][j]
        pat = acc if r.random() < 0.5 else r.choice(PATS["pacc"])
        return (k, pat, a)
    return (k, r.choice(PATS[k]))


def gen_filter(r, ctx, depth, tags):
    if depth == 0 or r.random() < 0.25:
        return gen_leaf(r, ctx, tags)
    k = r.random()
    if k < 0.25:
        return ("not", gen_filter(r, ctx, depth - 1, tags))
    n = r.choice([0, 1, 2, 2, 2, 3, 3]) if r.random() < 0.9 else 4
    if n == 0:
        tags["empty-list"] = 1
    return ("and" if k < 0.62 else "or", [gen_filter(r, ctx, depth - 1, tags) for _ in range(n)])


def gen_group(run):
    r = run.rng
    audit = r.random() < 0.3
    ctx = {"instants": r.sample(INSTANTS, r.randint(2, 4)), "comms": r.sample(COMMS, r.randint(1, 2)),
           "amounts": [], "points": [], "uuids": []}
    pool = UUIDS[:]
    r.shuffle(pool)
    ts = [gen_txn(r, ctx, audit, pool) for _ in range(r.randint(2, 7))]
    tags = {}
    if audit and len(ts) >= 2 and r.random() < 0.15:
        ts[-1]["uuid"] = ts[0]["uuid"]
        tags["duplicate-uuid"] = 1
    f = gen_filter(r, ctx, r.choice([1, 2, 3, 3, 4, 5, 5]), tags)
    leaves = [g for g in walk(f) if g[0] not in ("and", "or", "not")]
    extra = r.sample(leaves, min(len(leaves), 3))
    while len(extra) < 3:
        extra.append(gen_leaf(r, ctx, tags))
    filters = [f, ("not", f)] + extra
    return {"journal": J.print_journal(ts), "filters": filters, "audit": audit, "tags": sorted(tags), "src": "gen"}


def load_corpus():
    out = []
    cdir = os.path.join(VERIF, "corpus", "C05")
    if os.path.isdir(cdir):
        for fn in sorted(os.listdir(cdir)):
            if fn.endswith(".json"):
                c = json.load(open(os.path.join(cdir, fn)))
                c["filters"] = [to_ast(x) for x in c["filters"]]
                c.setdefault("audit", False)
                c.setdefault("tags", [])
                c["src"] = "corpus/" + fn
                out.append(c)
    return out


# ---------------------------------------------------------------- implementation output -> model input
def canon(t):
    return json.dumps(t, sort_keys=True, ensure_ascii=False)


def g_optstr(s):
    return "None" if s is None else "(Some %s)" % g_str(s)


def g_ftxn(t):
    loc = "None"
    if t["loc"] is not None:
        l = t["loc"]
        loc = "(Some (mkGeo %s %s %s))" % (g_dec(l["lat"]), g_dec(l["lon"]), "None" if l["alt"] is None else "(Some %s)" % g_dec(l["alt"]))
    hdr = "(mkHeader %s %s %s %s %s %s %s %s)" % (
        g_Z(int(t["ts"]["ns"])), g_Z(int(t["ts"]["off"])), g_optstr(t["code"]), g_optstr(t["desc"]), g_optstr(t["uuid"]), loc,
        g_list([g_str(x) for x in (t["tags"] or [])]), g_list([g_str(x) for x in (t["comments"] or [])]))
    posts = g_list(["(mkPosting %s %s %s %s %s %s)" % (g_acct(p["acc"]), g_str(p["comm"]), g_dec(p["amount"]), g_dec(p["txn_amount"]),
                                                      g_bool(p["total"]), g_str(p["txn_comm"])) for p in t["posts"]])
    pcs = g_list([g_optstr(p["comment"]) for p in t["posts"]])
    return "(mkFtxn (mkTxn %s %s) %s)" % (hdr, posts, pcs)


def haystacks(txns):
    hs = set()
    for t in txns:
        for x in (t["code"], t["desc"]):
            if x is not None:
                hs.add(x)
        hs.update(t["tags"] or [])
        hs.update(t["comments"] or [])
        for p in t["posts"]:
            hs.add(p["acc"]); hs.add(p["comm"])
            if p["comment"] is not None:
                hs.add(p["comment"])
    return sorted(hs)


def mask_of(all_txns, sel):
    """selection as a mask over the unfiltered set (greedy sub-sequence match on the full records;
    identical records are indistinguishable for every filter, so any assignment is right)"""
    ca = [canon(t) for t in all_txns]
    mask, i = [False] * len(ca), 0
    for t in sel:
        c = canon(t)
        while i < len(ca) and ca[i] != c:
            i += 1
        if i == len(ca):
            return None
        mask[i] = True
        i += 1
    return mask


def parse_md(text):
    if not text:
        return None, None
    m = _re.search(r"Set size\s*:\s*(\d+)", text)
    h = _re.search(r"SHA-256\s*:\s*([0-9a-f]{64})", text)
    return (int(m.group(1)) if m else None), (h.group(1) if h else None)


def process(run, groups, verbose=False):
    toml = J.make_toml()
    reqs, where = [], []
    for gi, g in enumerate(groups):
        base = {"conf": {"toml": toml}, "inputs": [{"text": g["journal"]}]}
        reqs.append(dict(base, overlaps={"audit": False}, ops=[{"op": "txns"}]))
        where.append((gi, None))
        for fi, f in enumerate(g["filters"]):
            reqs.append(dict(base, overlaps={"audit": bool(g["audit"])}, filter='{"txnFilter":%s}' % filter_json(f),
                             ops=[{"op": "txns"}, {"op": "metadata"}]))
            where.append((gi, fi))
    res = harness_run(reqs)
    for g in groups:
        g["res"] = [None] * len(g["filters"])
    for (gi, fi), rr in zip(where, res):
        if fi is None:
            groups[gi]["all_res"] = rr
        else:
            groups[gi]["res"][fi] = rr
    stages, terms, idx = {}, [], []
    for gi, g in enumerate(groups):
        ar = g["all_res"] or {}
        st = ar.get("stage", "none")
        stages["all:" + st] = stages.get("all:" + st, 0) + 1
        if st != "done" or "ok" not in ar["results"][0]:
            g["skip"] = "journal not loaded: %s %s" % (st, str(ar.get("err"))[:200])
            continue
        allt = ar["results"][0]["ok"]
        g["all"] = allt
        pats = sorted({pattern_of(l) for f in g["filters"] for l in walk(f) if pattern_of(l) is not None})
        pid = {p: i for i, p in enumerate(pats)}
        hs = haystacks(allt)
        tbl = ["(%s, %s, true)" % (g_N(pid[p]), g_str(h)) for p in pats for h in hs if _re.fullmatch(p, h)]
        items, g["impl"] = [], []
        for f, rr in zip(g["filters"], g["res"]):
            st = (rr or {}).get("stage", "none")
            stages[st] = stages.get(st, 0) + 1
            imp = {"stage": st}
            if st == "done" and "ok" in rr["results"][0]:
                sel = rr["results"][0]["ok"]
                mask = mask_of(allt, sel)
                size, digest = parse_md(rr["results"][1].get("ok"))
                imp.update({"n": len(sel), "mask": mask, "size": size, "digest": digest,
                            "uuids": [t["uuid"] for t in sel]})
                if mask is None:
                    impl = None
                else:
                    impl = "(Some (%s, %s))" % (g_list([g_bool(b) for b in mask]), "None" if size is None else "(Some %s)" % g_N(size))
            elif st == "txnset":
                impl = "None"
                imp["err"] = str(rr.get("err"))[:200]
            else:
                impl = None        # filter definition refused / panic: outside C05 (C18, C15)
                imp["err"] = str((rr or {}).get("err"))[:200]
            g["impl"].append(imp)
            if impl is not None:
                items.append("(%s, %s, %s)" % (filter_gallina(f, pid), g_bool(g["audit"]), impl))
            else:
                items.append(None)
        g["evaluated"] = [i for i, x in enumerate(items) if x is not None]
        if g["evaluated"]:
            terms.append("c05_multi %s %s %s" % (g_list(tbl) if tbl else "(@nil (N * list N * bool))",
                                                 g_list([g_ftxn(t) for t in allt]),
                                                 g_list([x for x in items if x is not None])))
            idx.append(gi)
    vals, errs = coq_eval("C05", IMPORTS, terms)
    if errs:
        raise Infra("coq evaluation failed: " + errs[0])
    distinct, kinds, depths, sel_classes, tagc = set(), {}, {}, {"none": 0, "some": 0, "all": 0}, {}
    n_dom = 0
    leaf_split = {}
    for gi, v in zip(idx, vals):
        g = groups[gi]
        n = as_N(v)
        if n is None:
            raise Infra("no result for group %d" % gi)
        for t in g["tags"]:
            tagc[t] = tagc.get(t, 0) + 1
        for pos, fi in enumerate(g["evaluated"]):
            bits = (n >> (3 * pos)) & 7
            f, imp = g["filters"][fi], g["impl"][fi]
            run.cov["evaluations"] += 1
            fj = '{"txnFilter":%s}' % filter_json(f)
            rep = {"journal": g["journal"], "filter_json": fj, "filters": [f], "audit": g["audit"], "source": g["src"],
                   "implementation_output": imp, "bits": bits,
                   "replay_hint": "tackler --input.file <journal> --api-filter-def '<filter_json>' ; ./check C05 --replay <this file>"}
            if verbose:
                print(json.dumps({"filter": fj, "impl": imp, "bits": bits}, ensure_ascii=False))
            depths[depth_of(f)] = depths.get(depth_of(f), 0) + 1
            for l in walk(f):
                kinds[l[0]] = kinds.get(l[0], 0) + 1
            mask = imp.get("mask")
            if mask is not None:
                cls = "none" if not any(mask) else ("all" if all(mask) else "some")
                sel_classes[cls] += 1
                if cls == "some":
                    distinct.add(fj + json.dumps(mask) + g["journal"])
                if f[0] not in ("and", "or", "not"):
                    s = leaf_split.setdefault(f[0], [0, 0])
                    s[0] += any(mask); s[1] += not all(mask)
            if len(run.cov["samples"]) < 4 and f[0] in ("and", "or") and mask and any(mask) and not all(mask):
                run.cov["samples"].append({"journal": g["journal"], "filter": fj, "audit": g["audit"], "implementation": imp, "bits": bits})
            if not (bits & 4):
                continue
            n_dom += 1
            if not (bits & 2):
                run.violation("filtered set is not the set the filter definition describes (selection or reported size)", rep)
                continue
            # reported checksum: SHA-256 over the sorted uuids of exactly the selected transactions
            if g["audit"] and imp["stage"] == "done":
                us = imp["uuids"]
                want = hashlib.sha256("".join(u + "\n" for u in sorted(us)).encode()).hexdigest() if all(us) else None
                if imp["digest"] != want:
                    run.violation("checksum reported with the filtered set is not the checksum of the filtered set", rep)
                    continue
            if not (bits & 1):
                run.cov["disagreements_checked"] += 1
                run.violation("correspondence broken: model Filter.txn_data_filter differs from implementation (spec oracle clean on this input)",
                              dict(rep, correspondence="C05_corr.c05_case"), found_input=False)
        # a filter and its negation partition the set (filters[0], filters[1] = NOT filters[0])
        if len(g["filters"]) >= 2 and g["filters"][1] == ("not", g["filters"][0]):
            m0, m1 = g["impl"][0].get("mask"), g["impl"][1].get("mask")
            if m0 is not None and m1 is not None and any(a == b for a, b in zip(m0, m1)):
                run.violation("a filter and its negation do not partition the transaction set",
                              {"journal": g["journal"], "filter_json": '{"txnFilter":%s}' % filter_json(g["filters"][0]),
                               "filters": g["filters"][:2], "audit": g["audit"], "masks": [m0, m1]})
    for gi, g in enumerate(groups):
        if g.get("skip") is None:
            for fi, imp in enumerate(g.get("impl", [])):
                if imp.get("mask") is None and imp["stage"] == "done":
                    run.violation("filtered set is not an order-preserving sub-sequence of the unfiltered set",
                                  {"journal": g["journal"], "filter_json": '{"txnFilter":%s}' % filter_json(g["filters"][fi]),
                                   "filters": [g["filters"][fi]], "audit": g["audit"], "implementation_output": imp})
    run.cov["distinct_nontrivial"] = len(distinct)
    run.notes.update({"stages": stages, "in_exact_domain": n_dom, "variant_occurrences": kinds, "tree_depths": depths,
                      "selection_classes": sel_classes, "boundary_shapes": tagc,
                      "single_leaf_filters[kind: selected something, rejected something]": leaf_split,
                      "journals_skipped": [g["skip"] for g in groups if g.get("skip")][:5]})
    return stages


def multi_call_stage(run, n):
    """several transaction sets drawn from ONE loaded TxnData (library use): the size and checksum
    reported with each set must describe exactly that set, whatever was asked before"""
    r = run.rng
    reqs, metas = [], []
    for _ in range(n):
        ctx = {"instants": r.sample(INSTANTS, r.randint(2, 4)), "comms": r.sample(COMMS, r.randint(1, 2)),
               "amounts": [], "points": [], "uuids": []}
        pool = UUIDS[:]
        r.shuffle(pool)
        ts = [gen_txn(r, ctx, True, pool) for _ in range(r.randint(3, 7))]
        tags = {}
        f = gen_filter(r, ctx, r.choice([1, 2, 3]), tags)
        fj, nfj = '{"txnFilter":%s}' % filter_json(f), '{"txnFilter":%s}' % filter_json(("not", f))
        seq = r.sample([None, fj, nfj, None, fj, nfj], r.randint(3, 6))
        reqs.append(multi_call_request(J.print_journal(ts), seq))
        metas.append(seq)
    res = harness_run(reqs)
    judge_multi_call(run, reqs, metas, res)


def multi_call_request(text, seq):
    return {"conf": {"toml": J.make_toml(audit="true", hash="SHA-256")}, "inputs": [{"text": text}], "multi_filters": seq}


def judge_multi_call(run, reqs, metas, res):
    for rq, seq, rr in zip(reqs, metas, res):
        if rr.get("stage") != "done" or "multi" not in rr:
            continue
        for k, (flt, out) in enumerate(zip(seq, rr["multi"])):
            run.cov["evaluations"] += 1
            if "err" in out:
                if "not valid JSON" in out["err"]:
                    raise Infra("multi-call stage sent a malformed filter: " + out["err"][:200])
                continue
            us = [t["uuid"] for t in out["txns"]]
            size, digest = parse_md(out.get("metadata"))
            want = hashlib.sha256("".join(u + "\n" for u in sorted(us)).encode()).hexdigest() if all(us) else None
            if size != len(us) or (want is not None and digest != want):
                run.violation("size or checksum reported with a filtered set does not describe that set (several sets drawn from one loaded journal)",
                              {"journal": rq["inputs"][0]["text"], "sequence_of_filters": seq, "position": k,
                               "selected_uuids": us, "reported_size": size, "reported_sha256": digest, "expected_sha256": want})
                break


def main(run):
    info = proof_stage(run, "C05", extra_targets=["corr/C05_corr.vo"])
    harness_build()
    n = 220 if run.tier == "quick" else 2500
    groups = load_corpus() + [gen_group(run) for _ in range(n)]
    process(run, groups)
    multi_call_stage(run, 12 if run.tier == "quick" else 120)
    skipped = sum(1 for g in groups if g.get("skip"))
    if skipped > len(groups) // 5:
        raise Infra("too many generated journals were not loaded: %s" % [g["skip"] for g in groups if g.get("skip")][:3])
    run.cov["rule"] = ("corpus + seeded groups: one journal (2-7 transactions sharing a few instants written with different offsets, "
                       "optional code/description/uuid/location/altitude/tags/comments/posting comments, amounts equal by value at "
                       "different scales) x 5 filter definitions (a tree of depth <= 5 over all 20 variants, its NOT, 3 single leaves): "
                       "instants at t-1ns/t/t+1ns, boxes degenerate per axis / on an edge / wrapping / whole earth / west = east / "
                       "just missing the point, altitude edges, amounts rescaled and +-1 ulp, empty AND/OR, 30% audit mode "
                       "(size + SHA-256 of the selected uuids, duplicate uuids); selection compared as a mask over the unfiltered set; "
                       "non-trivial = selection neither empty nor everything; distinct = distinct (journal, filter, selection)")
    import t04_text   # extra stage (extension T04): the metadata TEXT block against MetaText.v, byte for byte
    t04_text.run_text_stage(run, n=(25 if run.tier == "quick" else 300))
    return run.finish(info)


def replay(run, path):
    """the stored journal + filter definition(s) through harness + c05_multi (process), or the stored sequence of filters on
    one loaded journal (multi-call stage); replays of the T04 text stage go to t04.replay (common.replay_begin)"""
    j, rp, rc = replay_begin(run, path)
    if rc is not None:
        return rc
    if not isinstance(rp.get("journal"), str) or not (isinstance(rp.get("filters"), list) or isinstance(rp.get("sequence_of_filters"), list)):
        return replay_print(j)
    print(j.get("what"))
    print(json.dumps({k: rp[k] for k in rp if k in ("journal", "filter_json", "audit", "implementation_output", "sequence_of_filters")}, indent=1, ensure_ascii=False)[:6000])
    harness_build()
    if "filters" in rp:
        corr_build("C05")
        g = {"journal": rp["journal"], "filters": [to_ast(x) for x in rp["filters"]], "audit": rp.get("audit", False), "tags": [], "src": "replay"}
        process(run, [g], verbose=True)
        if g.get("skip"):
            print(g["skip"])
        why = "the stored filter definition(s) select the set they describe, size and checksum describe it, and the model agrees"
    else:
        seq = list(rp["sequence_of_filters"])
        rq = multi_call_request(rp["journal"], seq)
        judge_multi_call(run, [rq], [seq], harness_run([rq]))
        why = "every set drawn from the loaded journal by the stored sequence of filters is reported with its own size and checksum"
    return replay_verdict(run, path, j, why)
