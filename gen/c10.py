# C10 — equity export carries every selected balance forward exactly
import copy, json, os
from common import *
import journal as J

IMPORTS = ("From TkModel Require Import Base Dec Acct Txn Balance Accept Equity.\n"
           "From TkSpec Require Import Balance_spec Equity_spec.\nFrom TkCorr Require Import C10_corr.\n")

PRICE_TOML = '[price]\ndb-path = "prices.db"\nlookup-type = "last-price"'


# equity account names: invalid ones must be rejected by Settings when the equity export is a target (F20)
INVALID_EQA = ["Equity Opening", "", "a:", ":a", "1abc", "a b:c", "a\tb", "Equity\t:x", "a: b", "a:\tb", "a :b", " a", "a ",
               "-a", "_a", "·a", "a:-b", "a:_b", "a:·b", "a::b", ":", "a:b c", "a\u00a0b", "a:\u2003b",
               # is_valid_id / is_valid_sub_id let these through, the journal grammar does not (F20, 2cae891)
               "a!b", "!x", "a:b!", "Equity(x)", "a;b", "a@b", "E=x", "a#b", "a,b", "a'b", 'a"b', "a{b", "(a)", "a.b", "a/b",
               "a:b*", "a+b", "Equity:Opening?", "a\u1680b", "a\u2028b", "x:\u00d7"]
VALID_ODD_EQA = ["é:x", "a-b:1", "A:2b", "a:1", "a:²", "²a", "a_b:c-d", "€uro:x·y"]
WS = set([0x85, 0xa0, 0x1680, 0x2028, 0x2029, 0x202f, 0x205f, 0x3000, 32] + list(range(9, 14)) + list(range(0x2000, 0x200b)))


def _rng(lo, hi, c):
    return lo <= c <= hi


def id_start(c):
    """Journal.id_start (identifier.rs)"""
    return (_rng(97, 122, c) or _rng(65, 90, c) or c == 36 or _rng(162, 165, c) or _rng(192, 214, c) or _rng(216, 246, c)
            or _rng(248, 767, c) or _rng(880, 893, c) or _rng(895, 8191, c) or _rng(8204, 8205, c) or _rng(8304, 8591, c)
            or _rng(11264, 12271, c) or _rng(12289, 55295, c) or _rng(63744, 64975, c) or _rng(65008, 65533, c)
            or c in (181, 185, 178, 179, 176) or _rng(188, 190, c))


def id_char(c):
    """Journal.id_char"""
    return id_start(c) or _rng(48, 57, c) or c in (95, 45, 183) or _rng(768, 879, c) or _rng(8255, 8256, c)


def eq_account_ok(name):
    """python mirror of Equity_spec.eq_account_ok2 (the Coq predicate is evaluated on every case as well):
    an account name of the journal grammar (Journal_spec.name_ok) accepted by AccountTreeNode::from"""
    comps = name.split(":")
    for i, comp in enumerate(comps):
        if comp == "" or any(ord(ch) in WS for ch in comp) or not all(id_char(ord(ch)) for ch in comp):
            return False
        if comp[0] in "-_·":
            return False
    return id_start(ord(comps[0][0]))


def toml_str(x):
    return x.replace("\\", "\\\\").replace('"', '\\"').replace("\t", "\\t")


def esc_re(s):
    out = ""
    for ch in s:
        out += ("\\" + ch) if ch in r"\.+*?()|[]{}^$-" else ch
    return out


def sel_patterns(sel):
    """selector spec [(exact, text)] -> regular expressions as written in the configuration"""
    return [esc_re(s) if exact else esc_re(s) + ".*" for (exact, s) in sel]


# ---------------------------------------------------------------- Gallina emitters
def g_ostr(s):
    return "None" if s is None else "(Some %s)" % g_str(s)


def g_posting(p):
    return "(mkPosting %s %s %s %s %s %s)" % (g_acct(p["acc"]), g_str(p["comm"]), g_dec(p["amount"]),
                                              g_dec(p["txn_amount"]), g_bool(p["total"]), g_str(p["txn_comm"]))


def g_txn(t):
    h = "(mkHeader %s %s %s %s %s None [] [])" % (g_Z(int(t["ts"]["ns"])), g_Z(int(t["ts"]["off"])),
                                                 g_ostr(t["code"]), g_ostr(t["desc"]), g_ostr(t["uuid"]))
    return "(mkTxn %s %s)" % (h, g_list([g_posting(p) for p in t["posts"]]))


def g_bpost(p):
    return "(mkBpost %s %s %s)" % (g_acct(p["acc"]), g_str(p["comm"]), g_dec(p["amount"]))


def g_itxn(t):
    nwarn = sum(1 for c in (t["comments"] or []) if c.startswith("WARNING:"))
    return "(mkItxn %s %s %s %s %s)" % (g_Z(int(t["ts"]["ns"])), g_Z(int(t["ts"]["off"])), g_str(t["desc"] or ""),
                                        g_N(nwarn), g_list([g_bpost(p) for p in t["posts"]]))


def g_rows(rows):
    return g_list(["(mkBrow %s %s %s %s)" % (g_acct(r["acc"]), g_str(r["comm"]), g_dec(r["own"]), g_dec(r["tree"])) for r in rows])


def g_report(rep):
    ds = ["(%s, %s)" % (g_str(d["comm"]), g_dec(d["delta"])) for d in rep["deltas"]]
    return "(mkBal %s %s)" % (g_rows(rep["rows"]), g_list(ds))


def g_sel(sel):
    if sel is None:
        return "None"
    return "(Some %s)" % g_list(["(%s, %s)" % (g_bool(e), g_str(s)) for (e, s) in sel])


# ---------------------------------------------------------------- cases
def gen_case(r, i):
    g = J.Gen(r, max_depth=r.choice([1, 2, 3, 4]), n_accounts=r.randint(2, 8), big=(r.random() < 0.08))
    ts = g.journal(r.randint(1, 7), prices=(r.random() < 0.3), meta=True, implicit_p=0.25)
    tags = []
    audit = r.random() < 0.3
    for k, t in enumerate(ts):
        t["desc"] = "t%d" % k
        if audit:
            t["uuid"] = str(J._uuid.UUID(int=r.getrandbits(128), version=4))
    if audit:
        tags.append("audit")
    if len(ts) > 1 and r.random() < 0.3:
        # equal time stamps: the last transaction is decided by code / description / uuid
        pool = [ts[0]["ts"], r.choice(ts)["ts"]]
        for t in ts:
            if r.random() < 0.8:
                t["ts"] = r.choice(pool)
        tags.append("equal-timestamps")
    accs = sorted({p["acc"] for t in ts for p in t["posts"]} | {t["last"]["acc"] for t in ts if t.get("last")})
    k = r.random()
    if k < 0.3:
        sel = None; tags.append("sel-none")
    elif k < 0.55:
        sel = [(True, a) for a in r.sample(accs, min(len(accs), r.randint(1, 3)))]; tags.append("sel-exact")
    elif k < 0.8:
        a = r.choice(accs)
        comps = a.split(":")
        pre = ":".join(comps[:r.randint(1, len(comps))])
        if r.random() < 0.4:
            pre = pre[:r.randint(1, len(pre))]
        sel = [(False, pre)]
        if r.random() < 0.3:
            sel.append((True, r.choice(accs)))
        tags.append("sel-prefix")
    elif k < 0.9:
        sel = [(False, "")]; tags.append("sel-everything")
    else:
        sel = [(True, "zzz:none")]; tags.append("sel-nothing")
    k = r.random()
    if k < 0.08:
        eqa = r.choice(INVALID_EQA); tags.append("eqa-invalid-name")
    elif k < 0.16:
        eqa = r.choice(VALID_ODD_EQA); tags.append("eqa-valid-unusual-name")
    elif k < 0.55:
        eqa = r.choice(["Equity:Opening", "Equity", "Equity:Opening:Balance"])
    elif k < 0.85:
        eqa = r.choice(accs); tags.append("eqa-in-journal")
    else:
        eqa = r.choice(accs).split(":")[0]; tags.append("eqa-root-of-journal-account")
    case = {"text": J.print_journal(ts), "eqa": eqa, "sel": sel, "audit": audit, "tags": tags,
            "via_cli_accounts": (sel is not None and r.random() < 0.25), "prices_configured": r.random() < 0.15, "src": "gen"}
    if case["prices_configured"]:
        tags.append("price-conversion-configured")
    if len(ts) >= 2 and r.random() < 0.25:
        # a transaction filter: the export speaks about the selected transactions only
        keep = sorted(r.sample(range(len(ts)), r.randint(1, len(ts) - 1)))
        case["filter"] = json.dumps({"txnFilter": {"TxnFilterTxnDescription": {"regex": "t(%s)" % "|".join(map(str, keep))}}})
        tags.append("txn-filter")
    return case


def load_corpus():
    out = []
    cdir = os.path.join(VERIF, "corpus", "C10")
    if os.path.isdir(cdir):
        for f in sorted(os.listdir(cdir)):
            if f.endswith(".json"):
                c0 = json.load(open(os.path.join(cdir, f)))
                names = c0.pop("eqa_list", None)
                for k, name in enumerate(names if names is not None else [c0["eqa"]]):
                    c = dict(c0)
                    c["eqa"] = name
                    c["src"] = "corpus/" + f + ("#%d" % k if names is not None else "")
                    c["sel"] = None if c.get("sel") is None else [(bool(e), s) for (e, s) in c["sel"]]
                    c.setdefault("audit", False); c["tags"] = list(c.get("tags", [])); c.setdefault("via_cli_accounts", False)
                    c.setdefault("prices_configured", False)
                    out.append(c)
    return out


def request1(c):
    pats = None if c["sel"] is None else sel_patterns(c["sel"])
    kw = dict(eqa=toml_str(c["eqa"]), exports='"equity"', audit="true" if c["audit"] else "false")
    # the report scale is a display setting of the text reports: the export must not depend on it
    smin, smax = [(0, 28), (2, 7), (2, 2), (0, 0), (2, 7)][sum(map(ord, c["text"])) % 5]
    kw["smin"], kw["smax"] = smin, smax
    ov = {}
    if pats is not None:
        if c["via_cli_accounts"]:
            ov["accounts"] = pats
        else:
            kw["eq_acc"] = ", accounts = " + J.toml_list(pats)
    conf = {}
    if c["prices_configured"]:
        kw["price"] = PRICE_TOML
        kw["rcomm"] = 'commodity = "XTS"'
        conf["pricedb"] = "".join("P 2020-01-01 %s 3 XTS\n" % cm for cm in J.COMMS if cm)
    conf["toml"] = J.make_toml(**kw)
    c["toml"] = conf["toml"]
    req = {"conf": conf, "inputs": [{"text": c["text"]}],
           "ops": [{"op": "txns"}, {"op": "equity"},
                   {"op": "balance", "kind": "equity", "prices": False, "ras": pats or []}]}
    if ov:
        req["overlaps"] = ov
    if c.get("filter"):
        req["filter"] = c["filter"]
    return req


def request2(text):
    return {"conf": {"toml": J.make_toml()}, "inputs": [{"text": text}],
            "ops": [{"op": "txns"}, {"op": "balance", "prices": False}]}


def replay_obj(c):
    return {"journal": c["text"], "equity_account": c["eqa"],
            "equity_selectors": None if c["sel"] is None else sel_patterns(c["sel"]),
            "selector_spec": c["sel"],      # [exact?, text]: exact account name / string prefix of the account name
            "selectors_given_as": "--accounts" if c["via_cli_accounts"] else "export.equity.accounts",
            "audit": c["audit"], "price_conversion_configured": c["prices_configured"], "tackler_toml": c.get("toml"),
            "txn_filter": c.get("filter"),
            "export_text": c.get("export"), "export_parsed_back": c.get("reparse"), "source": c["src"],
            "replay_hint": "tackler --config <tackler_toml> --input.file <journal> --exports equity ; then feed the "
                           "*.equity.txn file back as a journal (audit off) with --reports balance; ./check C10 --replay <this file>"}


def main(run):
    info = proof_stage(run, "C10", extra_targets=["corr/C10_corr.vo"])
    harness_build()
    n = 150 if run.tier == "quick" else 2000
    cases = load_corpus() + [gen_case(run.rng, i) for i in range(n)]
    evaluate(run, cases)
    run.cov["rule"] = ("corpus + seeded journals (1-7 txns, 0-3 commodities incl. none, account trees depth<=4, priced postings in 30%, "
                       "equal time stamps in 30%, audit+uuid in 30%, transaction filter in 25%); selectors: none / exact names / string prefixes / everything / "
                       "nothing, 25% via --accounts; equity account outside or inside the journal, 8% unusual valid names, 8% invalid names "
                       "(white space, empty components, bad first character, characters outside the identifier classes: must be rejected at the settings stage); 15% with price conversion configured; "
                       "source and export each run through the harness (export parsed back with audit off); non-trivial = non-empty export; "
                       "distinct = distinct export texts")
    # extra stage (extension T02, DESIGN section 12): the export TEXT against EquityText.print_equity, byte for byte
    import t02_text
    ok_t, log_t = coq_make(["props/T02.vo"])
    if not ok_t:
        run.violation("proof obligation does not check: props/T02.v (equity export text model) failed to build",
                      {"theorem_file": "coq/props/T02.v", "log": log_t[-2000:], "stage": "T02"}, found_input=False)
    else:
        t02_text.run_text_stage(run, n=(30 if run.tier == "quick" else 400))
    return run.finish(info)


def evaluate(run, cases):
    res1 = harness_run([request1(c) for c in cases])
    stages, tagc = {}, {}
    second, idx2 = [], []
    for i, (c, r) in enumerate(zip(cases, res1)):
        st = r.get("stage") if r else "none"
        stages[st] = stages.get(st, 0) + 1
        c["stage"] = st
        c["usable"] = False
        for t in c["tags"] or ["corpus"]:
            tagc[t] = tagc.get(t, 0) + 1
        c["name_ok"] = eq_account_ok(c["eqa"])
        c["stage_err"] = (r or {}).get("err")
        c["accepted"] = None if st in ("none", "config", "harness", "request", "panic", "abort", "timeout") else (st != "settings")
        if st != "done":
            continue
        txns, eq, bal = r["results"]
        if "ok" not in txns or "ok" not in bal:
            continue                      # balance itself failed/panicked: outside C10 (C02/C15)
        c["usable"] = True
        c["txns"] = txns["ok"]
        c["src_sel_rows"] = bal["ok"]["rows"]
        if "ok" in eq:
            c["export"] = eq["ok"]
            if eq["ok"].strip() != "":
                second.append(request2(eq["ok"])); idx2.append(i)
            else:
                c["reparse"] = {"txns": [], "balance": {"rows": [], "deltas": []}}
        else:
            c["export"] = None
            c["export_error"] = eq
    # the export is a function of the transaction set: reports produced earlier in the same run (here: every
    # text report, with price conversion where configured) must not change it
    third, idx3 = [], []
    for i, c in enumerate(cases):
        if c["usable"] and c.get("export") is not None:
            rq = copy.deepcopy(request1(c))
            rq["ops"] = [{"op": "balance", "prices": True}, {"op": "text_balance"}, {"op": "text_register"}, {"op": "text_balgrp"}, {"op": "equity"}]
            third.append(rq); idx3.append(i)
    for i, r in zip(idx3, harness_run(third)):
        c = cases[i]
        run.cov["evaluations"] += 1
        if r and r.get("stage") == "done" and "ok" in r["results"][-1] and r["results"][-1]["ok"] != c["export"]:
            c["export_after_reports"] = r["results"][-1]["ok"]
            run.violation("equity export depends on the reports produced before it in the same run (same transaction set, same settings)",
                          dict(replay_obj(c), export_after_reports=r["results"][-1]["ok"],
                               ops_before_export=["balance (prices as configured)", "text_balance", "text_register", "text_balgrp"]))
    res2 = harness_run(second)
    for i, r in zip(idx2, res2):
        c = cases[i]
        if r and r.get("stage") == "done" and all("ok" in x for x in r["results"]):
            c["reparse"] = {"txns": r["results"][0]["ok"], "balance": r["results"][1]["ok"]}
        else:
            c["reparse"] = None
            c["reparse_error"] = {k: r.get(k) for k in ("stage", "err", "results")} if r else None
    terms, idx = [], []
    for i, c in enumerate(cases):
        if c["accepted"] is not None:
            terms.append("c10_name_case %s %s" % (g_acct(c["eqa"]), g_bool(c["accepted"])))
            idx.append(("name", i))
        if not c["usable"] or not c["name_ok"]:
            continue
        ts = list(c["txns"])
        descs = [t["desc"] for t in ts]
        if len(set(descs)) == len(descs) and None not in descs:
            run.rng.shuffle(ts)           # the model sorts; equal headers cannot occur
        rp = c.get("reparse")
        if c.get("export") is None or rp is None:
            impl = "None"
        else:
            impl = "(Some (%s, %s))" % (g_list([g_itxn(t) for t in rp["txns"]]), g_report(rp["balance"]))
        terms.append("c10_case %s %s %s %s %s" % (g_list([g_txn(t) for t in ts]), g_acct(c["eqa"]), g_sel(c["sel"]),
                                                  impl, g_rows(c["src_sel_rows"])))
        idx.append(("case", i))
    vals, errs = coq_eval("C10", IMPORTS, terms)
    if errs:
        raise Infra("coq evaluation failed: " + errs[0])
    distinct = set()
    n_dom = n_warn = n_bal = n_empty = 0
    corpus_bits = {}
    names = {"invalid_rejected": 0, "valid_accepted": 0}
    for (kind, j), v in zip(idx, vals):
        c = cases[j]
        bits = as_N(v)
        if bits is None:
            raise Infra("no result for case %d (%s)" % (j, c["src"]))
        if kind == "name":
            agree = bool(bits & 1)
            if agree != (c["name_ok"] == c["accepted"]):
                raise Infra("python and Coq eq_account_ok2 differ on %r" % c["eqa"])
            if agree:
                names["valid_accepted" if c["accepted"] else "invalid_rejected"] += 1
                if not c["accepted"]:
                    run.cov["evaluations"] += 1
            elif c["accepted"]:
                # an invalid name got through the configuration
                if c.get("export") and c.get("reparse") is None:
                    run.violation("equity export written with an invalid equity account name is not accepted as a journal "
                                  "(the configuration should have been rejected)", replay_obj(c))
                else:
                    run.violation("Settings accepted an equity account name outside Equity_spec.eq_account_ok2 "
                                  "(no unreadable export on this input)",
                                  dict(replay_obj(c), correspondence="C10_corr.c10_name_case"), found_input=False)
            else:
                run.violation("a grammar-valid equity account name (Equity_spec.eq_account_ok2) is rejected by the configuration",
                              dict(replay_obj(c), correspondence="C10_corr.c10_name_case", stage_error=c.get("stage_err")), found_input=False)
            continue
        run.cov["evaluations"] += 1
        exp = c.get("export") or ""
        if exp.strip():
            distinct.add(exp)
            n_warn += "; WARNING:" in exp
            n_bal += ("   " + c["eqa"] + "  ") in exp
        else:
            n_empty += 1
        if len(run.cov["samples"]) < 3 and c["src"] == "gen":
            run.cov["samples"].append({"journal": c["text"], "equity_account": c["eqa"],
                                       "selectors": None if c["sel"] is None else sel_patterns(c["sel"]),
                                       "export": c.get("export"), "bits": bits})
        if c["src"] != "gen":
            corpus_bits[c["src"]] = bits
        if not (bits & 4):
            continue
        n_dom += 1
        if not (bits & 2):
            what = "equity export does not carry the selected balances forward"
            if c.get("export") is None:
                what = "equity export fails on an accepted journal inside the exact decimal domain"
            elif c.get("reparse") is None:
                what = "equity export is not accepted as a journal"
            run.violation(what, replay_obj(c))
        elif not (bits & 1):
            run.cov["disagreements_checked"] += 1
            run.violation("correspondence broken: model Equity.equity differs from the implementation's export "
                          "(specification oracles hold on this input)",
                          dict(replay_obj(c), correspondence="C10_corr.c10_case"), found_input=False)
    run.cov["distinct_nontrivial"] = len(distinct)
    run.notes.update({"stages": stages, "tags": tagc, "in_exact_domain": n_dom, "exports_with_warning": n_warn,
                      "exports_with_balancing_posting": n_bal, "empty_exports": n_empty, "corpus_bits": corpus_bits,
                      "equity_account_names": names})


def replay(run, path):
    """re-run the stored case against the current /repo; exit 1 if it still violates"""
    j, rp, rc = replay_begin(run, path)          # replays of the T02 text stage go to t02.replay
    if rc is not None:
        return rc
    if not (isinstance(rp.get("journal"), str) and "equity_account" in rp):
        return replay_print(j)
    print(j.get("what"))
    print(json.dumps({k: rp.get(k) for k in ("journal", "equity_account", "equity_selectors", "selectors_given_as", "audit",
                                              "price_conversion_configured", "export_text")}, indent=1, ensure_ascii=False)[:6000])
    spec = rp.get("selector_spec")
    c = {"text": rp["journal"], "eqa": rp["equity_account"], "sel": None if spec is None else [(bool(e), t) for (e, t) in spec],
         "audit": bool(rp.get("audit")), "tags": ["replay"], "via_cli_accounts": rp.get("selectors_given_as") == "--accounts",
         "prices_configured": bool(rp.get("price_conversion_configured")), "filter": rp.get("txn_filter"), "src": "replay"}
    print("equity account name %r: eq_account_ok = %s" % (c["eqa"], eq_account_ok(c["eqa"])))
    ok, log = coq_make(["corr/C10_corr.vo"])
    if not ok:
        raise Infra("coq build failed:\n" + log[-2000:])
    harness_build()
    evaluate(run, [c])
    print("export now:\n%s" % c.get("export"))
    return replay_verdict(run, path, j, "the equity export of the stored case carries the selected balances forward, does not depend on earlier reports, "
                                        "the account name is judged as specified and the model agrees (stage %s, bits %s)" % (c.get("stage"), run.notes.get("corpus_bits")))
