# T05 (extension, not a numbered property) — the register, balance and balance-group report TEXTS under
# price conversion and rounding: (1) the proof audit of coq/props/T05.v (end-to-end theorems composing
# C07, C03, C02, C17 and T01), (2) the text stage of gen/t05_text.py on corpus/T05 and on seeded journals:
# byte-for-byte comparison with the model chain evaluated inside Coq from the price FILE, and the
# end-to-end oracle of coq/spec/T05_spec.v on the implementation's text.
# The same comparison runs as an extra stage of ./check C07 on that check's own cases.
import json
from common import *
import t05_text as T


def main(run):
    info = proof_stage(run, "T05", extra_targets=["corr/T05_corr.vo"])
    harness_build()
    st = T.run_text_stage(run)
    run.cov["evaluations"] += st["compared"]
    run.cov["distinct_nontrivial"] = st["distinct_texts"]
    if "sample" in st:
        run.cov["samples"].append(st.pop("sample"))
    run.cov["rule"] = ("corpus/T05 (boundary cases: product with exactly 28 decimals, product beyond 28 decimals = outside the exact domain and skipped, "
                       "mid-points after conversion, negative carries, converted and unconverted rows of one account in one entry, zero and negative rates, "
                       "rate stamped exactly at / 1 ns after the transaction) + seeded cases: 1-4 commodities, account trees, the same account several times "
                       "in an entry, postings in foreign commodities with closing prices, price files of the C07 generator (pairs into the report commodity, "
                       "inverse / chained / unrelated pairs, shuffled lines) with rates that give mid-points, up to 28 decimals, zero and negative rates; "
                       "all three lookups and none; report scales (0,0) (2,2) (2,7) (0,28) (28,28) (0,3) (1,4) (0,1) + random; account selections; "
                       "register (3 time stamp styles), balance, balance-group (5 group-by settings) in rotation. The implementation's text from the title "
                       "line on is compared character by character with T05_report (Price -> Register/Balance/Group -> ReportText) evaluated inside Coq on "
                       "the price file as written and the loaded transactions, and must pass the oracle T05_spec.register_text_ok / balance_text_ok "
                       "(figures read back from the text = exact sums of amount x documented rate, rounded half away from zero); cases whose products or sums "
                       "leave 28 decimals / 96 bits are skipped; non-trivial = more than 3 lines; distinct = distinct report texts")
    return run.finish(info)


def replay(run, path):
    j = json.load(open(path))
    rp = j.get("replay") or {}
    print(j.get("what"))
    c = rp.get("case")
    if not c:
        print(json.dumps(j, indent=1, ensure_ascii=False)[:6000])
        return 0
    print("price file:\n%s\njournal:\n%s\nlookup %s, report commodity %s, before %s, scale %s, report %s, listed accounts %s"
          % (c["file_text"], c["journal"], c["lt"], c["rc"], c.get("before"), rp.get("scale"), c["kind"], rp.get("listed_accounts")))
    print("first differing character: %s\nimplementation: %r\nmodel:          %r"
          % (rp.get("first_differing_character"), rp.get("implementation_around"), rp.get("model_around")))
    harness_build()
    st = T.new_stats()
    T.check_cases(run, [dict(c)], st)
    for what, rep, found in run.violations:
        print("REPRODUCED: %s%s" % (what, "" if found else " (no failing input: correspondence only)"))
        print("implementation text now:\n" + rep["implementation_text"])
        print("model text now:\n" + (rep["model_text"] or ""))
    if not run.violations:
        print("not reproduced: compared=%d different=%d stages=%s outside_exact_domain=%d"
              % (st["compared"], st["different"], st["stages"], st["outside_exact_domain"]))
    return 1 if run.violations else 0
