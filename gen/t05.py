# T05 (extension, not a numbered property) — the register, balance and balance-group report TEXTS under
# price conversion and rounding: (1) the proof audit of coq/props/T05.v (end-to-end theorems composing
# C07, C03, C02, C17 and T01), (2) the text stage of gen/t05_text.py on corpus/T05 and on seeded journals:
# byte-for-byte comparison with the model chain evaluated inside Coq from the price FILE, and the
# end-to-end oracle of coq/spec/T05_spec.v on the implementation's text.
# The same comparison runs as an extra stage of ./check C07 on that check's own cases.
import json
from common import *
import t05_text as T


def main(run):
    info = proof_stage(run, "T05", extra_targets=["corr/T05_corr.vo"])
    harness_build()
    st = T.run_text_stage(run)
    run.cov["evaluations"] += st["compared"]
    run.cov["distinct_nontrivial"] = st["distinct_texts"]
    if "sample" in st:
        run.cov["samples"].append(st.pop("sample"))
    run.cov["rule"] = ("corpus/T05 (boundary cases: product with exactly 28 decimals, product beyond 28 decimals = outside the exact domain and skipped, "
                       "mid-points after conversion, negative carries, converted and unconverted rows of one account in one entry, zero and negative rates, "
                       "rate stamped exactly at / 1 ns after the transaction) + seeded cases: 1-4 commodities, account trees, the same account several times "
                       "in an entry, postings in foreign commodities with closing prices, price files of the C07 generator (pairs into the report commodity, "
                       "inverse / chained / unrelated pairs, shuffled lines) with rates that give mid-points, up to 28 decimals, zero and negative rates; "
                       "all three lookups and none; report scales (0,0) (2,2) (2,7) (0,28) (28,28) (0,3) (1,4) (0,1) + random; account selections; "
                       "register (3 time stamp styles), balance, balance-group (5 group-by settings) in rotation. The implementation's text from the title "
                       "line on is compared character by character with T05_report (Price -> Register/Balance/Group -> ReportText) evaluated inside Coq on "
                       "the price file as written and the loaded transactions, and must pass the oracle T05_spec.register_text_ok / balance_text_ok "
                       "(figures read back from the text = exact sums of amount x documented rate, rounded half away from zero); cases whose products or sums "
                       "leave 28 decimals / 96 bits are skipped; non-trivial = more than 3 lines; distinct = distinct report texts")
    return run.finish(info)


def replay(run, path):
    """also the replay of the T05 stage inside C07 (run.prop is the host then): common.replay_begin"""
    j, rp = replay_load(path)
    if "theorem_file" in rp and "case" not in rp:
        return replay_theorem(run, path, j, rp)
    print(j.get("what"))
    c = rp.get("case")
    if not (isinstance(c, dict) and all(k in c for k in ('file_text', 'journal', 'kind', 'lt'))):
        return replay_print(j)
    print("price file:\n%s\njournal:\n%s\nlookup %s, report commodity %s, before %s, scale %s, report %s, listed accounts %s"
          % (c["file_text"], c["journal"], c["lt"], c["rc"], c.get("before"), rp.get("scale"), c["kind"], rp.get("listed_accounts")))
    print("first differing character: %s\nimplementation: %r\nmodel:          %r"
          % (rp.get("first_differing_character"), rp.get("implementation_around"), rp.get("model_around")))
    harness_build()
    st = T.new_stats()
    T.check_cases(run, [dict(c)], st)
    for what, rep, found in run.violations:
        print("implementation text now:\n%s" % rep.get("implementation_text"))
        print("model text now:\n%s" % (rep.get("model_text") or ""))
    return replay_verdict(run, path, j, "T05 stage: the %s text under conversion is the model chain's text and passes the end-to-end oracle now "
                                        "(compared=%d different=%d stages=%s outside_exact_domain=%d)"
                          % (c["kind"], st["compared"], st["different"], st["stages"], st["outside_exact_domain"]))
