# T01 (extension) — the TEXT of the balance, balance-group and register reports, byte for byte.
# run_text_stage(run, kind) is an extra stage for the C02/C03/C13/C17 checks and for ./check T01:
# it renders seeded journals with the implementation (ops text_balance / text_balgrp /
# text_register), feeds the figures of the same run (ops balance / balgrp / register) to the
# model coq/model/ReportText.v and compares the two texts character by character
# (coq/corr/T01_corr.v).  A difference is a broken correspondence (a pure layout difference is
# not a violation of a numbered property): always reported as no-failing-input-found.
import datetime, json, os
from common import *
import journal as J

IMPORTS = ("From TkModel Require Import Base Dec Acct Txn Balance Register Round ReportText.\n"
           "From TkCorr Require Import T01_corr.\n")

KINDS = ("balance", "balgrp", "register")
SCALES = [(0, 0), (2, 2), (2, 7), (0, 28), (28, 28)]
TITLES = {"balance": "BAL", "balgrp": "BALGRP", "register": "REG"}
COMMS = ["", "", "EUR", "He·bar", "€", "ACME", "µ", "Au·oz·tr"]
# report zones with a fixed offset (POSIX sign: Etc/GMT-14 = +14:00); the offsets are stated here,
# they are not taken from the tz database
ZONES = {"UTC": 0, "Etc/GMT-14": 14 * 3600, "Etc/GMT+11": -11 * 3600}
STYLES = ["date", "seconds", "full"]
GROUP_BYS = ["year", "month", "date", "iso-week", "iso-week-date"]
LONG_COMPS = ["a-very-long-account-component-0123456789", "Ünïcödé·component·that·is·rather·long·too", "x" * 40,
              "sub_account_with_33_characters_ab", "thirty-two-characters-component_"]


def esc_re(s):
    out = ""
    for ch in s:
        out += ("\\" + ch) if ch in r"\.+*?()|[]{}^$-" else ch
    return out


# ---------------------------------------------------------------- generator
def amount_gen(r, smin, smax, wide):
    """amounts built against the layout: wide figures (>= 18 characters), figures whose rounding adds a
    digit (9.995 -> 10.00: the width pre-pass truncates), more / fewer decimals than shown, tiny ones.
    tackler accepts at most 28 significant digits and every sum must stay inside 96 bits, so a journal is
    either `wide` (17-19 integer digits, at most 8 decimals) or deep (up to 28 decimals, small integer parts)."""
    S = 8 if (wide or smax >= 28) else min(28, smax + 4)      # largest scale that occurs in the journal
    lim = 10 ** (19 if wide else max(1, 26 - S))              # bound of the integer part

    def clamp(ms):
        m, s = ms
        if s > S:
            m, s = (abs(m) // 10 ** (s - S)) * (1 if m > 0 else -1), S
        a = abs(m) % (lim * 10 ** s)
        if a == 0:
            a = 1
        return (a if m > 0 else -a, s)

    def g():
        sg = r.choice([1, -1])
        c = r.random()
        if wide and c < 0.30:        # wide: 17-19 integer digits
            nd = r.randint(17, 19)
            return (sg * r.randint(10 ** (nd - 1), 10 ** nd - 1), 0) if r.random() < 0.5 else \
                   (sg * r.randint(10 ** (nd + 1), 10 ** (nd + 2) - 1), 2)
        if wide and c < 0.45:        # exactly around the 18 character boundary of the register columns
            s = r.choice([0, 2, min(smax, 4)])
            nd = max(1, 18 - (s + 1 if s else 0) + r.choice([-2, -1, 0, 0, 1]))
            nd = min(nd, 19)
            return (sg * (r.randint(10 ** (nd - 1), 10 ** nd - 1) * 10 ** s + r.randint(0, 10 ** s - 1)), s)
        if c < 0.58 and smax < S and smax <= 23:    # all nines and a rounding digit: one more digit after rounding
            nd = r.choice([1, 2, 3, 11, 12, 17, 18] if wide else [1, 2, 3, 5])
            nd = min(nd, 25 - smax)
            return (sg * (int("9" * (nd + smax)) * 10 + r.choice([4, 5, 9])), smax + 1)
        if c < 0.68 and smax < S:    # more decimals than max
            s = min(S, smax + r.randint(1, 4))
            return (sg * r.randint(1, 10 ** r.randint(1, 12)), s)
        if c < 0.74 and smax < S:    # rounds to zero / to one unit of the last shown decimal
            s = min(S, smax + r.randint(1, 3))
            return (sg * r.choice([1, 4, 5, 6]) * 10 ** (s - smax - 1), s)
        if c < 0.80:                 # stored scale larger than needed
            j = r.randint(1, 3)
            return (sg * r.randint(1, 10 ** 5) * 10 ** j, r.randint(0, 3) + j)
        if c < 0.93:
            return (sg * r.randint(1, 500), r.choice([0, 0, 1, 2]))
        return (sg * r.randint(1, 10 ** 9), r.randint(0, 6))
    return lambda: clamp(g())


def gen_case(r, kind, i):
    smin, smax = SCALES[i % len(SCALES)]
    if r.random() < 0.12:
        a, b = r.randint(0, 28), r.randint(0, 28)
        smin, smax = min(a, b), max(a, b)
    ncomm = r.choice([1, 1, 2, 2, 3])
    comms = r.sample(COMMS, ncomm)
    if r.random() < 0.25 and "" not in comms:
        comms.append("")                      # rows without commodity next to rows with one
    g = J.Gen(r, max_depth=r.choice([1, 2, 3, 4]), n_accounts=r.randint(2, 6), comms=comms)
    if r.random() < 0.45:                     # long account names (> 33 characters)
        for _ in range(r.randint(1, 2)):
            base = r.choice(g.accounts).split(":")[:r.randint(1, 2)]
            g.accounts.append(":".join(base + [r.choice(LONG_COMPS)] + ([r.choice(J.COMPS_REST)] if r.random() < 0.4 else [])))
        g.accounts = sorted(set(g.accounts))
    g.amount = amount_gen(r, smin, smax, wide=(r.random() < 0.4))
    ts = g.journal(r.randint(1, 6), prices=False, meta=(kind == "register" and r.random() < 0.7), implicit_p=0.3)
    sel = []
    k = r.random()
    if k < 0.35:                              # listed accounts only: deltas are then not zero
        sel = r.sample(g.accounts, min(len(g.accounts), r.randint(1, 3)))
    elif k < 0.40:
        sel = ["no:such:account"]             # empty report: title and underline only
    c = {"kind": kind, "smin": smin, "smax": smax, "text": J.print_journal(ts), "sel": sel,
         "rtz": r.choice(list(ZONES)) if kind != "balance" else "UTC",
         "style": r.choice(STYLES), "group_by": r.choice(GROUP_BYS)}
    return c


def request(c):
    ras = [esc_re(a) for a in c.get("sel") or []]
    acc = (", accounts = " + J.toml_list(ras)) if ras else ""
    toml = J.make_toml(smin=c["smin"], smax=c["smax"], bal_acc=acc, balgrp_acc=acc, reg_acc=acc, rtz=c["rtz"],
                       reg_ts=', timestamp-style = "%s"' % c["style"], group_by=c["group_by"])
    k = c["kind"]
    ops = {"balance": [{"op": "balance", "ras": ras}, {"op": "text_balance"}],
           "balgrp": [{"op": "balgrp", "ras": ras}, {"op": "text_balgrp"}],
           "register": [{"op": "register", "ras": ras}, {"op": "text_register"}]}[k]
    return {"conf": {"toml": toml}, "inputs": [{"text": c["text"]}], "ops": ops}


# ---------------------------------------------------------------- Gallina terms
def g_rows(rows):
    return g_list(["(mkBrow %s %s %s %s)" % (g_acct(x["acc"]), g_str(x["comm"]), g_dec(x["own"]), g_dec(x["tree"])) for x in rows]) \
        if rows else "(@nil brow)"


def g_deltas(ds):
    return g_list(["(%s, %s)" % (g_str(d["comm"]), g_dec(d["delta"])) for d in ds]) if ds else "(@nil (list N * dec))"


def g_sc(c):
    return "(mkScale %s %s)" % (g_N(c["smin"]), g_N(c["smax"]))


def ts_text(ns, style, off):
    """txn_ts::as_tz_date / as_tz_seconds / as_tz_full in a zone with the fixed offset `off` seconds:
    %Y-%m-%d[ %H:%M:%S[%.f]] (fraction: the digits needed, nothing when zero)"""
    sec, frac = divmod(ns, 10 ** 9)
    d = datetime.datetime(1970, 1, 1) + datetime.timedelta(seconds=sec + off)
    if style == "date":
        return d.strftime("%Y-%m-%d")
    s = d.strftime("%Y-%m-%d %H:%M:%S")
    if style == "full" and frac:
        s += "." + ("%09d" % frac).rstrip("0")
    return s


def g_header(t):
    loc = "None"
    if t.get("loc"):
        l = t["loc"]
        loc = "(Some (mkGeo %s %s %s))" % (g_dec(l["lat"]), g_dec(l["lon"]), g_opt(l.get("alt"), g_dec))
    strs = lambda l: g_list([g_str(x) for x in l]) if l else "(@nil (list N))"
    return "(mkHeader %s %s %s %s %s %s %s %s)" % (g_Z(int(t["ts"]["ns"])), g_Z(int(t["ts"]["off"])), g_opt(t["code"], g_str),
                                                    g_opt(t["desc"], g_str), g_opt(t["uuid"], g_str), loc,
                                                    strs(t.get("tags") or []), strs(t.get("comments") or []))


def g_entry(e, c):
    rows = ["(mkRrow (mkPosting %s %s %s %s false %s) %s %s %s)" % (g_acct(x["acc"]), g_str(x["comm"]), g_dec(x["amount"]), g_dec(x["amount"]),
                                                                     g_str(x["comm"]), g_dec(x["total"]), g_str(x["target"]), g_opt(x["rate"], g_dec))
            for x in e["rows"]]
    ts = ts_text(int(e["txn"]["ts"]["ns"]), c["style"], ZONES[c["rtz"]])
    return "(%s, mkRentry (mkTxn %s []) %s)" % (g_str(ts), g_header(e["txn"]), g_list(rows) if rows else "(@nil rrow)")


def is_neg_zero(j):
    return j is not None and bool(j["n"]) and int(j["m"]) == 0


def figures(kind, data):
    if kind == "balance":
        data = [data]
    if kind in ("balance", "balgrp"):
        return [x[k] for g in data for x in g["rows"] for k in ("own", "tree")] + [d["delta"] for g in data for d in g["deltas"]]
    out = []
    for e in data:
        for x in e["rows"]:
            out += [x["amount"], x["total"], x["rate"]]
        if e["txn"].get("loc"):
            out += [e["txn"]["loc"]["lat"], e["txn"]["loc"]["lon"], e["txn"]["loc"].get("alt")]
    return out


def from_title(text, title):
    """the report from its title line on (the metadata blocks written before it are not modelled)"""
    lines = text.split("\n")
    pos = 0
    for i in range(len(lines) - 1):
        if lines[i] == title and lines[i + 1] == "-" * len(title):
            return text[pos:]
        pos += len(lines[i]) + 1
    return None


def model_term(c, data, text=None):
    k = c["kind"]
    title = g_str(TITLES[k])
    if k == "balance":
        args = "%s %s %s %s" % (g_rows(data["rows"]), g_deltas(data["deltas"]), title, g_sc(c))
        fn = "t01_bal"
    elif k == "balgrp":
        grps = ["(mkBalGroup %s %s %s)" % (g_str(g["title"]), g_rows(g["rows"]), g_deltas(g["deltas"])) for g in data]
        args = "%s %s %s" % (g_list(grps) if grps else "(@nil bal_group)", title, g_sc(c))
        fn = "t01_grp"
    else:
        es = [g_entry(e, c) for e in data]
        args = "%s %s %s 0%%nat" % (g_list(es) if es else "(@nil (list N * rentry))", title, g_sc(c))
        fn = "t01_reg"
    if text is None:
        return "%s_model %s" % (fn, args)
    return "%s_case %s %s" % (fn, args, g_str(text))


def parse_str(v):
    """a printed `list N` -> Python string"""
    import re
    return "".join(chr(int(x)) for x in re.findall(r"\d+", v or ""))


# ---------------------------------------------------------------- the stage
def features(c, data, text, st):
    k = c["kind"]
    lines = text.split("\n")
    st["lines"] += len(lines)
    if k == "register":
        rows = [x for e in data for x in e["rows"]]
        st["rows"] += len(rows)
        st["long_accounts"] += sum(1 for x in rows if len(x["acc"]) > 33)
        st["glued_account_amount"] += sum(1 for e in data for x in e["rows"] if len(x["acc"]) >= 33 and
                                          any(l.startswith(" " * 12 + x["acc"] + "-") for l in lines))
        st["headers_with_metadata"] += sum(1 for e in data if e["rows"] and (e["txn"]["uuid"] or e["txn"]["loc"] or e["txn"]["tags"] or e["txn"]["comments"]))
        st["entries_dropped_empty"] += sum(1 for e in data if not e["rows"])
    else:
        groups = [data] if k == "balance" else data
        rows = [x for g in groups for x in g["rows"]]
        st["rows"] += len(rows)
        st["long_accounts"] += sum(1 for x in rows if len(x["acc"]) > 33)
        st["empty_reports"] += sum(1 for g in groups if not g["rows"])
        st["nonzero_deltas"] += sum(1 for g in groups for d in g["deltas"] if int(d["delta"]["m"]) != 0)
        st["mixed_commodity_and_none"] += sum(1 for g in groups if {bool(x["comm"]) for x in g["rows"]} == {True, False})
        st["multibyte_commodity"] += sum(1 for g in groups if any(any(ord(ch) > 127 for ch in x["comm"]) for x in g["rows"]))
        pos = 2 if k == "balgrp" else 0
        for g in groups:      # a block whose account names do not start in one column: a figure exceeded its width
            n = len(g["rows"])
            cols = {len(l) - len(x["acc"]) for x, l in zip(g["rows"], lines[pos + 2:pos + 2 + n])}
            st["blocks_with_figure_wider_than_column"] += len(cols) > 1
            pos += 2 + ((n + 1 + len(g["deltas"])) if n else 0)
    st["wide_figures"] += sum(1 for l in lines for tok in l.split() if len(tok) >= 18 and tok.lstrip("-").replace(".", "").isdigit())
    key = "%d,%d" % (c["smin"], c["smax"])
    st["scales"][key] = st["scales"].get(key, 0) + 1


def check_cases(run, cases, st, distinct=None):
    res = harness_run([request(c) for c in cases])
    terms, keep = [], []
    for c, rr in zip(cases, res):
        stg = rr.get("stage") if rr else "none"
        st["stages"][stg] = st["stages"].get(stg, 0) + 1
        if stg != "done":
            continue
        rs = rr["results"]
        if any(x.get("panic") for x in rs) or not all("ok" in x for x in rs):
            st["op_failed"] += 1           # overflow etc.: subject of other checks (C02, C17)
            continue
        data, text = rs[0]["ok"], rs[1]["ok"]
        if any(is_neg_zero(f) for f in figures(c["kind"], data)):
            st["neg_zero_skipped"] += 1    # the sign of zero is outside the model (Dec.v)
            continue
        body = from_title(text, TITLES[c["kind"]])
        if body is None:
            raise Infra("T01: title line %r not found in the %s report" % (TITLES[c["kind"]], c["kind"]))
        c["data"], c["impl_text"] = data, body
        terms.append(model_term(c, data, body))
        keep.append(c)
    ok, log = coq_make(["corr/T01_corr.vo"])
    if not ok:
        raise Infra("coq build of corr/T01_corr.vo failed:\n" + log[-3000:])
    tag = "T01-%s-%s" % (run.prop, cases[0]["kind"] if cases else "none")
    vals, errs = coq_eval(tag, IMPORTS, terms)
    if errs:
        raise Infra("coq evaluation failed: " + errs[0])
    bad = []
    for c, v in zip(keep, vals):
        n = as_N(v)
        if n is None:
            raise Infra("no result for a T01 text case")
        st["compared"] += 1
        st["characters"] += len(c["impl_text"])
        features(c, c["data"], c["impl_text"], st)
        if distinct is not None and c["impl_text"].count("\n") > 3:
            distinct.add(c["impl_text"])
            if "sample" not in st and len(c["impl_text"]) < 1500:
                st["sample"] = {"kind": c["kind"], "scale": "%d,%d" % (c["smin"], c["smax"]), "journal": c["text"],
                                "listed_accounts": c["sel"] or "all", "text": c["impl_text"], "result": n}
        if not (n & 2):
            st["oracle_failed"] += 1
            c["oracle_failed"] = True
        if not (n & 1) or not (n & 2):
            c["first_diff"] = (n >> 2) - 1
            bad.append(c)
    if bad:
        mv, errs = coq_eval(tag + "-model", IMPORTS, [model_term(c, c["data"]) for c in bad[:5]])
        if errs:
            raise Infra("coq evaluation of the model text failed: " + errs[0])
        for c, v in zip(bad[:5], mv):
            mt = parse_str(v)
            i = c["first_diff"]
            rep = {"correspondence": "T01_corr.t01_%s_case" % {"balance": "bal", "balgrp": "grp", "register": "reg"}[c["kind"]],
                   "case": {k: c[k] for k in ("kind", "smin", "smax", "text", "sel", "rtz", "style", "group_by")},
                   "journal": c["text"], "scale": {"min": c["smin"], "max": c["smax"]}, "listed_accounts": c["sel"] or "all",
                   "first_differing_character": i, "implementation_text": c["impl_text"], "model_text": mt,
                   "implementation_around": c["impl_text"][max(0, i - 60):i + 20], "model_around": mt[max(0, i - 60):i + 20],
                   "figures": c["data"],
                   "replay_hint": "./check T01 --replay <this file>; tackler --config <toml with report.scale = {min=%d,max=%d}> --input.file <journal> --reports %s"
                                  % (c["smin"], c["smax"], {"balance": "balance", "balgrp": "balance-group", "register": "register"}[c["kind"]])}
            run.cov["disagreements_checked"] += 1
            run.violation("correspondence broken: ReportText.%s differs from the %s report text of the implementation"
                          % ({"balance": "bal_txt_report", "balgrp": "balgrp_txt_report", "register": "reg_txt_report"}[c["kind"]], c["kind"]),
                          rep, found_input=False)
    st["different"] += len(bad)
    return keep


def new_stats():
    return {"stages": {}, "op_failed": 0, "oracle_failed": 0, "neg_zero_skipped": 0, "compared": 0, "different": 0, "characters": 0, "lines": 0, "rows": 0,
            "long_accounts": 0, "wide_figures": 0, "empty_reports": 0, "nonzero_deltas": 0, "mixed_commodity_and_none": 0,
            "multibyte_commodity": 0, "blocks_with_figure_wider_than_column": 0, "glued_account_amount": 0, "headers_with_metadata": 0, "entries_dropped_empty": 0, "scales": {}}


def corpus_cases(kind):
    out = []
    cdir = os.path.join(VERIF, "corpus", "T01")
    if os.path.isdir(cdir):
        for f in sorted(os.listdir(cdir)):
            if f.endswith(".json"):
                for c in json.load(open(os.path.join(cdir, f))):
                    if c["kind"] == kind:
                        d = {"sel": [], "rtz": "UTC", "style": "date", "group_by": "date", "smin": 2, "smax": 2}
                        d.update(c)
                        out.append(d)
    return out


def run_text_stage(run, kind, n=None):
    """extra stage: `kind` in balance / balgrp / register. The harness must be built (harness_build()).
    Returns the counts (also stored in run.notes["text_<kind>"])."""
    assert kind in KINDS
    if n is None:
        n = 60 if run.tier == "quick" else 600
    r = run.rng
    cases = corpus_cases(kind) + [gen_case(r, kind, i) for i in range(n)]
    st = new_stats()
    distinct = set()
    with run.in_stage("T01"):
        check_cases(run, cases, st, distinct)
    st["distinct_texts"] = len(distinct)
    st = {k: v for k, v in st.items() if not (k in ("glued_account_amount", "headers_with_metadata", "entries_dropped_empty") and kind != "register")
          and not (k in ("empty_reports", "nonzero_deltas", "mixed_commodity_and_none", "multibyte_commodity", "blocks_with_figure_wider_than_column") and kind == "register")}
    run.notes["text_" + kind] = st
    return st
