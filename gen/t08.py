# T08 (extension "capstone", not a numbered property) — the numbered properties restated as theorems about THE TEXT THE
# TOOL PRINTS: coq/props/T08.v (about T06_run.run_console / run_files) and coq/props/T08_T07.v (about T07_run.run7_*:
# strict mode, several files, regular-expression selectors, Git storage).  Every theorem is a composition of the
# per-property theorems (C01 ... C19, T01 ... T05) with the structure theorems of T06 / T07; no new model code.
# What ties these statements to the implementation is therefore the correspondence of T06 / T07: the real binary's
# standard output / written files compared byte for byte with run_console / run_files / run7_*.
# ./check T08 = proof audit of both props files (full .vo build, one `Closed under the global context` per theorem,
# forbidden-word scan; coqchk in the thorough tier) + a run of that correspondence stage (gen/t06_text.py: run_stage), in which
# a share of the worlds pass the filter ARMORED or MALFORMED and are evaluated through T08_filter.run_console_ft / run_files_ft
# (coq/corr/T08_corr.v: the C18 row of T08).
import json
from common import *
import t06_text as T
import t06 as T06

SECOND = "T08_T07"


def audit_second(run):
    """the same audit as proof_stage for the T07-dependent props file"""
    info = coq_props(SECOND)
    closed_ok = info["ok"] and info.get("n_print", 0) >= 1 and info["closed"] == info.get("n_print", -1) \
        and info.get("n_print", 0) >= len(info["theorems"]) and not info["axioms"]
    if not info["ok"]:
        run.violation("proof obligation does not check: props/%s.v failed to build" % SECOND,
                      {"theorem_file": "coq/props/%s.v" % SECOND, "log": info["log"]}, found_input=False)
    elif not closed_ok:
        run.violation("assumption audit failed for props/%s.v" % SECOND,
                      {"theorem_file": "coq/props/%s.v" % SECOND, "axioms": info["axioms"], "closed": info["closed"],
                       "n_print": info.get("n_print"), "theorems": info["theorems"]}, found_input=False)
    elif run.tier == "thorough":
        # only the two T08_T07 modules are re-checked here: their dependencies are the closure of props/T07.v (re-checked by
        # ./check T07 --tier thorough) and of props/T08.v (re-checked by proof_stage above); a second full pass costs ~20 minutes
        rc, o, e = sh(["coqchk", "-silent", "-o", "-Q", "model", "TkModel", "-Q", "spec", "TkSpec", "-Q", "proofs", "TkProofs",
                       "-Q", "props", "TkProps", "-Q", "corr", "TkCorr",
                       "-norec", "TkProofs.T08_T07_proofs", "-norec", "TkProps." + SECOND], cwd=COQ, timeout=3000)
        # with -norec the admitted library modules' sealed fields are listed as axioms (Coq.ssr...): none may be ours
        m = re.search(r"\* Axioms:(.*?)\n\s*\n", o + e, re.S)
        listed = [l.strip() for l in (m.group(1).split("\n") if m else []) if l.strip() and l.strip() != "<none>"]
        ours = [l for l in listed if not l.startswith("Coq.")]
        if rc != 0 or m is None or ours:
            run.violation("coqchk rejected or reports axioms under TkProps.%s" % SECOND,
                          {"theorem_file": "coq/props/%s.v" % SECOND, "axioms": ours, "log": (o + e)[-1500:]}, found_input=False)
    return info, bool(closed_ok)


def main(run):
    info = proof_stage(run, "T08", extra_targets=["corr/T06_corr.vo", "corr/T07_corr.vo", "corr/T08_corr.vo"])
    info2, ok2 = audit_second(run)
    run.notes["props_files"] = {"coq/props/T08.v": len(info["theorems"]), "coq/props/%s.v" % SECOND: len(info2["theorems"])}
    # one list of theorems in the evidence; the second file counts only if its own audit passed
    if info.get("ok") and info.get("closed_ok") and ok2:
        info["theorems"] = info["theorems"] + info2["theorems"]
    elif not ok2:
        info["closed_ok"] = False
    run.notes["rests_on"] = ("the correspondence of T06 / T07 (real binary vs run_console / run_files / run7_*), exercised below; "
                             "the per-property correspondences are exercised by ./check Cxx")
    st = T.run_stage(run)
    run.cov["evaluations"] += st.get("worlds", 0)
    run.cov["distinct_nontrivial"] = st.get("distinct_outputs", 0)
    if "sample" in st:
        run.cov["samples"].append(st.pop("sample"))
    run.cov["rule"] = T.RULE
    return run.finish(info)


def replay(run, path):
    # every replay of this check is a world of the T06 / T07 stage (or names a theorem file)
    return T06.replay(run, path)
