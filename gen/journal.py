# journal.py — seeded generator of structured journals (AST) and their text.
# Every random choice comes from the rng passed in.
import uuid as _uuid

COMPS_FIRST = ["a", "ab", "a-b", "a_b", "b", "e", "Assets", "é", "x1", "€uro"]
COMPS_REST = COMPS_FIRST + ["1", "2b", "c", "d", "9-9"]
COMMS = ["", "", "EUR", "USD", "ACME", "He·bar", "€"]


def dec_str(m, s):
    """signed mantissa, scale -> decimal literal accepted by tackler"""
    neg = m < 0
    d = str(abs(m))
    if s > 0:
        d = d.rjust(s + 1, "0")
        d = d[:-s] + "." + d[-s:]
    return ("-" if neg else "") + d


def rescale(m, s, t):
    return m * 10 ** (t - s)


def add(a, b):
    (m1, s1), (m2, s2) = a, b
    t = max(s1, s2)
    return (rescale(m1, s1, t) + rescale(m2, s2, t), t)


def neg(a):
    return (-a[0], a[1])


def strip(a):
    m, s = a
    while s > 0 and m % 10 == 0:
        m //= 10
        s -= 1
    return (m, s)


class Gen:
    def __init__(self, rng, max_depth=5, n_accounts=8, comms=None, big=False):
        self.r = rng
        self.big = big
        self.comms = comms if comms is not None else rng.sample(COMMS, rng.randint(1, 3))
        self.accounts = self.make_accounts(n_accounts, max_depth)

    def make_accounts(self, n, max_depth):
        r = self.r
        accs = []
        for _ in range(n):
            if accs and r.random() < 0.55:
                # extend or sibling of an existing account: creates shared ancestors and gaps
                base = r.choice(accs).split(":")
                cut = r.randint(1, len(base))
                comps = base[:cut]
                for _ in range(r.randint(0, 2)):
                    if len(comps) < max_depth:
                        comps.append(r.choice(COMPS_REST))
            else:
                comps = [r.choice(COMPS_FIRST)]
                for _ in range(r.randint(0, max_depth - 1)):
                    comps.append(r.choice(COMPS_REST))
            accs.append(":".join(comps))
        return sorted(set(accs))

    def amount(self):
        r = self.r
        k = r.random()
        if self.big and k < 0.1:
            return (r.choice([1, -1]) * r.randint(2 ** 80, 2 ** 94), r.randint(0, 10))
        if k < 0.5:
            return (r.choice([1, -1]) * r.randint(1, 500), r.choice([0, 0, 1, 2]))
        if k < 0.8:
            return (r.choice([1, -1]) * r.randint(1, 10 ** 6), r.randint(0, 6))
        m = r.choice([1, -1]) * r.randint(1, 10 ** 12)
        return (m, r.randint(0, 12))

    def ts(self, i):
        r = self.r
        y = r.choice([2023, 2024, 2024, 2025])
        mo, d = r.randint(1, 12), r.randint(1, 28)
        k = r.random()
        if k < 0.4:
            return "%04d-%02d-%02d" % (y, mo, d)
        h, mi, s = r.randint(0, 23), r.randint(0, 59), r.randint(0, 59)
        base = "%04d-%02d-%02dT%02d:%02d:%02d" % (y, mo, d, h, mi, s)
        if k < 0.6:
            return base
        if k < 0.75:
            base += "." + "".join(r.choice("0123456789") for _ in range(r.randint(1, 9)))
        k2 = r.random()
        if k2 < 0.3:
            return base + "Z"
        return base + r.choice(["+", "-"]) + "%02d:%02d" % (r.randint(0, 14), r.choice([0, 0, 30, 45]))

    def txn(self, i, prices=False, implicit_p=0.3, meta=True):
        r = self.r
        comm = r.choice(self.comms)
        n = r.randint(2, 5)
        posts = []
        total = (0, 0)
        for j in range(n - 1):
            amt = self.amount()
            acc = r.choice(self.accounts)
            p = {"acc": acc, "amount": amt, "comm": comm, "closing": None, "opening": None, "comment": None}
            val = amt
            if prices and comm != "" and r.random() < 0.3:
                # posting in a foreign commodity, priced into comm
                fc = r.choice([c for c in COMMS if c not in ("", comm)])
                p["comm"] = fc
                if r.random() < 0.5:
                    pr = (r.randint(1, 5000), r.randint(0, 3))
                    p["closing"] = ("@", pr, comm)
                    val = (amt[0] * pr[0], amt[1] + pr[1])
                else:
                    tot = (abs(self.amount()[0]) * (1 if amt[0] > 0 else -1), r.randint(0, 3))
                    p["closing"] = ("=", tot, comm)
                    val = tot
                if r.random() < 0.3:
                    p["opening"] = ((r.randint(1, 900), r.randint(0, 2)), comm)
            if r.random() < 0.15:
                p["comment"] = r.choice(["c", "  two  spaces", "ünï", ""])
            posts.append(p)
            total = add(total, val)
        last = None
        if total[0] == 0:
            # others cancel: add a pair to keep every amount non-zero
            amt = self.amount()
            posts.append({"acc": r.choice(self.accounts), "amount": amt, "comm": comm, "closing": None, "opening": None, "comment": None})
            total = add(total, amt)
        if r.random() < implicit_p:
            last = {"acc": r.choice(self.accounts), "comment": None}
        else:
            bal = strip(neg(total)) if r.random() < 0.5 else neg(total)
            posts.append({"acc": r.choice(self.accounts), "amount": bal, "comm": comm, "closing": None, "opening": None, "comment": None})
        t = {"ts": self.ts(i), "code": None, "desc": None, "uuid": None, "loc": None, "tags": None,
             "comments": [], "posts": posts, "last": last}
        if meta:
            if r.random() < 0.3:
                t["code"] = r.choice(["#1", "a b", "X-%d" % i, ""])
            if r.random() < 0.5:
                t["desc"] = r.choice(["desc %d" % i, "it's (c)", "ünï ¢", "same"])
            if r.random() < 0.4:
                t["uuid"] = str(_uuid.UUID(int=r.getrandbits(128), version=4))
            if r.random() < 0.2:
                t["loc"] = (dec_str(r.randint(-9000, 9000), 2), dec_str(r.randint(-18000, 18000), 2),
                            dec_str(r.randint(-100, 9000), 1) if r.random() < 0.4 else None)
            if r.random() < 0.2:
                t["tags"] = r.sample(["t1", "a:b", "x-y", "t2:z"], r.randint(1, 3))
            if r.random() < 0.2:
                t["comments"] = [r.choice(["note", "  indented", "", "x ; y"]) for _ in range(r.randint(1, 2))]
        return t

    def journal(self, n, **kw):
        return [self.txn(i, **kw) for i in range(n)]


def print_posting(p, indent=" "):
    s = indent + p["acc"] + "  " + dec_str(*p["amount"])
    if p["comm"]:
        s += " " + p["comm"]
    if p.get("opening"):
        (v, c) = p["opening"]
        s += " {" + dec_str(*v) + " " + c + "}"
    if p.get("closing"):
        k, v, c = p["closing"]
        s += " " + k + " " + dec_str(*v) + " " + c
    if p.get("comment") is not None:
        s += " ;" + (" " + p["comment"] if p["comment"] != "" else "")
    return s


def print_txn(t, indent=" ", meta_order="ult"):
    h = t["ts"]
    if t.get("code") is not None:
        h += " (" + t["code"] + ")"
    if t.get("desc") is not None:
        h += " '" + t["desc"]
    lines = [h]
    for k in meta_order:
        if k == "u" and t.get("uuid"):
            lines.append(indent + "# uuid: " + t["uuid"])
        if k == "l" and t.get("loc"):
            lat, lon, alt = t["loc"]
            lines.append(indent + "# location: geo:" + lat + "," + lon + ("," + alt if alt else ""))
        if k == "t" and t.get("tags"):
            lines.append(indent + "# tags: " + ", ".join(t["tags"]))
    for c in t.get("comments") or []:
        lines.append(indent + ";" + (" " + c if c != "" else ""))
    for p in t["posts"]:
        lines.append(print_posting(p, indent))
    if t.get("last"):
        l = indent + t["last"]["acc"]
        if t["last"].get("comment") is not None:
            l += " ; " + t["last"]["comment"]
        lines.append(l)
    return "\n".join(lines) + "\n"


def print_journal(ts, indent=" ", meta_order="ult", sep="\n"):
    """sep: the blank line(s) between transactions (each must end in a newline)"""
    return sep.join(print_txn(t, indent, meta_order) for t in ts)


BASE_TOML = """[kernel]
strict = %(strict)s
audit = { mode = %(audit)s, hash = "%(hash)s" }
timestamp = { default-time = %(deftime)s, timezone = { %(tz)s } }
input = { storage = "fs", fs = { dir = "txns", suffix = "txn" } }
[transaction]
accounts    = { path = "%(accounts)s" }
commodities = { path = "%(commodities)s" }
tags        = { path = "%(tags)s" }
%(price)s
[report]
report-timezone = "%(rtz)s"
scale = { min = %(smin)d, max = %(smax)d }
%(rcomm)s
%(raccounts)s
targets = [ %(targets)s ]
balance       = { title = "BAL"%(bal_acc)s }
balance-group = { title = "BALGRP", group-by = "%(group_by)s"%(balgrp_acc)s }
register      = { title = "REG"%(reg_acc)s%(reg_ts)s }
[export]
targets = [ %(exports)s ]
equity = { equity-account = "%(eqa)s"%(eq_acc)s }
"""


def toml_list(l):
    return "[" + ", ".join('"%s"' % x.replace("\\", "\\\\").replace('"', '\\"') for x in l) + "]"


def make_toml(**kw):
    d = dict(strict="false", audit="false", hash="SHA-256", deftime="00:00:00", tz='name = "UTC"',
             accounts="none", commodities="none", tags="none", price="", rtz="UTC", smin=0, smax=28,
             rcomm="", raccounts="", targets='"balance", "register"', bal_acc="", balgrp_acc="", reg_acc="",
             reg_ts="", group_by="date", exports="", eqa="Equity:Balance", eq_acc="")
    d.update(kw)
    return BASE_TOML % d


def scale_for(text):
    """a report scale (min, max) derived from the case text: the structured figures of every
    report must not depend on this display setting"""
    return [(0, 28), (2, 7), (2, 2), (0, 0), (0, 3)][sum(map(ord, text)) % 5]
