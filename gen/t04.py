# T04 (extension, not a numbered property) — the metadata TEXT block that precedes every report is the text of
# the model coq/model/MetaText.v, byte for byte, and (coq/props/T04.v) that text can be read back item by item,
# carries the C09 checksum of exactly the selected set, and has the checksum / filter / git items exactly in
# audit mode / with a filter / with git input, in the code's order.  ./check T04 runs the proof audit of
# coq/props/T04.v and the text stage standalone (gen/t04_text.py: run_text_stage); the C09 and C05 checks run
# the same stage on every run.
import json
from common import *
import t04_text as T


def main(run):
    info = proof_stage(run, "T04", extra_targets=["corr/T04_corr.vo"])
    harness_build()
    st = T.run_text_stage(run)
    run.cov["evaluations"] += sum(st["compared"].values())
    run.cov["distinct_nontrivial"] = st["distinct_texts"]
    if "sample" in st:
        run.cov["samples"].append(st.pop("sample"))
    run.cov["rule"] = T.RULE
    return run.finish(info)


def replay(run, path):
    """also the replay of the T04 stage inside C09 / C05 (run.prop is the host then): common.replay_begin"""
    j, rp = replay_load(path)
    if "theorem_file" in rp and "case" not in rp:
        return replay_theorem(run, path, j, rp)
    print(j.get("what"))
    c = rp.get("case")
    if not (isinstance(c, dict) and all(k in c for k in ('journal', 'audit', 'sel'))):
        return replay_print(j)
    print(json.dumps({k: c.get(k) for k in ("audit", "hash", "rtz", "price", "filter", "sel", "git")}, indent=1, ensure_ascii=False))
    print("journal:\n%s" % c["journal"])
    if rp.get("first_differing_character") is not None:
        print("compared: %s, first differing character: %s\nimplementation: %r\nmodel:          %r"
              % (rp.get("compared"), rp.get("first_differing_character"), rp.get("implementation_around"), rp.get("model_around")))
    harness_build()
    c = dict(c)
    c["idx"] = 0
    c.setdefault("tags", ["replay"])
    if c.get("git"):
        c["git"] = {k: c["git"][k] for k in ("message", "second", "selector", "dir", "ext")}
    st = T.new_stats()
    T.check_cases(run, [c], st)
    print("metadata text of the implementation now:\n%s" % c.get("impl_md"))
    for what, rep, found in run.violations:
        if rep.get("model_text") is not None:
            print("implementation text now:\n%s\nmodel text now:\n%s" % (rep.get("implementation_text"), rep.get("model_text")))
    return replay_verdict(run, path, j, "T04 stage: metadata texts equal the model's and the reading oracle is clean now (compared=%s, stages=%s)"
                          % (st["compared"], st["stages"]))
