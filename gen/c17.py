# C17 — report figures round half-away-from-zero to the configured scale, display only
import json, os, re
from common import *
import journal as J

IMPORTS = ("From Coq Require Import QArith.\nFrom TkModel Require Import Base Dec Acct Balance Round.\n"
           "From TkSpec Require Import Balance_spec Round_spec.\nFrom TkCorr Require Import C17_corr.\n"
           "Local Open Scope Z_scope.\n")

SCALES = [(0, 0), (2, 2), (2, 7), (0, 28), (28, 28), (0, 3)]
MAXM = 2 ** 96 - 1
NUM_RE = re.compile(r"^-?[0-9]+(\.[0-9]+)?$")


def esc_re(s):
    out = ""
    for ch in s:
        out += ("\\" + ch) if ch in r"\.+*?()|[]{}^$-" else ch
    return out


def jdec(m, s):
    return {"n": m < 0, "m": str(abs(m)), "s": s}


def needed(m, s):
    while s > 0 and m % 10 == 0:
        m //= 10
        s -= 1
    return s


def is_neg_zero(j):
    return isinstance(j, dict) and bool(j["n"]) and int(j["m"]) == 0


class Unexpected(Exception):
    """the price conversion applied by the implementation is not the one the case was built for
    (C07's subject): the case is skipped, never reported"""


TARGET_COMM = "EUR"


def converted(c, comm, amount):
    """(commodity, exact amount as (mantissa, scale)) of a posting under the price conversion of the case:
    amount x rate computed exactly here, independently of the implementation's engine"""
    m, s = dec_parts(amount)
    rates = c.get("rates") or {}
    if comm and comm != TARGET_COMM and comm in rates:
        rm, rs = rates[comm]
        return TARGET_COMM, (m * rm, s + rs)
    return comm, (m, s)


# ------------------------------------------------------------------ value level
def val_cases(run, n):
    r = run.rng
    out = []

    def add(m, s, k, tag):
        if abs(m) <= MAXM and 0 <= s <= 28 and 0 <= k <= 28:
            out.append({"kind": "val", "m": m, "s": s, "k": k, "tag": tag})

    # exact midpoints at every position, both signs, even and odd digit before, +-1 ulp
    for s in range(1, 29):
        for k in sorted(set([0, s - 1, r.randrange(0, s), r.randrange(0, s)])):
            diff = s - k
            room = max(1, min(10 ** 9, MAXM // 10 ** diff - 1))
            q = r.choice([0, 1, 2, 9, 99, r.randint(0, room)])
            q = min(q, room)
            mid = q * 10 ** diff + 5 * 10 ** (diff - 1)
            for sg in (1, -1):
                add(sg * mid, s, k, "midpoint")
            d = r.choice([1, -1])
            add(r.choice([1, -1]) * (mid + d), s, k, "midpoint%+d" % d)
    for i in range(n):
        s = r.randint(0, 28)
        k = r.randint(0, 28)
        c = r.random()
        sg = r.choice([1, -1])
        if c < 0.15:      # stored scale larger than needed (trailing zeros), k around the needed scale
            j = r.randint(0, s)
            m = r.randint(1, max(1, min(10 ** 12, MAXM // 10 ** j))) * 10 ** j
            k = max(0, min(28, needed(m, s) + r.choice([-2, -1, 0, 0, 1, 2])))
            add(sg * m, s, k, "trailing-zeros")
        elif c < 0.3 and s > 0:    # negative (and positive) values that round to zero, or just not
            k = r.randrange(0, s)
            cap = 5 * 10 ** (s - k - 1)
            m = r.choice([1, cap - 1, cap, cap + 1, r.randint(1, max(1, cap - 1))])
            add(sg * m, s, k, "near-zero")
        elif c < 0.45 and s > 0:   # carry chains 9.99..95
            k = r.randrange(0, s)
            nd = r.randint(1, 28 - (s - k))
            m = int("9" * nd) * 10 ** (s - k) + r.choice([4, 5, 6]) * 10 ** (s - k - 1) + (r.randint(0, 10 ** (s - k - 1) - 1) if r.random() < 0.5 else 0)
            add(sg * m, s, k, "carry")
        elif c < 0.6:     # 96-bit mantissas (mostly where the text still fits the library's buffer)
            m = r.choice([MAXM, MAXM - 1, 2 ** 95, r.randint(2 ** 64, MAXM), r.randint(2 ** 90, MAXM)])
            if r.random() < 0.8:
                k = r.randint(0, min(28, s + 2))
            add(sg * m, s, k, "96bit")
        elif c < 0.64:    # around the 32-character capacity of Display (finding F18): digits + 1 + k = 31..34
            k = r.randint(4, 28)
            nd = max(1, min(29, 32 - k + r.choice([-2, -1, -1, 0, 0, 1])))
            s = r.randint(0, min(3, 29 - nd))
            m = r.randint(10 ** (nd - 1), 10 ** nd - 1) * 10 ** s + r.randint(0, 10 ** s - 1)
            add(sg * m, s, k, "capacity")
        elif c < 0.67:
            add(0, s, k, "zero")
        elif c < 0.8:     # powers of ten and neighbours
            e = r.randint(0, 28)
            add(sg * (10 ** e + r.choice([-1, 0, 1])), s, k, "pow10")
        else:
            m = r.randint(0, 10 ** r.randint(1, 28))
            add(sg * m, s, k, "random")
    return out


def run_val(run, cases, st):
    reqs = []
    for c in cases:
        a = jdec(c["m"], c["s"])
        reqs.append({"kind": "dec", "op": "round_hafz", "a": a, "k": c["k"]})
        reqs.append({"kind": "dec", "op": "fmt_prec", "a": a, "k": c["k"]})
        reqs.append({"kind": "dec", "op": "fmt", "a": a})
    res = harness_run(reqs)
    def text_of(x):
        """Display result: the text, None when the library panicked; raises when neither"""
        if x and x.get("stage") == "done" and isinstance(x.get("ok"), str):
            return x["ok"]
        if x and x.get("stage") == "panic":
            return None
        raise Infra("unexpected harness answer for a decimal operation: %r" % (x,))

    reqs2, keep = [], []
    for i, c in enumerate(cases):
        rr, tt, tp = res[3 * i], res[3 * i + 1], res[3 * i + 2]
        if not (rr and rr.get("stage") == "done" and isinstance(rr.get("ok"), dict)):
            raise Infra("round_dp_with_strategy did not answer: %r" % (rr,))
        c["r"], c["t_trunc"], c["t_plain"] = rr["ok"], text_of(tt), text_of(tp)
        if c["t_plain"] is None:
            raise Infra("Decimal::to_string panicked: %r" % (c,))
        reqs2.append({"kind": "dec", "op": "fmt_prec", "a": c["r"], "k": c["k"]})
        reqs2.append({"kind": "dec", "op": "fmt", "a": c["r"]})
        keep.append(c)
    res2 = harness_run(reqs2)
    terms, out = [], []
    for i, c in enumerate(keep):
        if is_neg_zero(c["r"]):
            st["val_skipped"] += 1
            continue
        c["t_round"] = text_of(res2[2 * i])          # the library's Display with a precision (may panic: > 32 characters)
        c["t_rplain"] = text_of(res2[2 * i + 1])     # to_string of the rounded value: what Scale::format starts from
        if c["t_rplain"] is None:
            raise Infra("Decimal::to_string panicked: %r" % (c,))
        terms.append("c17_val_case %s %s %s %s %s %s %s" % (g_dec((c["m"], c["s"])), g_N(c["k"]), g_dec(c["r"]),
                                                          g_str(c["t_plain"]), g_str(c["t_rplain"]),
                                                          g_opt(c["t_trunc"], g_str), g_opt(c["t_round"], g_str)))
        out.append(c)
    return out, terms


def judge_val(run, c, bits, st, distinct):
    run.cov["evaluations"] += 1
    st["val_tags"][c["tag"]] = st["val_tags"].get(c["tag"], 0) + 1
    impl = {"round_dp_with_strategy": c["r"], "rounded_to_string": c["t_rplain"], "rounded_display_with_precision": c["t_round"],
            "display_with_precision": c["t_trunc"], "to_string": c["t_plain"]}
    if needed(abs(c["m"]), c["s"]) > c["k"]:
        distinct.add(("v", c["t_rplain"], c["k"]))
    if c["t_round"] is None:
        st["library_display_panics"] += 1    # expected exactly when the model says so (bit 1); not tackler code any more
    if len([s for s in run.cov["samples"] if s.get("level") == "value"]) < 2:
        run.cov["samples"].append({"level": "value", "decimal": J.dec_str(c["m"], c["s"]), "k": c["k"], "implementation": impl, "bits": bits})
    if not (bits & 4):
        st["val_outside"] += 1
        return
    rep = {"case": {"kind": "val", "m": str(c["m"]), "s": c["s"], "k": c["k"]}, "decimal": J.dec_str(c["m"], c["s"]),
           "decimals": c["k"], "implementation_output": impl,
           "replay_hint": "Decimal(%s).round_dp_with_strategy(%d, MidpointAwayFromZero) then format!(\"{:.%d}\")" % (J.dec_str(c["m"], c["s"]), c["k"], c["k"])}
    if not (bits & 2):
        run.violation("rust_decimal rounding / formatting contradicts round-half-away-from-zero on this decimal", rep)
    elif not (bits & 1):
        run.cov["disagreements_checked"] += 1
        rep["correspondence"] = "C17_corr.c17_val_case"
        run.violation("correspondence broken: model Round.dround_hafz/dfmt_prec differs from rust_decimal (spec oracle clean)", rep, found_input=False)


# ------------------------------------------------------------------ report level
def amount_gen(r, smin, smax, overflow=False):
    S = min(28, smax + 4)
    lim = 10 ** max(0, 26 - S)          # bound of the integer part: every sum stays inside 96 bits

    def clamp(ms):
        m, s = ms
        a = abs(m) % (lim * 10 ** s)
        if a == 0:
            a = 1
        return (a if m > 0 else -a, s)

    def f():
        if overflow and r.random() < 0.5:   # integer digits + 1 + min > 32 (regression: finding F18, fixed)
            nd = min(26, 32 - smin + r.randint(0, 2))
            s = r.randint(0, min(2, smin - 1))
            return (r.choice([1, -1]) * r.randint(10 ** (nd - 1), 10 ** nd - 1), s)
        if overflow:
            return (r.choice([1, -1]) * r.randint(1, 5000), r.randint(0, 2))
        return clamp(g())

    def g():
        sg = r.choice([1, -1])
        c = r.random()
        if c < 0.25 and smax < 28:          # exact midpoint at the last shown decimal (even / odd digit before)
            return (sg * (r.randint(0, 10 ** r.choice([1, 2, 5])) * 10 + 5), smax + 1)
        if c < 0.33 and smax < 27:          # half of a midpoint: two of them add up to one
            return (sg * (r.randint(0, 999) * 100 + r.choice([25, 75])), smax + 2)
        if c < 0.48 and smax < 28:          # more decimals than max
            s = min(28, smax + r.randint(1, 4))
            return (sg * r.randint(1, 10 ** r.randint(1, 8)), s)
        if c < 0.56 and smax < 28:          # rounds to zero / to one unit
            s = min(28, smax + r.randint(1, 3))
            return (sg * r.choice([1, 4, 5, 6]) * 10 ** (s - smax - 1), s)
        if c < 0.70:                        # stored scale larger than needed
            j = r.randint(1, 4)
            s0 = r.randint(0, max(0, min(24, smax + 1)))
            return (sg * r.randint(1, 10 ** 5) * 10 ** j, s0 + j)
        if c < 0.82:                        # fewer decimals than min
            return (sg * r.randint(1, 5000), r.randint(0, min(smin, 3)))
        if c < 0.90:                        # carries
            s = min(28, smax + 1)
            return (sg * (int("9" * r.randint(1, 6)) * 10 + r.choice([4, 5])), s)
        return (sg * r.randint(1, 10 ** 6), r.randint(0, 6))
    return f


def rep_cases(run, n):
    r = run.rng
    out = []
    for i in range(n):
        smin, smax = SCALES[i % len(SCALES)] if r.random() < 0.85 else (lambda a, b: (min(a, b), max(a, b)))(r.randint(0, 28), r.randint(0, 28))
        over = r.random() < 0.06
        if over:                            # a small stream of figures longer than 32 characters (F18, fixed)
            smin = r.randint(8, 28)
            smax = r.randint(smin, 28)
        g = J.Gen(r, max_depth=3, n_accounts=r.randint(2, 6), comms=r.sample(["", "EUR", "He·bar", "€"], r.randint(1, 2)))
        g.amount = amount_gen(r, smin, smax, overflow=over)
        ts = g.journal(r.randint(1, 2) if over else r.randint(1, 5), prices=False, meta=False, implicit_p=0.3)
        if not over and r.random() < 0.15:
            out.append(price_case(r))
            continue
        sel = []
        if r.random() < 0.4:                # listed accounts only: the deltas are then not zero
            sel = r.sample(g.accounts, min(len(g.accounts), r.randint(1, 3)))
        out.append({"kind": "rep", "smin": smin, "smax": smax, "text": J.print_journal(ts), "sel": sel,
                    "tag": "overflow" if over else "gen"})
    return out


def price_case(r):
    """report commodity + price db: converted amounts are products with long tails; narrow scales;
    several postings to the same account in one commodity"""
    smin, smax = r.choice([(2, 2), (0, 0), (2, 7), (2, 2)])
    lt = r.choice(["last-price", "txn-time"])
    foreign = r.sample(["XAU", "USD", "ACME"], r.randint(1, 2))
    rates = {}
    for f in foreign:
        if r.random() < 0.85:               # a commodity without a price stays unconverted
            sc = r.randint(3, 6)
            rates[f] = [r.choice([333, 3333, 125, 1005, 66667, r.randint(1, 10 ** r.randint(3, 6))]), sc]
    if not rates:
        rates[foreign[0]] = [333, 3]
    pricedb = "".join("P 2000-01-01 %s %s %s\n" % (f, J.dec_str(m, sc), TARGET_COMM) for f, (m, sc) in sorted(rates.items()))
    g = J.Gen(r, max_depth=2, n_accounts=r.randint(2, 3), comms=foreign + r.sample([TARGET_COMM, ""], r.randint(0, 2)))

    def amount():
        k = r.random()
        sg = r.choice([1, -1])
        if k < 0.4:
            return (sg * r.choice([5, 25, 15, 1, 3, 7]), r.choice([0, 1, 1, 2]))
        if k < 0.7:
            return (sg * r.randint(1, 5000), r.randint(0, 3))
        return (sg * r.randint(1, 10 ** 6), r.randint(0, 5))
    g.amount = amount
    ts = g.journal(r.randint(3, 7), prices=False, meta=False, implicit_p=0.3)
    sel = r.sample(g.accounts, 1) if r.random() < 0.25 else []
    return {"kind": "rep", "smin": smin, "smax": smax, "text": J.print_journal(ts), "sel": sel, "tag": "prices",
            "pricedb": pricedb, "lt": lt, "rates": rates}


class ParseError(Exception):
    pass


def find_title(lines, title):
    for i in range(len(lines) - 1):
        if lines[i] == title and lines[i + 1] == "-" * len(title):
            return i + 2
    raise ParseError("title %r not found" % title)


def parse_balance_block(lines, pos, bal, figs, sums, selected=False):
    """rows `<own> <tree> [comm] account`, a ===== line, then `<delta> [comm]`; appends figures"""
    rows = bal["rows"]
    if not rows:
        return pos
    for row in rows:
        tok = lines[pos].split()
        pos += 1
        want = 4 if row["comm"] else 3
        if len(tok) != want or tok[-1] != row["acc"] or (row["comm"] and tok[2] != row["comm"]):
            raise ParseError("balance row %r does not match %s / %s" % (lines[pos - 1], row["acc"], row["comm"]))
        figs.append((row["own"], tok[0], False, "own sum of %s %s" % (row["acc"], row["comm"])))
        figs.append((row["tree"], tok[1], False, "tree sum of %s %s" % (row["acc"], row["comm"])))
        if not selected:        # every account is listed: the tree sum is the sum of the listed own sums below
            parts = [x["own"] for x in rows if x["comm"] == row["comm"] and (x["acc"] == row["acc"] or x["acc"].startswith(row["acc"] + ":"))]
            sums.append((row["tree"], parts))
    if not re.match(r"^=+$", lines[pos]):
        raise ParseError("ruler expected: %r" % lines[pos])
    pos += 1
    for d in bal["deltas"]:
        tok = lines[pos].split()
        pos += 1
        if len(tok) != (2 if d["comm"] else 1) or (d["comm"] and tok[1] != d["comm"]):
            raise ParseError("delta line %r does not match %r" % (lines[pos - 1], d["comm"]))
        figs.append((d["delta"], tok[0], False, "delta of %r" % d["comm"]))
        sums.append((d["delta"], [x["own"] for x in rows if x["comm"] == d["comm"]]))
    return pos


def parse_balance(text, bal, txns, selected=False, c=None):
    lines = text.split("\n")
    figs, sums = [], []
    pos = find_title(lines, "BAL")
    parse_balance_block(lines, pos, bal, figs, sums, selected)
    # own sums are the sums of the unrounded posting amounts
    # (under a price conversion: of the exactly converted amounts, amount x rate)
    posts = [(p["acc"],) + converted(c or {}, p["comm"], p["amount"]) for t in txns for p in t["posts"]]
    for row in bal["rows"]:
        sums.append((row["own"], [a for (acc, comm, a) in posts if acc == row["acc"] and comm == row["comm"]]))
    return figs, sums


def parse_balgrp(text, groups, selected=False):
    lines = text.split("\n")
    figs, sums = [], []
    pos = find_title(lines, "BALGRP")
    for g in groups:
        if lines[pos] != g["title"] or lines[pos + 1] != "-" * len(g["title"]):
            raise ParseError("group title %r expected, found %r" % (g["title"], lines[pos]))
        pos = parse_balance_block(lines, pos + 2, g, figs, sums, selected)
    return figs, sums


def parse_register(text, entries, c=None):
    lines = text.split("\n")
    figs, sums = [], []
    pos = find_title(lines, "REG")
    indent = " " * 12
    seen = []
    for e in entries:
        if not e["rows"]:
            continue
        if lines[pos].startswith(" ") or not lines[pos]:
            raise ParseError("register header expected: %r" % lines[pos])
        pos += 1
        for row in e["rows"]:
            line = lines[pos]
            pos += 1
            pre = indent + row["acc"]
            if not line.startswith(pre):
                raise ParseError("register row %r does not start with %r" % (line, pre))
            tok = line[len(pre):].split()
            # <amount> [<commodity> [@ <rate>]] <running total> [<target commodity>]
            if row["target"]:
                if len(tok) < 3 or tok[-1] != row["target"]:
                    raise ParseError("register row %r: target commodity %r expected" % (line, row["target"]))
                mid, total_txt = tok[1:-2], tok[-2]
            else:
                if len(tok) < 2:
                    raise ParseError("register row %r: unexpected columns" % line)
                mid, total_txt = tok[1:-1], tok[-1]
            if not (mid == [] or mid == [row["comm"]] or (len(mid) == 3 and mid[0] == row["comm"] and mid[1] == "@")):
                raise ParseError("register row %r: unexpected columns %r" % (line, mid))
            tcomm, part = converted(c or {}, row["comm"], row["amount"])
            if tcomm != row["target"]:
                raise Unexpected("posting in %r reported in %r, expected %r" % (row["comm"], row["target"], tcomm))
            if row.get("rate") is not None and tcomm != row["comm"]:
                rm, rs = dec_parts(row["rate"])
                em, es = c["rates"][row["comm"]]
                if rm * 10 ** es != em * 10 ** rs:
                    raise Unexpected("rate %r used for %r" % (row["rate"], row["comm"]))
            row["_part"] = part
            seen.append(row)
            figs.append((row["amount"], tok[0], False, "amount of %s" % row["acc"]))
            figs.append((row["total"], total_txt, False, "running total of %s %s" % (row["acc"], row["target"])))
            # the running total is the exact sum of the unrounded (converted) amounts so far
            sums.append((row["total"], [x["_part"] for x in seen if x["acc"] == row["acc"] and x["target"] == row["target"]]))
        if not re.match(r"^-+$", lines[pos]):
            raise ParseError("register ruler expected: %r" % lines[pos])
        pos += 1
    return figs, sums


def rep_requests(cases):
    reqs = []
    for c in cases:
        ras = [esc_re(a) for a in c.get("sel") or []]
        acc = (", accounts = " + J.toml_list(ras)) if ras else ""
        conf = {}
        kw = {}
        if c.get("pricedb"):
            kw = {"price": '[price]\ndb-path = "prices.db"\nlookup-type = "%s"' % c["lt"], "rcomm": 'commodity = "%s"' % TARGET_COMM}
            conf["pricedb"] = c["pricedb"]
        conf["toml"] = J.make_toml(smin=c["smin"], smax=c["smax"], bal_acc=acc, balgrp_acc=acc, **kw)
        reqs.append({"conf": conf, "inputs": [{"text": c["text"]}],
                     "ops": [{"op": "txns"}, {"op": "balance", "ras": ras}, {"op": "text_balance"}, {"op": "balgrp", "ras": ras}, {"op": "text_balgrp"},
                             {"op": "register"}, {"op": "text_register"}, {"op": "pricectx"}]})
    return reqs


def g_fig(f):
    return "(mkFig %s %s)" % (g_dec(f[0]), g_str(f[1]))


def g_sums(sums):
    return g_list(["(%s, %s)" % (g_dec(t), g_list([g_dec(p) for p in ps])) for t, ps in sums])


def run_rep(run, cases, st):
    res = harness_run(rep_requests(cases))
    terms, out = [], []
    for c, rr in zip(cases, res):
        stg = rr.get("stage") if rr else "none"
        st["stages"][stg] = st["stages"].get(stg, 0) + 1
        if stg != "done":
            continue
        rs = rr["results"]
        names = ["txns", "balance", "text_balance", "balgrp", "text_balgrp", "register", "text_register", "pricectx"]
        pan = [names[i] for i in range(len(rs)) if rs[i].get("panic")]
        if pan:
            st["rep_panics"] += 1
            run.violation("report operation panics: %s" % ", ".join(pan),
                          {"case": c, "scale": {"min": c["smin"], "max": c["smax"]}, "journal": c["text"], "listed_accounts": c.get("sel") or "all",
                           "implementation_output": "panic in " + ", ".join(pan),
                           "replay_hint": "tackler --config <toml with report.scale = {min=%d,max=%d}> --input.file <journal> --reports balance balance-group register" % (c["smin"], c["smax"])})
            continue
        if not all("ok" in x for x in rs):
            st["rep_op_failed"] += 1
            continue
        txns, bal, tbal, grp, tgrp, reg, treg, pctx = [x["ok"] for x in rs]
        try:
            sel = bool(c.get("sel"))
            if c.get("pricedb") and c["lt"] == "last-price":
                # the fixed rates the implementation reports must be the ones of the price db of the case
                for rec in pctx:
                    exp = (c.get("rates") or {}).get(rec["source"])
                    if rec.get("rate") is None or exp is None or rec["target"] != TARGET_COMM:
                        raise Unexpected("price record %r" % (rec,))
                    txt = rec["rate"].split()[0]
                    if not NUM_RE.match(txt):
                        raise Unexpected("price record %r" % (rec,))
                    digits = txt.replace("-", "").replace(".", "")
                    rs_ = len(txt.split(".")[1]) if "." in txt else 0
                    if int(digits) * 10 ** exp[1] != exp[0] * 10 ** rs_:
                        raise Unexpected("price record %r" % (rec,))
            parts = [("balance", tbal) + parse_balance(tbal, bal, txns, sel, c),
                     ("balance-group", tgrp) + parse_balgrp(tgrp, grp, sel),
                     ("register", treg) + parse_register(treg, reg, c)]
        except Unexpected as e:
            st["conversion_unexpected"] += 1
            st["conversion_unexpected_example"] = str(e)
            continue
        except (ParseError, IndexError) as e:
            raise Infra("C17 report text parser does not understand the report (check the parser, not the code): %s" % e)
        for name, text, figs, sums in parts:
            if not figs:
                continue
            if any(is_neg_zero(f[0]) for f in figs) or any(is_neg_zero(t) or any(is_neg_zero(p) for p in ps) for t, ps in sums):
                st["neg_zero_skipped"] += 1      # sign of zero is outside the model (Dec.v)
                continue
            if any(not NUM_RE.match(f[1]) for f in figs):
                bad = [f for f in figs if not NUM_RE.match(f[1])][0]
                run.violation("report prints something that is not a plain decimal number for %s" % bad[3],
                              {"case": c, "report": name, "text": text, "token": bad[1]})
                continue
            terms.append("c17_rep_case (mkScale %s %s) %s %s" % (g_N(c["smin"]), g_N(c["smax"]), g_list([g_fig(f) for f in figs]), g_sums(sums)))
            if c.get("pricedb"):
                st["price_reports"] += 1
                st["converted_parts"] += sum(1 for t, ps in sums for p_ in ps if isinstance(p_, tuple) and p_[1] > 6)
            out.append({"case": c, "report": name, "text": text, "figs": figs, "sums": sums})
    return out, terms


def judge_rep(run, o, val, st, distinct):
    run.cov["evaluations"] += 1
    c = o["case"]
    bits, bad = val & 7, val >> 3
    smax = c["smax"]
    st["figures"] += len(o["figs"])
    nrounded = 0
    for f in o["figs"]:
        m, s = dec_parts(f[0])
        if needed(abs(m), s) > smax:
            nrounded += 1
            st["figures_rounded"] += 1
            h = abs(m) % 10 ** (s - smax)
            if 2 * h == 10 ** (s - smax):
                st["figures_midpoint"] += 1
        if len(f[1].lstrip("-")) > 32:
            st["long_figures"] += 1
        if m < 0 and set(f[1]) <= set("0."):
            st["negative_shown_as_zero"] += 1
    key = "%d,%d" % (c["smin"], c["smax"])
    st["scales"][key] = st["scales"].get(key, 0) + 1
    if o["report"] != "register":
        st["nonzero_deltas"] += sum(1 for f in o["figs"] if f[3].startswith("delta") and int(f[0]["m"]) != 0)
    if nrounded:
        distinct.add(("r", o["report"], key, tuple(f[1] for f in o["figs"])))
    if len([s for s in run.cov["samples"] if s.get("level") == "report"]) < 3 and nrounded:
        run.cov["samples"].append({"level": "report", "scale": key, "report": o["report"], "journal": c["text"], "text": o["text"], "bits": bits})
    if not (bits & 4):
        st["rep_outside"] += 1
        return
    figure = None
    if bad:
        f = o["figs"][bad - 1]
        figure = {"what": f[3], "exact": J.dec_str(*dec_parts(f[0])), "stored_scale": f[0]["s"], "printed": f[1]}
    bad_sum = None
    if not bad and not (bits & 2):
        # every text is right for its structured figure: then a structured total is not the sum of its unrounded parts
        from fractions import Fraction
        val = lambda d: (lambda m, s: Fraction(m, 10 ** s))(*(dec_parts(d) if isinstance(d, dict) else d))
        for t, ps in o["sums"]:
            if val(t) != sum((val(p_) for p_ in ps), Fraction(0)):
                bad_sum = {"total_in_report_data": J.dec_str(*dec_parts(t)),
                           "unrounded_parts": [J.dec_str(*(dec_parts(p_) if isinstance(p_, dict) else p_)) for p_ in ps],
                           "exact_sum_of_parts": str(sum((val(p_) for p_ in ps), Fraction(0)))}
                break
    rep = {"case": c, "scale": {"min": c["smin"], "max": c["smax"]}, "report": o["report"], "journal": c["text"],
           "listed_accounts": c.get("sel") or "all", "first_bad_figure": figure, "total_not_sum_of_unrounded_parts": bad_sum,
           "price_db": c.get("pricedb"), "config": ({"price.lookup-type": c["lt"], "report.commodity": TARGET_COMM} if c.get("pricedb") else None), "implementation_output": o["text"],
           "replay_hint": "tackler --config <toml with report.scale = {min=%d,max=%d}> --input.file <journal> --reports %s" % (c["smin"], c["smax"], o["report"])}
    if not (bits & 2):
        run.violation("%s report shows a figure that is not the exact figure rounded half-away-from-zero to the configured scale "
                      "(or a total that is not the sum of its unrounded parts)" % o["report"], rep)
    elif not (bits & 1):
        run.cov["disagreements_checked"] += 1
        rep["correspondence"] = "C17_corr.c17_rep_case"
        run.violation("correspondence broken: model Round.shown_text differs from the %s report text (spec oracle clean)" % o["report"], rep, found_input=False)


# ------------------------------------------------------------------ driver
def load_corpus():
    out = []
    cdir = os.path.join(VERIF, "corpus", "C17")
    if os.path.isdir(cdir):
        for f in sorted(os.listdir(cdir)):
            if f.endswith(".json"):
                for c in json.load(open(os.path.join(cdir, f))):
                    c["tag"] = "corpus/" + f
                    if c["kind"] == "val":
                        c["m"] = int(c["m"])
                    out.append(c)
    return out


def check_cases(run, vcases, rcases):
    st = {"val_skipped": 0, "val_outside": 0, "val_tags": {}, "stages": {}, "rep_op_failed": 0, "neg_zero_skipped": 0,
          "rep_outside": 0, "conversion_unexpected": 0, "price_reports": 0, "converted_parts": 0, "library_display_panics": 0, "rep_panics": 0, "long_figures": 0, "nonzero_deltas": 0, "figures": 0, "figures_rounded": 0, "figures_midpoint": 0, "negative_shown_as_zero": 0, "scales": {}}
    vout, vterms = run_val(run, vcases, st)
    rout, rterms = run_rep(run, rcases, st)
    vals, errs = coq_eval("C17", IMPORTS, vterms + rterms)
    if errs:
        raise Infra("coq evaluation failed: " + errs[0])
    distinct = set()
    for c, v in zip(vout, vals[:len(vout)]):
        b = as_N(v)
        if b is None:
            raise Infra("no result for value case %r" % c)
        judge_val(run, c, b, st, distinct)
    for o, v in zip(rout, vals[len(vout):]):
        b = as_N(v)
        if b is None:
            raise Infra("no result for report case")
        judge_rep(run, o, b, st, distinct)
    return st, distinct


def main(run):
    info = proof_stage(run, "C17", extra_targets=["corr/C17_corr.vo"])
    harness_build()
    quick = run.tier == "quick"
    corpus = load_corpus()
    vcases = [c for c in corpus if c["kind"] == "val"] + val_cases(run, 250 if quick else 4000)
    rcases = [c for c in corpus if c["kind"] == "rep"] + rep_cases(run, 72 if quick else 900)
    st, distinct = check_cases(run, vcases, rcases)
    run.cov["distinct_nontrivial"] = len(distinct)
    run.cov["rule"] = ("value level: decimals (mantissa up to 96 bits, scale 0..28, both signs; exact midpoints at every position and their "
                       "neighbours, trailing zeros, values rounding to zero, carry chains, powers of ten) x decimals 0..28 through "
                       "round_dp_with_strategy(MidpointAwayFromZero) + to_string (+ the library's Display with a precision, panics included); report level: seeded journals (1-5 txns, 1-2 commodities, amounts built "
                       "relative to the configured scale: midpoints, half-midpoints that add up, more decimals than max, fewer than min, stored scale > needed, "
                       "negatives rounding to zero; 40% with listed accounts so that deltas are not zero; 15% with report commodity + price db "
                       "(last-price / txn-time, rates with 3-6 decimals, scales (2,2),(0,0),(2,7)): every own sum and running total is recomputed here as the exact sum of "
                       "amount x rate and compared with the structured figure and its text) rendered as balance, balance-group and register text under scale (min,max) in "
                       "{(0,0),(2,2),(2,7),(0,28),(28,28),(0,3)} + random + a stream of figures longer than 32 characters (regression F18); every amount column parsed and compared with the model and the oracle; "
                       "non-trivial = the figure needs more decimals than shown; distinct = distinct printed outputs among those")
    run.notes.update({"value_cases_by_kind": st["val_tags"], "value_cases_skipped": st["val_skipped"], "value_cases_outside_domain": st["val_outside"],
                      "report_stages": st["stages"], "reports_by_scale": st["scales"], "report_figures": st["figures"],
                      "report_figures_rounded": st["figures_rounded"], "report_figures_exact_midpoint": st["figures_midpoint"],
                      "negative_figures_shown_as_zero": st["negative_shown_as_zero"], "nonzero_delta_figures": st["nonzero_deltas"], "reports_skipped_negative_zero_figure": st["neg_zero_skipped"],
                      "reports_outside_domain": st["rep_outside"], "report_ops_failed": st["rep_op_failed"],
                      "reports_with_price_conversion": st["price_reports"], "conversion_not_as_expected_skipped": st["conversion_unexpected"],
                      "report_panics": st["rep_panics"], "report_figures_longer_than_32_chars": st["long_figures"],
                      "library_display_with_precision_panics_as_modelled": st["library_display_panics"]})
    return run.finish(info)


def replay(run, path):
    """the stored value case / report case through check_cases (harness + c17_val_case / c17_rep_case)"""
    j, rp, rc = replay_begin(run, path)
    if rc is not None:
        return rc
    c = rp.get("case")
    if not (isinstance(c, dict) and c.get("kind") in ("val", "rep")):
        return replay_print(j)
    print(j.get("what"))
    print(json.dumps(c, indent=1, ensure_ascii=False)[:4000])
    harness_build()
    if c["kind"] == "val":
        c["m"] = int(c["m"])
    c.setdefault("tag", "replay")
    corr_build("C17")
    st, _ = check_cases(run, [c] if c["kind"] == "val" else [], [c] if c["kind"] == "rep" else [])
    only = None
    if c["kind"] == "rep" and rp.get("report"):
        only = lambda v: v[1].get("report") in (None, rp["report"])          # the stored report of the three (panics carry none)
    return replay_verdict(run, path, j, "the stored %s case is rounded and printed as specified and the model agrees (stages %s)"
                          % ({"val": "value", "rep": "report"}[c["kind"]], st.get("stages")), only=only)
