(* T09_corr.v — per-case functions of the T09 correspondence (SHA-256 inside the model).
   (a) raw digests: the model's sha256_hex of a byte string against the hexadecimal digest of an independent
       implementation (Python hashlib: `ref`) and, where the byte string can be fed to it, of the implementation under
       test (`impl`: the value tackler prints for an account-selector list / a transaction set whose pre-image is `m`).
   (b) end to end: the metadata text block and the report heads of audit-mode sessions with hash = "SHA-256", where the
       model computes the digest ITSELF from the uuid texts as written in the journal (no table of digests, unlike
       T04_corr): MetaText.make_items / sel_item with H := Sha256.sha256.
   Result bits: 1 = model = implementation; 2 = the implementation's output satisfies the oracle (digest = reference
   digest / the text read by MetaText_spec's independent reader is exactly the expected items with hashlib's digest);
   4 = in domain (always); 8 = (a) model = reference digest, (b) model items well formed;
   (b) 16 * (1 + index of the first differing character), 0 when equal. *)
From TkModel Require Import Base Dec MetaText Sha256.
From TkModel Require Audit Codec Price.
From TkSpec Require Import MetaText_spec.
From TkSpec Require Audit_spec.
From TkCorr Require Import T04_corr.

Definition t09_b (b : bool) (v : N) : N := if b then v else 0%N.

(* ------------------------------------------------------------------ (a) raw digests *)
(* Coq against hashlib only *)
Definition t09_raw_case (m ref : list N) : N :=
  let d := sha256_hex m in
  (t09_b (list_eqb N.eqb ref d) 1 + 4 + t09_b (list_eqb N.eqb ref d) 8)%N.

Definition t09_three (model ref impl : list N) : N :=
  (t09_b (list_eqb N.eqb impl model) 1 + t09_b (list_eqb N.eqb impl ref) 2 + 4 + t09_b (list_eqb N.eqb ref model) 8)%N.

(* the implementation printed `impl` for a pre-image that is exactly `m` *)
Definition t09_digest_case (m ref impl : list N) : N := t09_three (sha256_hex m) ref impl.

(* account selector list (UTF-8 byte strings): the model builds the pre-image itself (wrap, peel, sort, newline) *)
Definition t09_sel_digest_case (pats : list (list N)) (ref impl : list N) : N :=
  t09_three (hex_text (Audit.selector_checksum sha256 pats)) ref impl.

(* uuid texts as written, all selected: journal acceptance, canonical text, sort, newline, digest; reported size *)
Definition t09_set_digest_case (raws : list (list N)) (ref impl : list N) (size : N) : N :=
  match Audit.audit_pipeline sha256 true (map (fun s => (Some s, true)) raws) with
  | Ok (Some (n, v)) => (t09_three (hex_text v) ref impl - t09_b (negb (N.eqb n size)) 1)%N
  | _ => 4%N
  end.

(* ------------------------------------------------------------------ (b) texts *)
(* j: per transaction (journal order) the uuid text as written and whether the filter selects it *)
Definition t09_md_model (audit : bool) (j : list (option (list N) * bool)) (git : option git_in)
           (flt : option Codec.cfilter) : res (option (list item)) :=
  res_bind (Audit.accept_journal_uuids audit (map fst j))
           (fun us => make_items sha256 audit sha256_name git (t04_flt flt) (Audit_spec.selected us (map snd j))).

Definition t09_md_case (audit : bool) (j : list (option (list N) * bool)) (git : option git_in)
           (flt : option Codec.cfilter) (eg : option git_ref) (ecs : option (N * checksum)) (impl : option (list N)) : N :=
  let e := mkExp eg ecs (t04_flt flt) in
  match t09_md_model audit j git flt with
  | Err _ => t04_bits false (observed_b e impl) true 0
  | Ok None => t04_bits (match impl with None => true | Some _ => false end) (observed_b e impl) true 0
  | Ok (Some items) =>
      let mt := meta_text items in
      match impl with
      | None => t04_bits false (observed_b e impl) (forallb item_wf items) 1
      | Some t => t04_bits (list_eqb N.eqb mt t) (observed_b e impl) (forallb item_wf items) (t04_first_diff mt t 0)
      end
  end.
Definition t09_md_text (audit : bool) (j : list (option (list N) * bool)) (git : option git_in)
           (flt : option Codec.cfilter) : list N :=
  match t09_md_model audit j git flt with
  | Ok (Some items) => meta_text items
  | Ok None => [110; 111; 110; 101]%N          (* "none" *)
  | Err _ => [101; 114; 114]%N                 (* "err" *)
  end.

Definition t09_head_model (k : report_kind) (audit : bool) (pats : list (list N)) (zone : list N)
           (prices : list (option (Z * Z * dec) * list N * list N)) (title : list N) : list N :=
  report_head k (sel_item sha256 audit false sha256_name pats) zone (map t04_price prices) ++ title ++ [ch_nl].

(* impl: the text of <Report>::write_txt_report; the model must be its beginning up to and including the title line *)
Definition t09_head_case (k : report_kind) (audit : bool) (pats : list (list N)) (zone : list N)
           (prices : list (option (Z * Z * dec) * list N * list N)) (title : list N)
           (esel : option checksum) (impl : list N) : N :=
  let m := t09_head_model k audit pats zone prices title in
  let prs := map t04_price prices in
  let ezone := match k, prs with RBalance, [] => None | _, _ => Some zone end in
  let d := t04_prefix_diff m impl 0 in
  t04_bits (N.eqb d 0) (head_observed_b esel ezone prs title impl)
           (forallb item_wf (expected_head_items esel ezone prs)) d.

(* the metadata comment block of the first equity transaction (selector label "select all non-zero" / checksum) *)
Definition t09_equity_model (audit : bool) (j : list (option (list N) * bool)) (git : option git_in)
           (flt : option Codec.cfilter) (pats : list (list N)) : list N :=
  match t09_md_model audit j git flt with
  | Err _ => [101; 114; 114]%N
  | Ok md => t04_equity_block md (sel_item sha256 audit true sha256_name pats)
  end.
Definition t09_equity_case (audit : bool) (j : list (option (list N) * bool)) (git : option git_in)
           (flt : option Codec.cfilter) (pats : list (list N)) (impl : list N) : N :=
  match t09_md_model audit j git flt with
  | Err _ => t04_bits false true true 0
  | Ok md =>
      let m := t04_equity_block md (sel_item sha256 audit true sha256_name pats) in
      let body := t04_skip_line impl in
      let d := t04_prefix_diff m body 0 in
      let rest := skipn (length m) body in
      let ends := negb (starts_with t04_cprefix rest) || starts_with (t04_cprefix ++ t04_warning) rest in
      t04_bits (N.eqb d 0 && ends) true true (if N.eqb d 0 then (if ends then 0 else N.of_nat (length m) + 1) else d)
  end.
