(* T08_corr.v — worlds of the whole-run correspondence (gen/t06_text.py) in which the transaction filter reaches the
   binary as the TEXT of --api-filter-def in ARMORED form (`base64:` + standard base64 of the JSON text) or as a
   MALFORMED definition (bad base64, doubled prefix, invalid JSON, unknown variant).  The model side goes through
   T08_filter.cfg_ft (= what run_console_ft / run_files_ft run): Codec.from_any on the text, then T06's run.
   The library parameters are finite tables written by the generator for the world:
     oks  = the pattern texts Regex::new accepts (every pattern of the definition and its wrapped form),
     jtab = JSON text -> tree (Python's json module is the independent reader of the text layer, as in the C18 check),
     rtab = pattern text -> pattern AST (the AST the text was printed from).
   Result bits as in T06_corr; a refused definition demands exit status 1, empty standard output and no file. *)
From TkModel Require Import Base Dec Acct Txn Journal Balance Register Round Price Time Group.
From TkModel Require Import ReportText T05_report PriceText Regex T06_run T08_filter.
From TkModel Require MetaText Codec Filter.
From TkSpec Require Import T06_spec.
From TkCorr Require Import T06_corr.
Local Open Scope Z_scope.

Definition t08_assoc {A} (tab : list (list N * A)) (t : list N) : option A :=
  option_map snd (find (fun e => str_eqb (fst e) t) tab).
Definition t08_rx_ok (oks : list (list N)) (t : list N) : bool := existsb (str_eqb t) oks.

Definition t08_cfg (oks : list (list N)) (jtab : list (list N * Codec.jv)) (rtab : list (list N * re))
           (cfg : run_cfg) (ftext : list N) : res run_cfg :=
  cfg_ft (t08_rx_ok oks) (t08_assoc jtab) (t08_assoc rtab) cfg (Some ftext).

Definition t08_console_ft_case oks jtab rtab (cfg : run_cfg) (tbl : list (list N * list N)) (ftext jtext : list N)
           (ptext : option (list N)) (ok : bool) (out : list N) : N :=
  match t08_cfg oks jtab rtab cfg ftext with
  | Ok c => t06_console_case c tbl jtext ptext ok out
  | Err _ => t06_bits (negb ok && match out with [] => true | _ => false end) true (run_dom cfg) true
                      (match out with [] => 0 | _ => 1 end)
  end.

Definition t08_files_ft_case oks jtab rtab (cfg : run_cfg) (tbl : list (list N * list N)) (ftext jtext : list N)
           (ptext : option (list N)) (ok : bool) (impl : list (list N * list N)) (out : list N) : N :=
  match t08_cfg oks jtab rtab cfg ftext with
  | Ok c => t06_files_case c tbl jtext ptext ok impl out
  | Err _ => let quiet := match out, impl with [], [] => true | _, _ => false end in
             t06_bits (negb ok && quiet) true (run_dom cfg) true (if quiet then 0 else 1)
  end.

(* the model's text / files for the replay: literally run_console_ft / run_files_ft *)
Definition t08_console_ft_model oks jtab rtab (cfg : run_cfg) (tbl : list (list N * list N)) (ftext jtext : list N)
           (ptext : option (list N)) : list N :=
  match run_console_ft (t08_rx_ok oks) (t08_assoc jtab) (t08_assoc rtab) (t06_H tbl) cfg (Some ftext) jtext ptext with
  | Ok m => m
  | Err c => [69; 114; 114; 32]%N ++ Codec.show_N c
  end.
Definition t08_files_ft_model oks jtab rtab (cfg : run_cfg) (tbl : list (list N * list N)) (ftext jtext : list N)
           (ptext : option (list N)) : list (list N * list N) * list N :=
  match run_files_ft (t08_rx_ok oks) (t08_assoc jtab) (t08_assoc rtab) (t06_H tbl) cfg (Some ftext) jtext ptext with
  | Ok r => r
  | Err c => ([], [69; 114; 114; 32]%N ++ Codec.show_N c)
  end.
