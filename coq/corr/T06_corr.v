(* T06_corr.v — per-world comparison of a WHOLE RUN of the tackler binary with T06_run.
   Inputs of a world: the run configuration, the journal text, the price file text (or none), the digest
   table (pre-image bytes -> digest bytes, computed with Python hashlib as in T04_corr).  Nothing the
   binary printed is fed to the model.
   Console world:  t06_console_case cfg tbl journal prices ok out
     ok = exit status 0, out = the complete standard output.
   File world:     t06_files_case cfg tbl journal prices ok files out
     files = (name, content) of every file found in the (fresh) output directory, out = standard output.
   Result bits: 1 = the model agrees (Ok <-> exit 0, and byte-identical text / files / announcements; on
                    a failed run nothing was printed and no file exists);
                2 = the figure oracles of T05 / T01 hold on every report embedded in the binary's output
                    (and the identity export loads back to exactly the transaction set);
                4 = inside the exact domain (C07 / T05 domain of the parsed transactions, run_dom);
                8 = the hypotheses of the figure theorems hold for this world (T06_spec.run_hyp);
               16 * (1 + index of the first differing character) for the console text; for files
               16 * (1 + index of the first differing file in the model's order, or the number of model
               files when only the announcements / the number of files differ). *)
From TkModel Require Import Base Dec Acct Txn Journal Balance Register Round Price Time Group.
From TkModel Require Import ReportText T05_report PriceText T06_run.
From TkModel Require MetaText Codec.
From TkSpec Require Import ReportText_spec T06_spec.
From TkCorr Require Import C07_corr T01_corr T04_corr T05_corr.
Local Open Scope Z_scope.

Definition t06_H := t04_H.

Definition t06_domain (cfg : run_cfg) (st : run_state) : bool :=
  run_dom cfg
  && in_domain (rs_file st) (rs_txns st)
  && t05_sum_domain (conv_bposts (report_ctx (rs_lk st) (rc_commodity cfg) (rs_db st) (rs_txns st)) (rs_txns st))
  && forallb (fun j => forallb (fun jp => fits (p_amount (jp_p jp)) && fits (p_txn_amount (jp_p jp))) (jt_posts j))
             (rs_sel st).

(* a report that fails (a converted amount out of range: conv_overflow) fails after the metadata block, the complete
   earlier reports and its own separator line were written: that much must be on the output, the exit status is 1 *)
Fixpoint frames_before (rt : MetaText.report_kind -> option (list N)) (ks : list MetaText.report_kind) : list N :=
  match ks with
  | [] => []
  | k :: r => match rt k with Some t => frame_report t ++ frames_before rt r | None => star_line end
  end.
Fixpoint is_prefix_of (a b : list N) : bool :=
  match a, b with
  | [], _ => true
  | x :: a', y :: b' => N.eqb x y && is_prefix_of a' b'
  | _ :: _, [] => false
  end.

Definition t06_bits (agree orc dom hyp : bool) (diff : N) : N :=
  ((if agree then 1 else 0) + (if orc then 2 else 0) + (if dom then 4 else 0) + (if hyp then 8 else 0)
   + 16 * diff)%N.

(* ------------------------------------------------------------------ console *)
Definition t06_console_case (cfg : run_cfg) (tbl : list (list N * list N)) (jtext : list N)
           (ptext : option (list N)) (ok : bool) (out : list N) : N :=
  let H := t06_H tbl in
  match run_prepare H cfg jtext ptext with
  | Err _ =>
      (* the model fails before any write: the binary must fail and print nothing *)
      t06_bits (negb ok && match out with [] => true | _ => false end) true (run_dom cfg) true
               (match out with [] => 0 | _ => 1 end)
  | Ok st =>
      let orc := negb ok || console_oracle cfg (rs_file st) (rs_txns st) out in
      match run_console H cfg jtext ptext with
      | Ok m => t06_bits (ok && text_eqb m out) orc (t06_domain cfg st) (run_hyp cfg st) (first_diff m out 0)
      | Err _ =>
          t06_bits (negb ok && is_prefix_of (MetaText.file_head (rs_md st) ++ frames_before (report_text H cfg st) (rc_targets cfg)) out)
                   orc (run_dom cfg && conv_overflow cfg st) (run_hyp cfg st) 1
      end
  end.

Definition t06_console_model (cfg : run_cfg) (tbl : list (list N * list N)) (jtext : list N)
           (ptext : option (list N)) : list N :=
  match run_console (t06_H tbl) cfg jtext ptext with
  | Ok m => m
  | Err c => [69; 114; 114; 32]%N ++ Codec.show_N c      (* "Err <code>" *)
  end.

(* ------------------------------------------------------------------ files *)
Definition find_file (name : list N) (files : list (list N * list N)) : option (list N) :=
  option_map snd (find (fun f => str_eqb (fst f) name) files).

(* 1 + index of the first model file that is missing or different (0 = none) *)
Fixpoint first_bad_file (model impl : list (list N * list N)) (i : N) : N :=
  match model with
  | [] => 0%N
  | (n, c) :: r =>
      match find_file n impl with
      | Some c' => if text_eqb c c' then first_bad_file r impl (i + 1)%N else (i + 1)%N
      | None => (i + 1)%N
      end
  end.

Definition kind_of_name (cfg : run_cfg) (name : list N) : option MetaText.report_kind :=
  find (fun k => str_eqb (file_name cfg (kind_name k) ext_txt) name)
       [MetaText.RBalance; MetaText.RBalGroup; MetaText.RRegister].

(* the oracles on the binary's files: every report file passes the figure oracle of its kind; the identity
   export, read by the journal grammar, is exactly the transaction set *)
Definition files_oracle (cfg : run_cfg) (st : run_state) (impl : list (list N * list N)) : bool :=
  forallb (fun k => match find_file (file_name cfg (kind_name k) ext_txt) impl with
                    | Some c => file_oracle cfg (rs_file st) (rs_txns st) k c
                    | None => false
                    end) (rc_targets cfg)
  && (if existsb (fun x => match x with XIdentity => true | XEquity => false end) (rc_exports cfg)
      then match find_file (file_name cfg (export_name XIdentity) ext_txn) impl with
           | Some c => match load_journal (rc_journal cfg) c with
                       | Ok js => text_eqb (print_journal js) (print_journal (rs_sel st))
                       | Err _ => false
                       end
           | None => false
           end
      else true).

Definition t06_files_case (cfg : run_cfg) (tbl : list (list N * list N)) (jtext : list N)
           (ptext : option (list N)) (ok : bool) (impl : list (list N * list N)) (out : list N) : N :=
  let H := t06_H tbl in
  match run_prepare H cfg jtext ptext with
  | Err _ =>
      let quiet := match out, impl with [], [] => true | _, _ => false end in
      t06_bits (negb ok && quiet) true (run_dom cfg) true (if quiet then 0 else 1)
  | Ok st =>
      let orc := negb ok || files_oracle cfg st impl in
      match run_files H cfg jtext ptext with
      | Ok (files, ann) =>
          let bad := first_bad_file files impl 0 in
          let same := N.eqb bad 0 && Nat.eqb (length files) (length impl) && text_eqb ann out in
          t06_bits (ok && same) orc (t06_domain cfg st) (run_hyp cfg st)
                   (if same then 0 else if N.eqb bad 0 then N.of_nat (length files) + 1 else bad)
      | Err _ =>
          (* the first report fails: no announcement at all *)
          t06_bits (negb ok && match out with [] => true | _ => false end) orc
                   (run_dom cfg && conv_overflow cfg st && match rc_targets cfg with [] => false | _ => true end) (run_hyp cfg st) 1
      end
  end.

(* the model's files and announcements, for the replay *)
Definition t06_files_model (cfg : run_cfg) (tbl : list (list N * list N)) (jtext : list N)
           (ptext : option (list N)) : list (list N * list N) * list N :=
  match run_files (t06_H tbl) cfg jtext ptext with
  | Ok r => r
  | Err c => ([], [69; 114; 114; 32]%N ++ Codec.show_N c)
  end.
