(* C13_corr.v — per-case comparison evaluated by the correspondence check of C13. *)
From TkModel Require Import Base Dec Acct Txn Balance Time Group.
From TkSpec Require Import Balance_spec Group_spec.
Local Open Scope Z_scope.

(* the report zone as data: UTC offset (seconds) at each instant of the case *)
Definition c13_tz (tab : list (Z * Z)) (i : Z) : Z :=
  match find (fun e => fst e =? i) tab with Some e => snd e | None => 0 end.

Definition c13_selk (names : list acct) (k : key) : bool :=
  match names with [] => true | _ => existsb (acct_eqb (fst k)) names end.

Definition c13_row_eqb (a b : brow) : bool :=
  key_eqb (r_key a) (r_key b) && drepr_eqb (r_own a) (r_own b) && deqb (r_tree a) (r_tree b).
Definition c13_delta_eqb (a b : str * dec) : bool := str_eqb (fst a) (fst b) && drepr_eqb (snd a) (snd b).
Definition c13_by_comm (l : list (str * dec)) : list (str * dec) :=
  sort_by (fun a b => cmp_leb (str_cmp (fst a) (fst b))) l.
Definition c13_group_eqb (a b : bgroup) : bool :=
  str_eqb (g_title a) (g_title b)
  && list_eqb c13_row_eqb (b_rows (g_rep a)) (b_rows (g_rep b))
  && list_eqb c13_delta_eqb (c13_by_comm (b_deltas (g_rep a))) (c13_by_comm (b_deltas (g_rep b))).

(* exact decimal domain: sum of absolute values at the largest scale fits 96 bits *)
Definition c13_in_domain (ps : list bpost) : bool :=
  let s := fold_right N.max 0%N (map (fun p => ds (bp_amt p)) ps) in
  (N.leb s 28) && Z.ltb (zsum (map (fun p => Z.abs (rescale (bp_amt p) s)) ps)) (2 ^ 96)%Z.

(* calendar domain of the model's text rendering: years 1..9999 in the report zone *)
Definition c13_year_domain (gb : group_by) (tzoff : Z -> Z) (t : txn) : bool :=
  let d := local_days (tzoff (h_inst (t_hdr t))) (h_inst (t_hdr t)) in
  (1 <=? year_of_days d) && (year_of_days d <=? 9999) && (1 <=? key_year gb d) && (key_year gb d <=? 9999).

(* txns: the selected transactions in the implementation's canonical order.
   bits: 1 model = implementation; 2 implementation satisfies the specification oracle;
         4 inside the exact domain; 8 every key year has four digits (1000..9999) *)
Definition c13_case (gb : group_by) (tab : list (Z * Z)) (txns : list txn) (names : list acct)
           (impl : option (list bgroup)) : N :=
  let tzoff := c13_tz tab in
  let kf := txn_key gb tzoff in
  let selk := c13_selk names in
  let model := balance_groups (fun _ => true) (fun l => l) (fun r => selk (r_key r)) txn_bposts kf txns in
  let agree :=
    match model, impl with
    | None, None => true
    | Some m, Some i => list_eqb c13_group_eqb m i
    | _, _ => false
    end in
  let spec_ok :=
    match impl with
    | None => false
    | Some i => groups_ok txn_bposts kf selk txns i
    end in
  ((if agree then 1 else 0) + (if spec_ok then 2 else 0)
   + (if c13_in_domain (flat_map txn_bposts txns) && forallb (c13_year_domain gb tzoff) txns then 4 else 0)
   + (if forallb (fun t => year_okb gb (local_days (tzoff (h_inst (t_hdr t))) (h_inst (t_hdr t)))) txns
      then 8 else 0))%N.

(* the model's titles, for diagnostics *)
Definition c13_titles (gb : group_by) (tab : list (Z * Z)) (txns : list txn) : list str :=
  map fst (group_members (txn_key gb (c13_tz tab)) txns).
