(* C12_corr.v — per-case comparison evaluated by the correspondence check of C12. *)
From TkModel Require Import Base Dec Acct Txn Accept Balance Charts.
From TkSpec Require Import Accept_spec Charts_spec.
From TkCorr Require Import C01_corr.

Definition bps_of (ts : list (list posting)) : list bpost :=
  map (fun p => mkBpost (p_acc p) (p_comm p) (p_amount p)) (concat ts).

(* the model's run: configuration, journal, and whether the balance resolves every ancestor *)
Definition model_run (cf : config) (j : list craw_txn) : run_obs :=
  match load cf j with
  | Ok (ch, ts) =>
      mkRun (Some ts) (match balance_det (acct_known ch) (bps_of ts) with Some _ => true | None => false end)
  | Err _ => mkRun None true
  end.

Definition run_agree (m i : run_obs) : bool :=
  match o_ts m, o_ts i with
  | None, None => true
  | Some a, Some b => ts_eqb a b && Bool.eqb (o_reports_ok m) (o_reports_ok i)
  | _, _ => false
  end.

(* bits: 1 = model agrees with the implementation on all three runs, 2 = the implementation's
   runs satisfy the specification oracle, 4 = inside the exact decimal domain;
   8 / 16 / 32 = agreement of the strict / lax / no-chart run separately (diagnostics) *)
Definition c12_case (cf : config) (j : list craw_txn) (o : obs) : N :=
  let a_s := run_agree (model_run (with_strict true cf) j) (o_s o) in
  let a_l := run_agree (model_run (with_strict false cf) j) (o_l o) in
  let a_n := run_agree (model_run (no_chart cf) j) (o_n o) in
  ((if a_s && a_l && a_n then 1 else 0) + (if obs_ok_b cf j o then 2 else 0)
   + (if forallb (fun ct => rt_in_domain (ct_raw ct)) j then 4 else 0)
   + (if a_s then 8 else 0) + (if a_l then 16 else 0) + (if a_n then 32 else 0))%N.
