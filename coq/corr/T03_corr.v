(* T03_corr.v — per-case comparison of the price-file TEXT model with the implementation.
   cfg: journal zone / default time, strict mode and commodities.names as the price file finds them;
   text: the price file; impl: None = the implementation rejected the file (Settings::try_from failed
   in pricedb_from_file), Some db = its stored price data base (verif::price_db_json, stored order).
   Result bits: 1 = PriceText.load_pricedb agrees (accept/reject, and entry by entry: instant, base,
   rate mantissa AND scale, eq); 2 = the model accepted the file; 4 = the model's fuel did not run out
   (always, by T03_total); 8 = every parsed entry is well formed at offset 0 (T03_roundtrip's hypothesis:
   the canonical text of t03_canonical can be run through the implementation);
   16 * number of entries the model read (file order, before sorted/dedup). *)
From TkModel Require Import Base Dec Acct Txn Accept Journal Price PriceText.
From TkSpec Require Import Journal_spec Price_spec PriceText_spec.
Local Open Scope Z_scope.

Definition t03_cfg (off deftime : Z) (strict : bool) (comms : list (list N)) : pdcfg :=
  mkPdCfg (mkCfg off deftime) strict comms.

Definition t03_case (cfg : pdcfg) (text : list N) (impl : option (list pentry)) : N :=
  let p := parse_pricedb cfg text in
  let m := load_pricedb cfg text in
  ((if outcome_same_b m impl then 1 else 0)
   + (match m with Ok _ => 2 | Err _ => 0 end)
   + (match p with Err c => if (c =? E_price_fuel)%N then 0 else 4 | Ok _ => 4 end)
   + (match p with Ok es => if forallb pentry_wf es then 8 else 0 | Err _ => 0 end)
   + 16 * (match p with Ok es => N.of_nat (length es) | Err _ => 0 end))%N.

(* the model's stored data base (for replay files): instants, names, (mantissa, scale) *)
Definition t03_model_db (cfg : pdcfg) (text : list N) : list (Z * list N * (Z * N) * list N) :=
  match load_pricedb cfg text with
  | Ok db => map (fun e => (pe_ts e, pe_base e, (dm (pe_rate e), ds (pe_rate e)), pe_eq e)) db
  | Err _ => []
  end.

(* the canonical text of the entries the model read, in file order (PriceText.print_pricedb);
   run through the implementation it must load to the same data base (T03_roundtrip + T03_load) *)
Definition t03_canonical (cfg : pdcfg) (text : list N) : list N :=
  match parse_pricedb cfg text with Ok es => print_pricedb es | Err _ => [] end.
