(* T02_corr.v — per-case comparison of the model's equity export TEXT with the implementation's,
   byte for byte (text = list of code points).
   ts, eqa, sel: the source transaction set, the configured equity account and selectors (as in
   C10_corr); md: the metadata items as rendered by the implementation (cut out of its own text);
   warn: the texts of the comment lines the implementation writes after the metadata block of a
   transaction (cut out of its own text: the first non-empty such block; [] when there is none) -
   the model writes them back under exactly the headers whose sum is zero, so a block observed
   where the sum is not zero, or two different blocks, make the texts differ;
   text: the implementation's export.
   Result: bit 1 = model text = implementation text; bit 2 = the implementation's text, read by the
   journal grammar model, is exactly the model's transactions (EquityText_spec.text_reads_as);
   bit 4 = exact decimal domain of the source sums (C10_corr.c10_in_domain); bit 8 = the model's
   export is well formed (EquityText_spec.export_wf: inside the theorems of T02);
   16 * (1 + index of the first differing character), 0 when equal. *)
From TkModel Require Import Base Dec Acct Txn Balance Accept Equity Journal EquityText.
From TkSpec Require Import Balance_spec Equity_spec Journal_spec EquityText_spec.
From TkCorr Require Import C10_corr.
Local Open Scope Z_scope.

Definition t02_text_eqb (a b : list N) : bool := list_eqb N.eqb a b.

Fixpoint t02_first_diff (a b : list N) (i : N) : N :=
  match a, b with
  | [], [] => 0%N
  | x :: a', y :: b' => if N.eqb x y then t02_first_diff a' b' (i + 1)%N else (i + 1)%N
  | _, _ => (i + 1)%N
  end.

Definition t02_model (ts : list txn) (eqa : acct) (sel : option (list (bool * list N))) : option (list eq_txn) :=
  equity (fun _ => true) eqa (ras_of sel) ts.

Definition t02_case (ts : list txn) (eqa : acct) (sel : option (list (bool * list N)))
           (md : list (list (list N))) (warn : list (list N)) (text : list N) : N :=
  let dom := if c10_in_domain (txn_bposts ts) then 4%N else 0%N in
  match t02_model ts eqa sel with
  | None => dom
  | Some es =>
      let m := print_equity md warn es in
      ((if t02_text_eqb m text then 1 else 0) + (if text_reads_as (mkCfg 0 0) md warn es text then 2 else 0) + dom
       + (if export_wf md warn es then 8 else 0) + 16 * t02_first_diff m text 0)%N
  end.

(* the model text itself (for the replay files) *)
Definition t02_model_text (ts : list txn) (eqa : acct) (sel : option (list (bool * list N)))
           (md : list (list (list N))) (warn : list (list N)) : list N :=
  match t02_model ts eqa sel with Some es => print_equity md warn es | None => [] end.
