(* C16_corr.v — per-case comparison of the time stamp model with the implementation.
   bits: 1 = model agrees with the implementation, 2 = the implementation's output satisfies the
   specification oracle, 4 = case inside the domain, 8 = input in the class where the library
   layer alone builds a mixed-sign pair (the former finding F17; coverage statistics only: the
   parser re-creates the instant, model and oracle make no exception for the class). *)
From TkModel Require Import Base Dec Acct Txn Tstamp.
From TkSpec Require Import Tstamp_spec.
Local Open Scope Z_scope.

Definition zz_eqb (a b : Z * Z) : bool := (fst a =? fst b) && (snd a =? snd b).
Definition zoned_obs (z : zoned) : Z * Z := (jts_inst (z_ts z), z_off z).
Definition bits (agree spec dom cls : bool) : N :=
  ((if agree then 1 else 0) + (if spec then 2 else 0) + (if dom then 4 else 0) + (if cls then 8 else 0))%N.

(* a named zone given by oracle values (tz database lookups done outside) *)
Definition const_zone (conv_off inst_off : Z) : jzone := ZNamed (mkNamed (fun _ => conv_off) (fun _ => inst_off)).

(* ... or by tables: civil time (packed key) -> offset used, instant -> offset in force *)
Definition civ_key (c : civil) : Z :=
  ((((cv_y c * 13 + cv_m c) * 32 + cv_d c) * 24 + cv_h c) * 60 + cv_mi c) * 60 + cv_s c.
Fixpoint zlookup (k : Z) (l : list (Z * Z)) : Z :=
  match l with
  | [] => 0
  | (k', v) :: r => if k =? k' then v else zlookup k r
  end.
Definition table_zone (tc ti : list (Z * Z)) : jzone :=
  ZNamed (mkNamed (fun c => zlookup (civ_key c) tc) (fun i => zlookup i ti)).

(* one time stamp text under one configuration.
   a = Some ast: the text was printed from this AST (its meaning is known);
   a = None: mutated text, only model and implementation are compared.
   impl = None: rejected; Some (instant ns, offset s) *)
Definition c16_case (cfg : tscfg) (a : option ts_ast) (text : str) (impl : option (Z * Z)) : N :=
  let model := option_map zoned_obs (parse_ts_whole cfg text) in
  let known := match a with Some a' => ast_wfb a' | None => false end in
  let printed_ok := match a with Some a' => if ast_wfb a' then str_eqb (render a') text else true | None => true end in
  let agree := opt_eqb zz_eqb model impl && printed_ok in
  let spec_ok := match a with
                 | Some a' => if ast_wfb a' then ts_oracle cfg a' impl else true
                 | None => true
                 end in
  bits agree spec_ok true
       (match a with Some a' => known && epoch_mixedb (ast_civil cfg a') (ast_conv_off cfg a') | None => false end).

(* the order of a transaction set: inputs (AST, description) in file order, observed
   (instant, description) in the implementation's order *)
Definition mk_hdr (inst off : Z) (desc : str) : header := mkHeader inst off None (Some desc) None None [] [].
Definition c16_order_case (cfg : tscfg) (inp : list (ts_ast * str)) (obs : list (Z * str)) : N :=
  let parsed := map (fun td => (parse_ts_whole cfg (render (fst td)), snd td)) inp in
  let all_ok := forallb (fun p => match fst p with Some _ => true | None => false end) parsed in
  let jl := flat_map (fun p => match fst p with
                               | Some z => [(z_ts z, mkTxn (mk_hdr (jts_inst (z_ts z)) (z_off z) (snd p)) [])]
                               | None => []
                               end) parsed in
  let model_order := map (fun jt => opt_str (h_desc (t_hdr (snd jt)))) (jsort_txns jl) in
  let agree := list_eqb str_eqb model_order (map snd obs) in
  let spec_ok := order_oracle (map (fun o => mk_hdr (fst o) 0 (snd o)) obs)
                 && (length obs =? length inp)%nat in
  bits agree spec_ok all_ok
       (existsb (fun td => epoch_mixedb (ast_civil cfg (fst td)) (ast_conv_off cfg (fst td))) inp).

(* display: observed instant/offset of a transaction, offset of the report zone at that
   instant (oracle), the RFC 3339 text of the identity export and the label of the register *)
Definition norm_jts (ns : Z) : jts := ts_canon ns.
Definition label_to_ts (l : str) : str := firstn 10 l ++ ch_T :: skipn 11 l.
Definition year_in_range (c : civil) : bool := (0 <=? cv_y c) && (cv_y c <=? 9999).
Definition c16_disp_case (ns off roff : Z) (rfc label : str) : N :=
  let z := mkZoned (norm_jts ns) off in
  let agree := str_eqb (rfc_3339 z) rfc && str_eqb (as_tz_full (fun _ => roff) z) label in
  (* what is shown denotes the instant that was read: parse it back *)
  let back1 := option_map zoned_obs (parse_ts_whole (mkTsCfg 0 0 0 0 (ZFixed 0)) rfc) in
  let back2 := option_map zoned_obs (parse_ts_whole (mkTsCfg 0 0 0 0 (ZFixed roff)) (label_to_ts label)) in
  let spec_ok := opt_eqb zz_eqb back1 (Some (ns, off)) && opt_eqb zz_eqb back2 (Some (ns, roff)) in
  let dom := year_in_range (jts_to_civil (norm_jts ns) off) && year_in_range (jts_to_civil (norm_jts ns) roff)
             && (off mod 60 =? 0) && (ns <? (TS_MAX_SEC - 1) * NS) in
  bits agree spec_ok dom false.
