(* T07_corr.v — per-world comparison of a whole run of the tackler binary with T07_run (directory input, charts /
   strict mode, regular-expression account selectors), in the manner of T06_corr.v.
     t07_console_case c tbl files prices ok out
     t07_files_case   c tbl files prices ok outfiles out
   files = (path components below the journal directory, text) of EVERY file written there, in the order the
   check lists them (sorted by path).
   Result bits: 1 = the model agrees (Ok <-> exit 0; byte-identical text / files / announcements; a failed run
                    printed nothing and wrote no file);
                2 = the figure oracles of T06_spec hold on the binary's output when no account selector is
                    configured (with pattern selectors the oracle of T05 does not apply: bit set);
                4 = inside the exact domain (T06's domain on the parsed transactions; with more than one
                    selected file the headers of the transactions are pairwise distinguishable, otherwise
                    the directory order of the operating system could reach the output);
                8 = the hypotheses of the figure theorems hold;
               16 * diff as in T06_corr. *)
From TkModel Require Import Base Dec Acct Txn Journal Balance Register Round Price Time Group.
From TkModel Require Import ReportText T05_report PriceText Regex T06_run T07_run.
From TkModel Require MetaText Codec Store.
From TkSpec Require Import ReportText_spec T06_spec.
From TkCorr Require Import C07_corr T01_corr T04_corr T05_corr T06_corr.
Local Open Scope Z_scope.

Definition no_pats (c : run7) : bool :=
  match r7_accounts c, r7_bal c, r7_grp c, r7_reg c, r7_eq c with
  | None, None, None, None, None => true
  | _, _, _, _, _ => false
  end.

(* pairwise distinguishable headers *)
Fixpoint distinct_hdrs_b (l : list jtxn) : bool :=
  match l with
  | [] => true
  | x :: r => negb (existsb (fun y => match header_cmp (jt_hdr x) (jt_hdr y) with Eq => true | _ => false end) r)
              && distinct_hdrs_b r
  end.

Definition t07_dom (c : run7) : bool :=
  nodupb (map kind_name (rc_targets (r7_base c))) && nodupb (map export_name (rc_exports (r7_base c))).

Definition t07_domain (c : run7) (files : list (list (list N) * list N)) (st : run_state) : bool :=
  t07_dom c
  && in_domain (rs_file st) (rs_txns st)
  && t05_sum_domain (conv_bposts (report_ctx (rs_lk st) (rc_commodity (r7_base c)) (rs_db st) (rs_txns st)) (rs_txns st))
  && forallb (fun j => forallb (fun jp => fits (p_amount (jp_p jp)) && fits (p_txn_amount (jp_p jp))) (jt_posts j))
             (rs_sel st)
  && ((Nat.leb (length (selected7 c files)) 1)
      || match load_dir c files with Ok js => distinct_hdrs_b js | Err _ => true end).

Definition t07_console_case (c : run7) (tbl : list (list N * list N)) (files : list (list (list N) * list N))
           (ptext : option (list N)) (ok : bool) (out : list N) : N :=
  let H := t06_H tbl in
  let b := r7_base c in
  match run7_prepare H c files ptext with
  | Err _ =>
      t06_bits (negb ok && match out with [] => true | _ => false end) true (t07_dom c) true
               (match out with [] => 0 | _ => 1 end)
  | Ok st =>
      let orc := negb ok || negb (no_pats c) || console_oracle b (rs_file st) (rs_txns st) out in
      match run7_console H c files ptext with
      | Ok m => t06_bits (ok && text_eqb m out) orc (t07_domain c files st) (run_hyp b st) (first_diff m out 0)
      | Err _ =>
          t06_bits (negb ok && is_prefix_of (MetaText.file_head (rs_md st) ++ frames_before (report_text7 H c st) (rc_targets b)) out)
                   orc (t07_dom c && conv_overflow b st) (run_hyp b st) 1
      end
  end.

Definition t07_console_model (c : run7) (tbl : list (list N * list N)) (files : list (list (list N) * list N))
           (ptext : option (list N)) : list N :=
  match run7_console (t06_H tbl) c files ptext with
  | Ok m => m
  | Err e => [69; 114; 114; 32]%N ++ Codec.show_N e
  end.

Definition t07_files_case (c : run7) (tbl : list (list N * list N)) (files : list (list (list N) * list N))
           (ptext : option (list N)) (ok : bool) (impl : list (list N * list N)) (out : list N) : N :=
  let H := t06_H tbl in
  let b := r7_base c in
  match run7_prepare H c files ptext with
  | Err _ =>
      let quiet := match out, impl with [], [] => true | _, _ => false end in
      t06_bits (negb ok && quiet) true (t07_dom c) true (if quiet then 0 else 1)
  | Ok st =>
      let orc := negb ok || negb (no_pats c) || files_oracle b st impl in
      match run7_files H c files ptext with
      | Ok (mfiles, ann) =>
          let bad := first_bad_file mfiles impl 0 in
          let same := N.eqb bad 0 && Nat.eqb (length mfiles) (length impl) && text_eqb ann out in
          t06_bits (ok && same) orc (t07_domain c files st) (run_hyp b st)
                   (if same then 0 else if N.eqb bad 0 then N.of_nat (length mfiles) + 1 else bad)
      | Err _ => t06_bits (negb ok) orc false (run_hyp b st) 1
      end
  end.

Definition t07_files_model (c : run7) (tbl : list (list N * list N)) (files : list (list (list N) * list N))
           (ptext : option (list N)) : list (list N * list N) * list N :=
  match run7_files (t06_H tbl) c files ptext with
  | Ok r => r
  | Err e => ([], [69; 114; 114; 32]%N ++ Codec.show_N e)
  end.

(* ------------------------------------------------------------------ Git storage *)
(* the world: the repository (trees of its commits as (path, kind, blob) entries, references), the blob contents,
   the printed id and the message title of every commit (from the git command line), the selector *)
Definition t07g_domain (c : run7) (st : run_state) : bool :=
  t07_dom c
  && in_domain (rs_file st) (rs_txns st)
  && t05_sum_domain (conv_bposts (report_ctx (rs_lk st) (rc_commodity (r7_base c)) (rs_db st) (rs_txns st)) (rs_txns st))
  && forallb (fun j => forallb (fun jp => fits (p_amount (jp_p jp)) && fits (p_txn_amount (jp_p jp))) (jt_posts j))
             (rs_sel st)
  && distinct_hdrs_b (rs_sel st).

Definition t07g_console_case (c : run7) (gw : git_world) (gs : git_sel) (tbl : list (list N * list N))
           (ptext : option (list N)) (ok : bool) (out : list N) : N :=
  let H := t06_H tbl in
  match run7g_prepare H c gw gs ptext with
  | Err _ =>
      t06_bits (negb ok && match out with [] => true | _ => false end) true (t07_dom c) true
               (match out with [] => 0 | _ => 1 end)
  | Ok st =>
      match run7g_console H c gw gs ptext with
      | Ok m => t06_bits (ok && text_eqb m out) true (t07g_domain c st) (run_hyp (r7_base c) st) (first_diff m out 0)
      | Err _ => t06_bits (negb ok) true false (run_hyp (r7_base c) st) 1
      end
  end.
Definition t07g_console_model (c : run7) (gw : git_world) (gs : git_sel) (tbl : list (list N * list N))
           (ptext : option (list N)) : list N :=
  match run7g_console (t06_H tbl) c gw gs ptext with
  | Ok m => m
  | Err e => [69; 114; 114; 32]%N ++ Codec.show_N e
  end.

Definition t07g_files_case (c : run7) (gw : git_world) (gs : git_sel) (tbl : list (list N * list N))
           (ptext : option (list N)) (ok : bool) (impl : list (list N * list N)) (out : list N) : N :=
  let H := t06_H tbl in
  match run7g_prepare H c gw gs ptext with
  | Err _ =>
      let quiet := match out, impl with [], [] => true | _, _ => false end in
      t06_bits (negb ok && quiet) true (t07_dom c) true (if quiet then 0 else 1)
  | Ok st =>
      match run7g_files H c gw gs ptext with
      | Ok (mfiles, ann) =>
          let bad := first_bad_file mfiles impl 0 in
          let same := N.eqb bad 0 && Nat.eqb (length mfiles) (length impl) && text_eqb ann out in
          t06_bits (ok && same) true (t07g_domain c st) (run_hyp (r7_base c) st)
                   (if same then 0 else if N.eqb bad 0 then N.of_nat (length mfiles) + 1 else bad)
      | Err _ => t06_bits (negb ok) true false (run_hyp (r7_base c) st) 1
      end
  end.
Definition t07g_files_model (c : run7) (gw : git_world) (gs : git_sel) (tbl : list (list N * list N))
           (ptext : option (list N)) : list (list N * list N) * list N :=
  match run7g_files (t06_H tbl) c gw gs ptext with
  | Ok r => r
  | Err e => ([], [69; 114; 114; 32]%N ++ Codec.show_N e)
  end.
