(* T05_corr.v — per-case comparison of the report TEXTS under price conversion.
   The model side is the whole chain inside Coq: price FILE and configuration -> settings_price ->
   make_ctx / convert_prices (C07) -> register / balance / balance-group engines (C03, C02, C13)
   -> ReportText (T01); nothing of the implementation's figures is fed to the model.
   Result bits: 1 = the model's text equals the implementation's text (from the title line on);
   2 = the implementation's text satisfies the end-to-end oracle of TkSpec.T05_spec (lines, fields
   and every figure = the rounded exact sum computed from the price file);
   4 = inside the exact domain (C07's in_domain and every sum fits 96 bits at the largest scale);
   8 * (1 + index of the first differing character), 0 when equal. *)
From TkModel Require Import Base Dec Acct Txn Balance Register Round Price Time Group ReportText T05_report.
From TkSpec Require Import ReportText_spec T05_spec.
From TkCorr Require Import C07_corr T01_corr.
Local Open Scope Z_scope.

(* the text of the time stamp of a register header, as data: instant -> text *)
Definition t05_ts (tab : list (Z * list N)) (h : header) : list N :=
  match find (fun e => fst e =? h_inst h) tab with Some e => snd e | None => [] end.

Definition t05_tz (i : Z) : Z := 0.            (* report zone UTC *)

(* every sum of converted amounts fits: the absolute values at the largest scale add up below 2^96 *)
Definition t05_sum_domain (ps : list bpost) : bool :=
  let s := fold_right N.max 0%N (map (fun p => ds (bp_amt p)) ps) in
  (s <=? 28)%N && (zsum (map (fun p => Z.abs (rescale (bp_amt p) s)) ps) <? 2 ^ 96).

Definition t05_domain (lk : lookup) (rc : option (list N)) (db file : list pentry) (txns : list txn) : bool :=
  in_domain file txns && t05_sum_domain (conv_bposts (report_ctx lk rc db txns) txns).

Definition t05_verdict (model : option (list N)) (impl : list N) (oracle dom : bool) : N :=
  match model with
  | None => ((if oracle then 2 else 0) + (if dom then 4 else 0) + 8)%N
  | Some m => ((if text_eqb m impl then 1 else 0) + (if oracle then 2 else 0) + (if dom then 4 else 0)
               + 8 * first_diff m impl 0)%N
  end.

Inductive t05_kind : Type := KReg | KBal | KGrp (gb : group_by).

Definition t05_model (k : t05_kind) (title : list N) (sc : scale_cfg) (tab : list (Z * list N))
           (lk : lookup) (rc : option (list N)) (db : list pentry)
           (names : list (list (list N))) (txns : list txn) : option (list N) :=
  match k with
  | KReg => Some (conv_register_text title sc (t05_ts tab) lk rc db names txns)
  | KBal => conv_balance_text title sc lk rc db names txns
  | KGrp gb => conv_balgrp_text title sc gb t05_tz lk rc db names txns
  end.

(* the end-to-end oracle on the implementation's text.  Register and balance: T05_spec, computed from
   the price file.  Balance groups: the reading oracle of T01 (lines and fields) on the model's groups. *)
Definition t05_oracle (k : t05_kind) (title : list N) (sc : scale_cfg) (tab : list (Z * list N))
           (olk : option lookup) (lk : lookup) (rc : option (list N)) (db file : list pentry)
           (names : list (list (list N))) (txns : list txn) (text : list N) : bool :=
  match k with
  | KReg => match olk with
            | Some l => register_text_ok title sc (t05_ts tab) l rc file names txns text
            | None => false end
  | KBal => match olk with
            | Some l => balance_text_ok title sc l rc file names txns text
            | None => false end
  | KGrp gb =>
      match conv_balgrp gb t05_tz lk rc db names txns with
      | Some gs => grp_text_ok title sc (map text_group gs) text
      | None => false
      end
  end.

(* lt / rc / before / file: the configuration as in C07_corr.c07_case (settings_price decides the
   lookup and loads the price file for the MODEL; the oracle reads the lookup off the configuration
   with C07_corr.spec_lookup and works on the file as written); a configuration error never reaches
   a report: result 0 *)
Definition t05_case (k : t05_kind) (lt : lookup_type) (rc : option (list N)) (before : option Z)
           (file : list pentry) (txns : list txn) (names : list (list (list N)))
           (title : list N) (sc : scale_cfg) (tab : list (Z * list N)) (text : list N) : N :=
  match settings_price lt rc before file with
  | Err _ => 0%N
  | Ok (lk, db) =>
      t05_verdict (t05_model k title sc tab lk rc db names txns) text
                  (t05_oracle k title sc tab
                              (match rc with Some _ => spec_lookup lt before | None => Some LkNone end)
                              lk rc db file names txns text)
                  (t05_domain lk rc db file txns)
  end.

(* the model's text, for the replay files *)
Definition t05_model_text (k : t05_kind) (lt : lookup_type) (rc : option (list N)) (before : option Z)
           (file : list pentry) (txns : list txn) (names : list (list (list N)))
           (title : list N) (sc : scale_cfg) (tab : list (Z * list N)) : list N :=
  match settings_price lt rc before file with
  | Err _ => []
  | Ok (lk, db) => match t05_model k title sc tab lk rc db names txns with Some t => t | None => [] end
  end.
