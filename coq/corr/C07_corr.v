(* C07_corr.v — per-case comparison for the price-conversion check. *)
From TkModel Require Import Base Dec Acct Txn Price.
From TkSpec Require Import Price_spec.
Local Open Scope Z_scope.

(* observed transactions: only instant, account, commodity and amount matter here *)
Definition mk_p (a : acct) (c : list N) (amt : dec) : posting := mkPosting a c amt amt false c.
Definition mk_t (inst : Z) (ps : list posting) : txn := mkTxn (mkHeader inst 0 None None None None [] []) ps.

(* what the implementation produced: the loaded price db (stored order), per transaction the
   converted postings seen by the register (with rate) and by the balance (no rate), the metadata records *)
Record impl_out : Type := mkOut {
  io_db : list pentry; io_reg : list (list conv); io_bal : list (list conv); io_meta : list prec }.

Definition pe_repr_eqb (a b : pentry) : bool :=
  (pe_ts a =? pe_ts b) && str_eqb (pe_base a) (pe_base b) && drepr_eqb (pe_rate a) (pe_rate b)
  && str_eqb (pe_eq a) (pe_eq b).
Definition conv_norate_eqb (a b : conv) : bool :=
  acct_eqb (cv_acc a) (cv_acc b) && str_eqb (cv_comm a) (cv_comm b) && drepr_eqb (cv_amount a) (cv_amount b).
Definition used_eqb (a b : Z * dec) : bool := (fst a =? fst b) && drepr_eqb (snd a) (snd b).
Definition prec_eqb (a b : prec) : bool :=
  str_eqb (pr_source a) (pr_source b) && str_eqb (pr_target a) (pr_target b)
  && opt_eqb used_eqb (pr_used a) (pr_used b).

(* the lookup as configured, read off the configuration directly (independent of settings_price) *)
Definition spec_lookup (lt : lookup_type) (before : option Z) : option lookup :=
  match lt, before with
  | LtNone, _ => Some LkNone
  | LtTxnTime, _ => Some LkTxnTime
  | LtLastPrice, _ => Some LkLastPrice
  | LtGivenTime, Some t => Some (LkGivenTime t)
  | LtGivenTime, None => None
  end.

(* exact domain: amounts and rates fit, and so does every product the conversion could form *)
Definition in_domain (file : list pentry) (txns : list txn) : bool :=
  forallb (fun e => fits (pe_rate e)) file
  && forallb (fun tx => forallb (fun p =>
       fits (p_amount p)
       && forallb (fun e => negb (str_eqb (pe_base e) (p_comm p)) || fits (dmul (p_amount p) (pe_rate e))) file)
       (t_posts tx)) txns.

(* bits: 1 model = implementation; 2 implementation satisfies the specification oracle;
   4 inside the exact domain; 8 the file has distinct (instant, base, eq);
   16 (informational) the file contains a self pair of the report commodity *)
Definition c07_case (lt : lookup_type) (rc : option (list N)) (before : option Z)
                    (file : list pentry) (txns : list txn) (impl : option impl_out) : N :=
  let agree :=
    match settings_price lt rc before file, impl with
    | Err _, None => true
    | Ok (lk, db), Some io =>
        let ctx := make_ctx lk txns rc db in
        let m := map (convert_prices ctx) txns in
        list_eqb pe_repr_eqb db (io_db io)
        && list_eqb (list_eqb conv_eqb) m (io_reg io)
        && list_eqb (list_eqb conv_norate_eqb) m (io_bal io)
        && list_eqb prec_eqb (metadata ctx) (io_meta io)
    | _, _ => false
    end in
  let tgt := match rc with Some t => t | None => [] end in
  let spec_ok :=
    match impl with
    | None => true                         (* configuration errors are not C07's subject *)
    | Some io =>
        match (match rc with Some _ => spec_lookup lt before | None => Some LkNone end) with
        | None => false
        | Some lk =>
            all2b (txn_ok_b lk tgt file) txns (io_reg io)
            && all2b (txn_ok_b lk tgt file) txns (io_bal io)
            && meta_ok_b lk tgt file txns (io_meta io)
        end
    end in
  ((if agree then 1 else 0) + (if spec_ok then 2 else 0)
   + (if in_domain file txns then 4 else 0)
   + (if distinct_keys_b file then 8 else 0)
   + (if has_self_pair_b tgt file then 16 else 0))%N.
