(* C17_corr.v — per-case comparison functions evaluated by the correspondence check. *)
From Coq Require Import QArith.
From TkModel Require Import Base Dec Acct Balance Round.
From TkSpec Require Import Balance_spec Round_spec.
Local Open Scope Z_scope.

Definition bits (agree spec dom : bool) : N :=
  ((if agree then 1 else 0) + (if spec then 2 else 0) + (if dom then 4 else 0))%N.

(* ---- value level: raw rust_decimal operations; d, k = input decimal, number of decimals *)
Definition ostr_eqb (a b : option str) : bool := opt_eqb (list_eqb N.eqb) a b.

(* r       : a.round_dp_with_strategy(k, MidpointAwayFromZero)
   t_plain : a.to_string()            t_rplain : r.to_string()
   t_trunc : format!("{:.k$}", a)     t_round  : format!("{:.k$}", r)   (None = the LIBRARY
             panicked: more than 32 characters; tackler does not call this any more)
   bit 1: model = implementation (representation of r, the four texts, panics included)
   bit 2: r and its plain text satisfy the specification oracles; where the library's
          precision Display answers, its text satisfies the oracle too
   bit 4: inside the exact domain *)
Definition c17_val_case (d : dec) (k : N) (r : dec) (t_plain t_rplain : str)
           (t_trunc t_round : option str) : N :=
  let m := dround_hafz d k in
  let agree := drepr_eqb m r
               && list_eqb N.eqb (dfmt d) t_plain
               && list_eqb N.eqb (dfmt m) t_rplain
               && ostr_eqb (dfmt_prec d k) t_trunc
               && ostr_eqb (dfmt_prec m k) t_round in
  let spec := round_ok k d r
              && shown_ok (mkScale 0 k) d t_rplain
              && match t_round with
                 | Some t => shown_ok (mkScale k k) d t
                 | None => true
                 end in
  bits agree spec (fits d && (k <=? 28)%N).

(* ---- report level --------------------------------------------------------------------
   a figure of a report: the exact decimal from the hook and the text found in the report *)
Record fig : Type := mkFig { f_exact : dec; f_text : str }.

Definition fig_agree (sc : scale_cfg) (f : fig) : bool :=
  list_eqb N.eqb (shown_text sc (f_exact f)) (f_text f).

Definition fig_spec (sc : scale_cfg) (f : fig) : bool := shown_ok sc (f_exact f) (f_text f).

Fixpoint first_bad (p : fig -> bool) (l : list fig) (i : N) : N :=
  match l with
  | [] => 0%N
  | f :: l' => if p f then first_bad p l' (i + 1)%N else (i + 1)%N
  end.

(* display only: the exact figures themselves are sums of unrounded parts.
   sums = list of (total figure, parts): value total = sum of the values of the parts *)
Definition sums_ok (sums : list (dec * list dec)) : bool :=
  forallb (fun tp => d28 (fst tp) =? zsum (map d28 (snd tp))) sums.

(* every partial sum of the parts is representable: the sum of the absolute values at the
   largest scale that occurs fits in 96 bits (as in C02_corr.in_domain) *)
Definition sum_dom (l : list dec) : bool :=
  let s := fold_right N.max 0%N (map ds l) in
  (s <=? 28)%N && forallb fits l && (zsum (map (fun d => Z.abs (rescale d s)) l) <? 2 ^ 96).

(* result: bits + 8 * (1 + index of the first figure failing the oracle, else failing the
   comparison with the model) *)
Definition c17_rep_case (sc : scale_cfg) (figs : list fig) (sums : list (dec * list dec)) : N :=
  let agree := forallb (fig_agree sc) figs in
  let spec := forallb (fig_spec sc) figs && sums_ok sums in
  let dom := forallb (fun f => fits (f_exact f)) figs
             && forallb (fun tp => sum_dom (fst tp :: snd tp)) sums in
  let bad := match first_bad (fig_spec sc) figs 0 with
             | 0%N => first_bad (fig_agree sc) figs 0
             | n => n
             end in
  (bits agree spec dom + 8 * bad)%N.

