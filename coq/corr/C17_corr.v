(* C17_corr.v — per-case comparison functions evaluated by the correspondence check. *)
From Coq Require Import QArith.
From TkModel Require Import Base Dec Acct Balance Round.
From TkSpec Require Import Balance_spec Round_spec.
Local Open Scope Z_scope.

Definition bits (agree spec dom : bool) : N :=
  ((if agree then 1 else 0) + (if spec then 2 else 0) + (if dom then 4 else 0))%N.

(* ---- value level: raw rust_decimal operations -------------------------------------
   d, k            : input decimal and number of decimals
   r               : a.round_dp_with_strategy(k, MidpointAwayFromZero)
   t_round         : format!("{:.k$}", r)        (what the reports do)
   t_trunc         : format!("{:.k$}", a)        (Display alone: truncates / pads)
   t_plain         : format!("{}", a)
   bit 1: model = implementation (representation of r, all three texts)
   bit 2: r and t_round satisfy the specification oracles
   bit 4: inside the exact domain *)
Definition ostr_eqb (a b : option str) : bool := opt_eqb (list_eqb N.eqb) a b.

(* texts are options: None = the implementation panicked (Display buffer, finding F18).
   bit 2 is clear when the rounded figure could not be printed at all. *)
Definition c17_val_case (d : dec) (k : N) (r : dec) (t_round t_trunc t_plain : option str) : N :=
  let m := dround_hafz d k in
  let agree := drepr_eqb m r
               && ostr_eqb (dfmt_prec m k) t_round
               && ostr_eqb (dfmt_prec d k) t_trunc
               && ostr_eqb (dfmt d) t_plain in
  let spec := round_ok k d r
              && match t_round with Some t => shown_ok (mkScale k k) d t | None => false end in
  bits agree spec (fits d && (k <=? 28)%N).

(* the class of finding F18: the figure, rounded for display, needs more than 32 characters *)
Definition c17_val_overflow (d : dec) (k : N) : N :=
  if dfmt_room (dround_hafz d k) k then 0%N else 1%N.

(* ---- report level --------------------------------------------------------------------
   a figure of a report: the exact decimal from the hook, the text found in the report,
   and whether the stored scale of the figure may differ between two computations of the
   same report (tree sums: the scale of a sum depends on the hash-set iteration order,
   finding F8; the value does not) *)
Record fig : Type := mkFig { f_exact : dec; f_text : str; f_scale_free : bool }.

(* the same value stored with scale s (s >= scale needed) *)
Definition with_scale (d : dec) (s : N) : dec :=
  if (ds d <=? s)%N then mkDec (dm d * pow10 (s - ds d)) s
  else mkDec (dm d / pow10 (ds d - s)) s.

Fixpoint scales_upto (n : nat) : list N :=
  match n with O => [0%N] | S n' => N.of_nat n :: scales_upto n' end.

Definition fig_agree (sc : scale_cfg) (f : fig) : bool :=
  if f_scale_free f
  then existsb (fun s => needs_at_most (f_exact f) s
                         && ostr_eqb (shown_text sc (with_scale (f_exact f) s)) (Some (f_text f)))
               (scales_upto 28)
  else ostr_eqb (shown_text sc (f_exact f)) (Some (f_text f)).

Definition fig_spec (sc : scale_cfg) (f : fig) : bool := shown_ok sc (f_exact f) (f_text f).

Fixpoint first_bad (p : fig -> bool) (l : list fig) (i : N) : N :=
  match l with
  | [] => 0%N
  | f :: l' => if p f then first_bad p l' (i + 1)%N else (i + 1)%N
  end.

(* display only: the exact figures themselves are sums of unrounded parts.
   sums = list of (total figure, parts): value total = sum of the values of the parts *)
Definition sums_ok (sums : list (dec * list dec)) : bool :=
  forallb (fun tp => d28 (fst tp) =? zsum (map d28 (snd tp))) sums.

(* every partial sum of the parts is representable: the sum of the absolute values at the
   largest scale that occurs fits in 96 bits (as in C02_corr.in_domain) *)
Definition sum_dom (l : list dec) : bool :=
  let s := fold_right N.max 0%N (map ds l) in
  (s <=? 28)%N && forallb fits l && (zsum (map (fun d => Z.abs (rescale d s)) l) <? 2 ^ 96).

(* result: bits + 8 * (1 + index of the first figure failing the oracle, else failing the
   comparison with the model) *)
Definition c17_rep_case (sc : scale_cfg) (figs : list fig) (sums : list (dec * list dec)) : N :=
  let agree := forallb (fig_agree sc) figs in
  let spec := forallb (fig_spec sc) figs && sums_ok sums in
  let dom := forallb (fun f => fits (f_exact f)) figs
             && forallb (fun tp => sum_dom (fst tp :: snd tp)) sums in
  let bad := match first_bad (fig_spec sc) figs 0 with
             | 0%N => first_bad (fig_agree sc) figs 0
             | n => n
             end in
  (bits agree spec dom + 8 * bad)%N.

(* a report whose text operation panicked: figs carry the exact figures (texts unused).
   1 = the model predicts the panic too (some figure has no text), 0 = it does not *)
Definition c17_rep_panics (sc : scale_cfg) (figs : list fig) : N :=
  if forallb (fun f => match shown_text sc (f_exact f) with Some _ => true | None => false end) figs
  then 0%N else 1%N.
