From TkModel Require Import Base Dec Txn Load.

(* per-file outcomes observed when each file is loaded alone: Some n = accepted with n
   transactions, None = rejected. multi: outcome of loading all files together.
   bit 1: model (load_files over the observed per-file results) agrees;
   bit 2: fail-stop property on the observation itself *)
Definition dummy_txn : txn := mkTxn (mkHeader 0 0 None None None None [] []) [].
Definition parse_of (o : option nat) : res (list txn) :=
  match o with Some n => Ok (repeat dummy_txn n) | None => Err 1%N end.

Definition c15_case (files : list (option nat)) (multi : option nat) : N :=
  let model := load_files parse_of files in
  let agree := match model, multi with
               | Ok ts, Some n => Nat.eqb (length ts) n
               | Err _, None => true
               | _, _ => false
               end in
  let ok := match multi with
            | Some n => forallb (fun o => match o with Some _ => true | None => false end) files
                        && Nat.eqb n (fold_right Nat.add 0 (map (fun o => match o with Some k => k | None => 0 end) files))
            | None => existsb (fun o => match o with None => true | Some _ => false end) files
            end in
  ((if agree then 1 else 0) + (if ok then 2 else 0))%N.
