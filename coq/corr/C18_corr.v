(* C18_corr.v — per-case comparison of the codec model with the implementation.
   bits: 1 = model agrees with the implementation, 2 = the implementation's output satisfies the
   specification oracle, 4 = case inside the modelled text domain (exact decimals, time stamp
   sub-grammar, four-digit years). *)
From TkModel Require Import Base Dec Codec.
From TkSpec Require Import Codec_spec.
Local Open Scope N_scope.

Fixpoint assoc_str {A} (k : list N) (l : list (list N * A)) : option A :=
  match l with
  | [] => None
  | (k', v) :: r => if str_eqb k k' then Some v else assoc_str k r
  end.

Fixpoint jv_eqb (a b : jv) : bool :=
  match a, b with
  | JNull, JNull => true
  | JBool x, JBool y => Bool.eqb x y
  | JNum x, JNum y => str_eqb x y
  | JStr x, JStr y => str_eqb x y
  | JArr x, JArr y =>
      (fix go (x y : list jv) : bool :=
         match x, y with
         | [], [] => true
         | p :: x', q :: y' => jv_eqb p q && go x' y'
         | _, _ => false
         end) x y
  | JObj x, JObj y =>
      (fix go (x y : list (list N * jv)) : bool :=
         match x, y with
         | [], [] => true
         | (k, p) :: x', (k', q) :: y' => str_eqb k k' && jv_eqb p q && go x' y'
         | _, _ => false
         end) x y
  | _, _ => false
  end.

(* what the implementation returned when it accepted the definition *)
Record impl_ok : Type := mkImpl {
  i_json1 : list N; i_tree1 : jv; i_text1 : list N;
  i_reparse_ok : bool; i_json2 : list N; i_text2 : list N }.

(* a leaf text that is not a pattern / number / time stamp / id (inside the modelled domain) *)
Definition leaf_malformed (raw_ok : list N -> bool) (l : leaf) : bool :=
  match l with
  | LRegex p => negb (raw_ok p)
  | LDec s => match dec_parse s with None => true | Some _ => false end
  | LTs s => match ts_parse s with None => true | Some _ => false end
  | LUuid s => match uuid_parse s with None => true | Some _ => false end
  | LOther => true
  end.

(* s      the definition text given to the implementation (plain JSON or armored)
   jp     JSON text -> tree for the texts involved (serde_json's part, supplied by the driver)
   rxr    pattern -> Regex::new(pattern) ok?        (regex crate's part; both tables are Regex::new
   rxw    ^(?:pattern)$ -> Regex::new ok?             on the key, so they agree where keys coincide)
   tree   the tree of the definition that was given (None: the text is not JSON at all)
   clean  the definition uses objects with exactly the struct's fields, in the struct's order *)
Definition c18_case (s : list N) (jp : list (list N * jv)) (rxw rxr : list (list N * bool))
                    (tree : option jv) (clean : bool) (impl : option impl_ok) : N :=
  let rx_ok := fun t => match assoc_str t (rxr ++ rxw) with Some b => b | None => false end in
  let raw_ok := fun t => match assoc_str t rxr with Some b => b | None => false end in
  let json_parse := fun t => assoc_str t jp in
  let model := from_any rx_ok json_parse s in
  let lv_in := match tree with Some j => leaves j | None => [] end in
  let agree :=
    match model, impl with
    | None, None => true
    | Some f, Some i => jv_eqb (def_to_jv f) (i_tree1 i) && str_eqb (describe_def f) (i_text1 i)
    | _, _ => false
    end in
  let spec_ok :=
    match impl with
    | None => true
    | Some i =>
        let lv1 := leaves (i_tree1 i) in
        obs_ok (mkObs (i_json1 i) (i_text1 i) (i_reparse_ok i) (i_json2 i) (i_text2 i)
                      (if clean then lv_in else lv1) lv1)
        && negb (clean && existsb (leaf_malformed raw_ok) lv_in)
        && match tree with Some _ => true | None => false end
    end in
  let dom :=
    forallb leaf_in_dom lv_in
    && match model with Some f => cf_year0 f | None => true end
    && match impl with Some i => forallb leaf_in_dom (leaves (i_tree1 i)) | None => true end in
  (if agree then 1 else 0) + (if spec_ok then 2 else 0) + (if dom then 4 else 0).

(* base64 engine: model vs general_purpose::STANDARD; the decoded bytes must re-encode to the text *)
Definition c18_b64_case (s : list N) (impl : option (list N)) : N :=
  let agree := match b64_dec s, impl with
               | None, None => true
               | Some a, Some b => list_eqb N.eqb a b
               | _, _ => false
               end in
  let spec_ok := match impl with
                 | None => true
                 | Some b => str_eqb (b64_enc b) s && forallb is_byte b
                 end in
  (if agree then 1 else 0) + (if spec_ok then 2 else 0) + 4.
Definition c18_b64_enc_case (bs : list N) (impl : list N) : N :=
  (if str_eqb (b64_enc bs) impl then 1 else 0)
  + (if match b64_dec impl with Some x => list_eqb N.eqb x bs | None => false end then 2 else 0) + 4.
