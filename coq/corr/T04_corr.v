(* T04_corr.v — per-case comparison of the metadata TEXT of the implementation with the model
   MetaText.v, byte for byte (text = list of code points).
   The digest is a table `tbl` (pre-image bytes -> digest bytes) computed by an independent
   implementation (Python hashlib) over a pre-image built from the structured transaction dump /
   the configured selector patterns: the model's H is the table lookup, so a model that hashes a
   different pre-image gets the empty digest and the texts differ.
   Result bits: 1 = model text = implementation text; 2 = the implementation's text, read by the
   independent reader of MetaText_spec.v, is exactly the expected items (observed_b /
   head_observed_b, sound by T04_oracle_sound / T04_head_oracle_sound); 4 = in domain (always);
   8 = every model item is well formed (inside T04_read_back);
   16 * (1 + index of the first differing character), 0 when equal. *)
From TkModel Require Import Base Dec MetaText.
From TkModel Require Audit Codec Price.
From TkSpec Require Import MetaText_spec.

Definition t04_H (tbl : list (list N * list N)) (x : list N) : list N :=
  match find (fun kv => list_eqb N.eqb (fst kv) x) tbl with
  | Some kv => snd kv
  | None => []
  end.

Fixpoint t04_first_diff (a b : list N) (i : N) : N :=
  match a, b with
  | [], [] => 0%N
  | x :: a', y :: b' => if N.eqb x y then t04_first_diff a' b' (i + 1)%N else (i + 1)%N
  | _, _ => (i + 1)%N
  end.
(* first difference of a with the prefix of b of a's length *)
Fixpoint t04_prefix_diff (a b : list N) (i : N) : N :=
  match a, b with
  | [], _ => 0%N
  | x :: a', y :: b' => if N.eqb x y then t04_prefix_diff a' b' (i + 1)%N else (i + 1)%N
  | _ :: _, [] => (i + 1)%N
  end.

Definition t04_bits (agree orc wf : bool) (diff : N) : N :=
  ((if agree then 1 else 0) + (if orc then 2 else 0) + 4 + (if wf then 8 else 0) + 16 * diff)%N.

(* uuid texts as the transaction dump shows them (None: the transaction has no uuid) *)
Definition t04_uuids (us : list (option (list N))) : list (option (list N)) :=
  map (fun o => match o with Some s => Audit.uuid_parse s | None => None end) us.
(* the description of an applied filter, report zone UTC *)
Definition t04_flt (flt : option Codec.cfilter) : option (list (list N)) :=
  option_map (fun f => filter_lines (Codec.describe_def f)) flt.

Definition t04_md_model (tbl : list (list N * list N)) (audit : bool) (algo : list N) (git : option git_in)
           (flt : option Codec.cfilter) (us : list (option (list N))) : res (option (list item)) :=
  make_items (t04_H tbl) audit algo git (t04_flt flt) (t04_uuids us).

(* impl: the metadata text of the transaction set (op "metadata"), None when the set has none.
   eg / ecs: what must be shown (git fields from the git CLI; size, algorithm and hashlib digest) *)
Definition t04_md_case (audit : bool) (algo : list N) (git : option git_in) (flt : option Codec.cfilter)
           (us : list (option (list N))) (tbl : list (list N * list N))
           (eg : option git_ref) (ecs : option (N * checksum)) (impl : option (list N)) : N :=
  let e := mkExp eg ecs (t04_flt flt) in
  match t04_md_model tbl audit algo git flt us with
  | Err _ => t04_bits false (observed_b e impl) true 0
  | Ok None => t04_bits (match impl with None => true | Some _ => false end) (observed_b e impl) true 0
  | Ok (Some items) =>
      let mt := meta_text items in
      match impl with
      | None => t04_bits false (observed_b e impl) (forallb item_wf items) 1
      | Some t => t04_bits (list_eqb N.eqb mt t) (observed_b e impl) (forallb item_wf items) (t04_first_diff mt t 0)
      end
  end.
Definition t04_md_text (audit : bool) (algo : list N) (git : option git_in) (flt : option Codec.cfilter)
           (us : list (option (list N))) (tbl : list (list N * list N)) : list N :=
  match t04_md_model tbl audit algo git flt us with
  | Ok (Some items) => meta_text items
  | Ok None => [110; 111; 110; 101]%N          (* "none" *)
  | Err _ => [101; 114; 114]%N                 (* "err" *)
  end.

(* a price record as the hooks dump it: (instant ns, report-zone offset seconds at that instant, rate)
   or None (lookup at transaction time), source and target commodity *)
Definition t04_price (p : option (Z * Z * dec) * list N * list N) : price_rec :=
  let '(u, src, tgt) := p in
  match u with
  | Some (inst, off, rate) =>
      price_rec_of (render_full (fun _ => off)) (TkModel.Price.mkPrec src tgt (Some (inst, rate)))
  | None => price_rec_of (fun _ => []) (TkModel.Price.mkPrec src tgt None)
  end.

Definition t04_head_model (k : report_kind) (audit : bool) (algo : list N) (pats : list (list N))
           (zone : list N) (prices : list (option (Z * Z * dec) * list N * list N))
           (title : list N) (tbl : list (list N * list N)) : list N :=
  report_head k (sel_item (t04_H tbl) audit false algo pats) zone (map t04_price prices) ++ title ++ [ch_nl].

(* impl: the text of <Report>::write_txt_report; the model must be its beginning up to and including the
   title line.  esel: the selector checksum that must be shown (None: audit off) *)
Definition t04_head_case (k : report_kind) (audit : bool) (algo : list N) (pats : list (list N))
           (zone : list N) (prices : list (option (Z * Z * dec) * list N * list N))
           (title : list N) (tbl : list (list N * list N)) (esel : option checksum) (impl : list N) : N :=
  let m := t04_head_model k audit algo pats zone prices title tbl in
  let prs := map t04_price prices in
  let ezone := match k, prs with RBalance, [] => None | _, _ => Some zone end in
  let d := t04_prefix_diff m impl 0 in
  t04_bits (N.eqb d 0) (head_observed_b esel ezone prs title impl)
           (forallb item_wf (expected_head_items esel ezone prs)) d.

(* the metadata comment block of an equity transaction as text: every line of every item (an item line may
   itself contain newlines: only its beginning gets the comment prefix) and the empty comment after each item *)
Definition t04_cprefix : list N := [32; 32; 32; 59; 32]%N.                      (* "   ; " *)
Definition t04_warning : list N := [87; 65; 82; 78; 73; 78; 71; 58]%N.          (* "WARNING:" *)
Definition t04_equity_block (md : option (list item)) (sel : option item) : list N :=
  concat (map (fun l => t04_cprefix ++ l ++ [ch_nl]) (flat_map (fun b => b ++ [[]]) (equity_md md sel))).
Fixpoint t04_skip_line (s : list N) : list N :=
  match s with [] => [] | c :: r => if (c =? ch_nl)%N then r else t04_skip_line r end.
Definition t04_equity_model (audit : bool) (algo : list N) (git : option git_in) (flt : option Codec.cfilter)
           (us : list (option (list N))) (pats : list (list N)) (tbl : list (list N * list N)) : list N :=
  match t04_md_model tbl audit algo git flt us with
  | Err _ => [101; 114; 114]%N
  | Ok md => t04_equity_block md (sel_item (t04_H tbl) audit true algo pats)
  end.
(* impl: the whole export text; after the header line of the first transaction comes exactly the model's block,
   and what follows it is not a further metadata comment (only WARNING comments or postings) *)
Definition t04_equity_case (audit : bool) (algo : list N) (git : option git_in) (flt : option Codec.cfilter)
           (us : list (option (list N))) (pats : list (list N)) (tbl : list (list N * list N))
           (impl : list N) : N :=
  match t04_md_model tbl audit algo git flt us with
  | Err _ => t04_bits false true true 0
  | Ok md =>
      let m := t04_equity_block md (sel_item (t04_H tbl) audit true algo pats) in
      let body := t04_skip_line impl in
      let d := t04_prefix_diff m body 0 in
      let rest := skipn (length m) body in
      let ends := negb (starts_with t04_cprefix rest) || starts_with (t04_cprefix ++ t04_warning) rest in
      t04_bits (N.eqb d 0 && ends) true true (if N.eqb d 0 then (if ends then 0 else N.of_nat (length m) + 1) else d)
  end.

(* a report FILE written by the command line program (write_txt_reports): the set's block, an empty line's
   newline, the report's own head, the title *)
Definition t04_file_model (k : report_kind) (audit : bool) (algo : list N) (git : option git_in)
           (flt : option Codec.cfilter) (us : list (option (list N))) (pats : list (list N)) (zone : list N)
           (prices : list (option (Z * Z * dec) * list N * list N)) (title : list N)
           (tbl : list (list N * list N)) : list N :=
  match t04_md_model tbl audit algo git flt us with
  | Ok md => file_head md ++ t04_head_model k audit algo pats zone prices title tbl
  | Err _ => [101; 114; 114]%N
  end.
Definition t04_file_case (k : report_kind) (audit : bool) (algo : list N) (git : option git_in)
           (flt : option Codec.cfilter) (us : list (option (list N))) (pats : list (list N)) (zone : list N)
           (prices : list (option (Z * Z * dec) * list N * list N)) (title : list N)
           (tbl : list (list N * list N)) (impl : list N) : N :=
  let d := t04_prefix_diff (t04_file_model k audit algo git flt us pats zone prices title tbl) impl 0 in
  t04_bits (N.eqb d 0) true true d.
