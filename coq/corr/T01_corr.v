(* T01_corr.v — per-case comparison of the model's report TEXT with the implementation's,
   byte for byte (text = list of code points).
   Result: bit 1 = the two texts are equal; bit 2 = the implementation's text satisfies the
   specification oracle (lines and blank-separated fields read back as the shown figures);
   4 * (1 + index of the first differing character), 0 when equal. *)
From TkModel Require Import Base Dec Acct Txn Balance Register Round ReportText.
From TkSpec Require Import ReportText_spec.

Definition text_eqb (a b : str) : bool := list_eqb N.eqb a b.

(* 1 + index of the first differing character (0 = equal): for the replay *)
Fixpoint first_diff (a b : str) (i : N) : N :=
  match a, b with
  | [], [] => 0%N
  | x :: a', y :: b' => if N.eqb x y then first_diff a' b' (i + 1)%N else (i + 1)%N
  | _, _ => (i + 1)%N
  end.

Definition verdict (model impl : str) (oracle : bool) : N :=
  ((if text_eqb model impl then 1 else 0) + (if oracle then 2 else 0)
   + 4 * first_diff model impl 0)%N.

(* balance report: rows and deltas as dumped by the hook, title and scale from the
   configuration, text = the report from the title line on *)
Definition t01_bal_case (rows : list brow) (deltas : list (str * dec)) (title : str)
           (sc : scale_cfg) (text : str) : N :=
  verdict (bal_txt_report title sc rows deltas) text (bal_text_ok title sc rows deltas text).

(* balance-group report *)
Definition t01_grp_case (groups : list bal_group) (title : str) (sc : scale_cfg) (text : str) : N :=
  verdict (balgrp_txt_report title sc groups) text (grp_text_ok title sc groups text).

(* register report: entries as seen by the reporter callback, each with the text of its
   time stamp (txn_ts::as_tz_date etc.); fw = filler width of the price lookup *)
Definition t01_reg_case (es : list (str * rentry)) (title : str) (sc : scale_cfg) (fw : nat)
           (text : str) : N :=
  verdict (reg_txt_report_with title sc fw es) text (reg_text_ok title sc es text).

(* the model texts themselves (for the replay files) *)
Definition t01_bal_model (rows : list brow) (deltas : list (str * dec)) (title : str) (sc : scale_cfg) : str :=
  bal_txt_report title sc rows deltas.
Definition t01_grp_model (groups : list bal_group) (title : str) (sc : scale_cfg) : str :=
  balgrp_txt_report title sc groups.
Definition t01_reg_model (es : list (str * rentry)) (title : str) (sc : scale_cfg) (fw : nat) : str :=
  reg_txt_report_with title sc fw es.
