From TkModel Require Import Base Dec Acct Txn Accept.
From TkSpec Require Import Accept_spec.

Definition posting_repr_eqb (a b : posting) : bool :=
  acct_eqb (p_acc a) (p_acc b) && str_eqb (p_comm a) (p_comm b)
  && drepr_eqb (p_amount a) (p_amount b) && drepr_eqb (p_txn_amount a) (p_txn_amount b)
  && Bool.eqb (p_total a) (p_total b) && str_eqb (p_txn_comm a) (p_txn_comm b).

(* exact domain: amounts/prices fit, products stay within scale 28 and 96 bits, sums fit *)
Definition rp_in_domain (rp : raw_post) : bool :=
  fits (rp_amount rp) &&
  match rp_unit rp with
  | Some u => match u_closing u with
              | Some (UnitPrice, v, _) => fits v && fits (dmul (rp_amount rp) v)
              | Some (TotalPrice, v, _) => fits v
              | None => true
              end
  | None => true
  end.
Definition rt_in_domain (rt : raw_txn) : bool :=
  let vals := map raw_txn_value (rt_posts rt) in
  let s := fold_right N.max 0%N (map ds vals) in
  forallb rp_in_domain (rt_posts rt) && N.leb s 28
  && Z.ltb (zsum (map (fun v => Z.abs (rescale v s)) vals)) (2 ^ 96)%Z.

(* impl: None = journal rejected; Some l = accepted, postings per transaction (input order).
   bits: 1 agree, 2 spec holds on the implementation's result, 4 in exact domain *)
Definition c01_case (j : list raw_txn) (impl : option (list (list posting))) : N :=
  let model := accept_journal j in
  let agree :=
    match model, impl with
    | Err _, None => true
    | Ok m, Some i => list_eqb (list_eqb posting_repr_eqb) m i
    | _, _ => false
    end in
  let spec_ok :=
    match impl with
    | None => true                       (* rejecting never violates C01 *)
    | Some i => forall2b balanced_b j i && negb (existsb must_reject j)
    end in
  (* independent of the exact domain: an accepted transaction whose postings all carry their
     own amount as transaction amount, but whose exact sum is not zero *)
  let plain_unbalanced :=
    match impl with
    | None => false
    | Some i => existsb (fun ps => forallb (fun p => drepr_eqb (p_txn_amount p) (p_amount p)) ps
                                   && negb (Z.eqb (zsum (map (fun p => v56 (p_amount p)) ps)) 0)) i
    end in
  ((if agree then 1 else 0) + (if spec_ok then 2 else 0)
   + (if forallb rt_in_domain j then 4 else 0) + (if plain_unbalanced then 8 else 0))%N.
