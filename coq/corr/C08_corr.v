From TkModel Require Import Base Store.

Definition ids (l : list entry) : list N := map en_blob l.
Definition same_set (a b : list N) : bool :=
  forallb (fun x => existsb (N.eqb x) b) a && forallb (fun x => existsb (N.eqb x) a) b
  && Nat.eqb (length a) (length b).

(* impl: ids of the files whose transactions were loaded from git (None = load error);
   fs: ids loaded by file-system storage from a checkout of the same commit.
   bits: 1 model = implementation, 2 implementation = file-system storage on the checkout *)
Definition c08_case (dir : list (list N)) (ext : list N) (t : list entry)
           (impl : option (list N)) (fs : list N) : N :=
  let agree := match select_git dir ext t, impl with
               | None, None => true
               | Some m, Some i => same_set (ids m) i
               | _, _ => false
               end in
  let ok := match impl with
            | None => existsb (fun e => match en_kind e with Link => true | _ => false end) t
            | Some i => same_set i fs && same_set i (ids (select_fs dir ext t))
            end in
  ((if agree then 1 else 0) + (if ok then 2 else 0))%N.
