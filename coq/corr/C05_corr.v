(* C05_corr.v — per-case comparison of Filter.txn_data_filter with TxnData::filter.
   Input: the regex matcher as a finite table, the filter definition, the UNFILTERED set as the
   implementation holds it (sorted), the audit flag; implementation output: the selection as a
   mask over the unfiltered set and the reported set size (None = no checksum item), or None
   when building the filtered set failed (audit mode: duplicate uuid in the selection). *)
From TkModel Require Import Base Dec Acct Txn Filter.
From TkSpec Require Import Filter_spec.

(* whole-haystack matcher given extensionally: ((pattern id, haystack), matches) *)
Fixpoint re_of_table (tbl : list (N * list N * bool)) (r : N) (s : list N) : bool :=
  match tbl with
  | [] => false
  | (r', s', b) :: tbl' => if (N.eqb r r' && str_eqb s s')%bool then b else re_of_table tbl' r s
  end.

(* the implementation's order of the unfiltered set is the model's order (TxnData::from) *)
Fixpoint in_model_order (l : list ftxn) : bool :=
  match l with
  | a :: (b :: _) as l' => ftxn_leb a b && in_model_order l'
  | _ => true
  end.

Definition c05_case (tbl : list (N * list N * bool)) (f : tfilter) (all : list ftxn) (audit : bool)
                    (impl : option (list bool * option N)) : N :=
  let re := re_of_table tbl in
  let agree :=
    in_model_order all &&
    match txn_data_filter re audit f all, impl with
    | Err _, None => true
    | Ok (out, md), Some (mask, size) =>
        list_eqb Bool.eqb (map (eval re f) all) mask
        && Nat.eqb (length out) (count_true mask)
        && opt_eqb N.eqb (option_map (fun m => N.of_nat (md_size m)) md) size
    | _, _ => false
    end in
  let spec_ok :=
    match impl with
    | None => true            (* a refused set selects nothing wrongly; refusal itself is C09's *)
    | Some (mask, size) => select_oracle re f all mask && size_oracle mask size
                           && (if audit then match size with Some _ => true | None => false end else true)
    end in
  let dom := filter_wf_b f && forallb ftxn_wf_b all in
  ((if agree then 1 else 0) + (if spec_ok then 2 else 0) + (if dom then 4 else 0))%N.

(* several filter definitions on one journal: 3 bits per definition, first = lowest *)
Fixpoint c05_multi (tbl : list (N * list N * bool)) (all : list ftxn)
                   (l : list (tfilter * bool * option (list bool * option N))) : N :=
  match l with
  | [] => 0%N
  | (f, audit, impl) :: l' => (c05_case tbl f all audit impl + 8 * c05_multi tbl all l')%N
  end.
