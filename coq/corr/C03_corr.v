(* C03_corr.v — per-case comparison functions evaluated by the correspondence check. *)
From TkModel Require Import Base Dec Acct Txn Balance Register.
From TkSpec Require Import Balance_spec Register_spec.
Local Open Scope Z_scope.

Definition hdr_eqb (a b : header) : bool :=
  (h_inst a =? h_inst b) && opt_eqb str_eqb (h_code a) (h_code b)
  && opt_eqb str_eqb (h_desc a) (h_desc b) && opt_eqb str_eqb (h_uuid a) (h_uuid b).
Definition post_repr_eqb (a b : posting) : bool :=
  acct_eqb (p_acc a) (p_acc b) && str_eqb (p_comm a) (p_comm b)
  && drepr_eqb (p_amount a) (p_amount b).
Definition txn_eqb (a b : txn) : bool :=
  hdr_eqb (t_hdr a) (t_hdr b) && list_eqb post_repr_eqb (t_posts a) (t_posts b).

(* exact representation (mantissa and scale) of amount and running total *)
Definition row_agree (m : rrow) (o : orow) : bool :=
  acct_eqb (p_acc (rr_post m)) (o_acc o) && str_eqb (p_comm (rr_post m)) (o_comm o)
  && drepr_eqb (p_amount (rr_post m)) (o_amount o) && drepr_eqb (rr_total m) (o_total o)
  && str_eqb (rr_target m) (o_comm o)
  && match rr_rate m with None => true | Some _ => false end.

Definition entry_agree (input : list txn) (m : rentry) (o : nat * list orow) : bool :=
  match nth_error input (fst o) with
  | Some t => txn_eqb (re_txn m) t
  | None => false
  end && rforall2b row_agree (re_rows m) (snd o).

(* sufficient condition for "every running total is representable": the sum of the
   absolute values, at the largest scale that occurs, fits in 96 bits *)
Definition c03_in_domain (input : list txn) : bool :=
  let ps := flat_map t_posts input in
  let s := fold_right N.max 0%N (map (fun p => ds (p_amount p)) ps) in
  (N.leb s 28)
  && Z.ltb (zsum (map (fun p => Z.abs (rescale (p_amount p) s)) ps)) (2 ^ 96).

(* input: the transactions in FILE order; names: literal account names of the selector
   (empty = all); order: file positions in the implementation's transaction order (op
   `txns`); obs: the implementation's register entries (file position of the
   transaction, rows). Entries without rows are dropped on both sides (the text report
   does not show them). bits: 1 = model agrees; 2 = specification oracle holds on the
   implementation's output; 4 = inside the exact decimal domain *)
Definition c03_case (input : list txn) (names : list acct) (order : list nat)
           (obs : list (nat * list orow)) : N :=
  let model := register_text_entries conv_id (sel_names names) input in
  let agree := rforall2b (entry_agree input) model (filter has_rows obs)
               && match pick input order with
                  | Some out => list_eqb txn_eqb (sort_txns input) out
                  | None => false
                  end in
  ((if agree then 1 else 0) + (if reg_ok input names order obs then 2 else 0)
   + (if c03_in_domain input then 4 else 0))%N.

(* the order alone (op `txns`): idxs = file indices in the implementation's order *)
Definition c03_order_case (input : list txn) (idxs : list nat) : N :=
  let agree := match pick input idxs with
               | Some out => list_eqb txn_eqb (sort_txns input) out
               | None => false
               end in
  let ok := match pick input idxs with
            | Some out => order_ok input idxs out
            | None => false
            end in
  ((if agree then 1 else 0) + (if ok then 2 else 0) + 4)%N.
