(* C06_corr.v — per-case comparison of model and implementation, and the spec oracle on the
   implementation's observables. *)
From TkModel Require Import Base Dec Acct Txn Accept Journal.
From TkSpec Require Import Journal_spec.
Local Open Scope Z_scope.

(* exact domain of the semantic layer (as C01): amounts / prices fit, products and sums exact *)
Definition c06_rp_in_domain (rp : raw_post) : bool :=
  fits (rp_amount rp) &&
  match rp_unit rp with
  | Some u => match u_closing u with
              | Some (UnitPrice, v, _) => fits v && fits (dmul (rp_amount rp) v)
              | Some (TotalPrice, v, _) => fits v
              | None => true
              end
  | None => true
  end.
Definition c06_raw_value (rp : raw_post) : dec :=
  match rp_unit rp with
  | Some u => match u_closing u with
              | Some (UnitPrice, v, _) => dmul (rp_amount rp) v
              | Some (TotalPrice, v, _) => v
              | None => rp_amount rp
              end
  | None => rp_amount rp
  end.
Definition c06_rt_in_domain (rt : raw_txn) : bool :=
  let vals := map c06_raw_value (rt_posts rt) in
  let s := fold_right N.max 0%N (map ds vals) in
  forallb c06_rp_in_domain (rt_posts rt) && N.leb s 28
  && Z.ltb (zsum (map (fun v => Z.abs (rescale v s)) vals)) (2 ^ 96)%Z.

(* printing side: every decimal fits and every unit price is an exact quotient *)
Definition c06_jpost_in_domain (jp : jpost) : bool :=
  let p := jp_p jp in
  fits (p_amount p) && fits (p_txn_amount p)
  && (if is_nil (p_txn_comm p) || str_eqb (p_txn_comm p) (p_comm p) || p_total p then true
      else match ddiv (p_txn_amount p) (p_amount p) with Some q => fits q | None => false end).
Definition c06_text_in_domain (cfg : pcfg) (s : list N) : bool :=
  match parse_journal cfg s with
  | Ok pts => forallb (fun pt => c06_rt_in_domain (ptxn_raw pt)) pts
  | Err _ => true
  end.

Definition c06_load_agrees (cfg : pcfg) (s : list N) (impl : option (list jtxn)) : bool :=
  match load_journal cfg s, impl with
  | Err _, None => true
  | Ok m, Some d => list_eqb jtxn_eqb m d
  | _, _ => false
  end.

(* s: journal text.  first: None = rejected, Some (dump, identity text).
   second: the same for the identity text as journal (None also when there was no second session).
   bits: 1 model agrees with implementation (8, 16, 32 all set)
         2 spec oracle: the implementation's export re-loads to the same transactions and re-exports identically
         4 case inside the exact domain
         8 loader agrees on s;  16 print_journal (dump) = identity text;  32 loader agrees on the identity text
         64 the implementation's transactions satisfy journal_wf, the hypothesis of C06_roundtrip
            (part of bit 1 inside the exact domain) *)
Definition c06_case (cfg : pcfg) (s : list N) (first : option (list jtxn * list N))
                    (second : option (list jtxn * list N)) : N :=
  let a_load := c06_load_agrees cfg s (option_map fst first) in
  let a_print := match first with Some (d1, e1) => str_eqb (print_journal d1) e1 | None => true end in
  let a_reload := match first with
                  | Some (_, e1) => c06_load_agrees cfg e1 (option_map fst second)
                  | None => true
                  end in
  let spec_ok := match first with
                 | Some (d1, e1) => fixpoint_obs_b d1 e1 second
                 | None => true
                 end in
  let dom := c06_text_in_domain cfg s
             && match first with
                | Some (d1, e1) => forallb (fun t => forallb c06_jpost_in_domain (jt_posts t)) d1
                                   && c06_text_in_domain cfg e1
                | None => true
                end in
  let a_wf := match first with Some (d1, _) => journal_wf d1 | None => true end in
  ((if a_load && a_print && a_reload && (a_wf || negb dom) then 1 else 0) + (if spec_ok then 2 else 0)
   + (if dom then 4 else 0)
   + (if a_load then 8 else 0) + (if a_print then 16 else 0) + (if a_reload then 32 else 0)
   + (if a_wf then 64 else 0))%N.

(* parser only: accept / reject agreement and fields on an arbitrary (malformed) text *)
Definition c06_parse_case (cfg : pcfg) (s : list N) (impl : option (list jtxn)) : N :=
  ((if c06_load_agrees cfg s impl then 1 else 0) + 2 + (if c06_text_in_domain cfg s then 4 else 0))%N.

(* Decimal division contract: 1 = ddiv agrees with the implementation's quotient where it is defined *)
Definition c06_div_case (a b q : dec) : N :=
  match ddiv a b with
  | Some r => if drepr_eqb r q then 1%N else 0%N
  | None => 3%N
  end.
