(* C10_corr.v — per-case comparison evaluated by the correspondence check of C10. *)
From TkModel Require Import Base Dec Acct Txn Balance Accept Equity.
From TkSpec Require Import Balance_spec Equity_spec.
Local Open Scope Z_scope.

(* account selectors of the generated cases: (true, s) = the account name is exactly s,
   (false, s) = the account name starts with s  (regex  s  /  s.* , full-haystack match) *)
Definition str_prefix (p s : list N) : bool := str_eqb p (firstn (length p) s).
Definition sel_of (l : list (bool * list N)) (a : acct) : bool :=
  existsb (fun e : bool * list N => if fst e then str_eqb (snd e) (acct_str a) else str_prefix (snd e) (acct_str a)) l.
Definition ras_of (o : option (list (bool * list N))) : option (acct -> bool) := option_map sel_of o.

(* a transaction of the export as parsed back by the implementation *)
Record itxn : Type := mkItxn {
  i_inst : Z; i_off : Z; i_desc : list N; i_warn : N;     (* i_warn: number of "WARNING:" comment lines *)
  i_posts : list bpost }.

Definition i_comm (t : itxn) : list N := match i_posts t with p :: _ => bp_comm p | [] => [] end.
Definition by_comm (l : list itxn) : list itxn :=
  sort_by (fun a b => cmp_leb (str_cmp (i_comm a) (i_comm b))) l.

Definition bpost_repr_eqb (a b : bpost) : bool :=
  acct_eqb (bp_acc a) (bp_acc b) && str_eqb (bp_comm a) (bp_comm b) && drepr_eqb (bp_amt a) (bp_amt b).

Fixpoint c10_forall2b {A B} (f : A -> B -> bool) (a : list A) (b : list B) : bool :=
  match a, b with
  | [], [] => true
  | x :: a', y :: b' => f x y && c10_forall2b f a' b'
  | _, _ => false
  end.

Definition etxn_eqb (e : eq_txn) (t : itxn) : bool :=
  (e_inst e =? i_inst t) && (e_off e =? i_off t) && str_eqb (eq_desc e) (i_desc t)
  && N.eqb (if e_warn e then 5 else 0)%N (i_warn t)
  && list_eqb bpost_repr_eqb (map eq_bpost (eq_all_posts e)) (i_posts t).

(* exact domain: every partial sum is representable (sum of absolute values at the largest scale) *)
Definition c10_max_scale (ps : list bpost) : N := fold_right N.max 0%N (map (fun p => ds (bp_amt p)) ps).
Definition c10_in_domain (ps : list bpost) : bool :=
  let s := c10_max_scale ps in
  (N.leb s 28) && Z.ltb (zsum (map (fun p => Z.abs (rescale (bp_amt p) s)) ps)) (2 ^ 96)%Z.

(* ts: the source transaction set (journal order); sel: the configured selectors;
   impl: None = the export failed or is not accepted as a journal; Some (its, exp_bal) = the
   parsed-back transactions and the implementation's balance report of them;
   src_sel: the implementation's balance of the source under the export's selector.
   bits: 1 model = implementation, 2 specification oracles hold, 4 exact domain *)
Definition c10_case (ts : list txn) (eqa : acct) (sel : option (list (bool * list N)))
           (impl : option (list itxn * bal_report)) (src_sel : list brow) : N :=
  let ras := ras_of sel in
  let ps := txn_bposts ts in
  let model := equity (fun _ => true) eqa ras ts in
  let agree :=
    match model, impl with
    | Some es, Some (its, _) => c10_forall2b etxn_eqb es (by_comm its)
    | _, _ => false
    end in
  let spec_ok :=
    match impl with
    | None => false
    | Some (its, rep) =>
        let eps := flat_map i_posts its in
        export_ok eqa ras (map (fun t => h_inst (t_hdr t)) ts) ps (map (fun t => (i_inst t, i_posts t)) its)
        && report_all_ok eps rep
        && rows_carry_ok eqa src_sel (b_rows rep)
    end in
  ((if agree then 1 else 0) + (if spec_ok then 2 else 0) + (if c10_in_domain ps then 4 else 0))%N.

(* the equity account name of the configuration (split at ':'), and whether Settings accepted
   it with the equity export as a target. bit 1: accepted = eq_account_ok2 (the grammar rule) *)
Definition c10_name_case (eqa : acct) (accepted : bool) : N :=
  if Bool.eqb (eq_account_ok2 eqa) accepted then 1%N else 0%N.
