From TkModel Require Import Base Output.

Definition c14_case (sizes : list nat) (limit : nat) (ok : bool) (announced : list nat) (complete : list bool) : N :=
  let '(mok, mann, mcomp) := outcome limit sizes in
  (if Bool.eqb mok ok && list_eqb Nat.eqb mann announced && list_eqb Bool.eqb mcomp complete then 1 else 0)%N.
