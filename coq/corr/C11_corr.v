(* C11_corr.v — per-case comparison functions evaluated by the correspondence check of C11. *)
From TkModel Require Import Base Dec Acct Balance Regex Select.
From TkSpec Require Import Balance_spec Regex_spec.
From TkCorr Require Import C02_corr.

Definition rep_eqb (a b : bal_report) : bool :=
  list_eqb (brow_repr_eqb false) (b_rows a) (b_rows b)
  && list_eqb delta_eqb (by_comm (b_deltas a)) (by_comm (b_deltas b)).

(* the pattern texts given to the implementation are the printed ASTs, and the ASTs have a
   concrete syntax *)
Definition texts_ok (pats : list re) (texts : list (list N)) : bool :=
  list_eqb str_eqb (map pp pats) texts && forallb re_wf pats.

(* balance report / equity selection.
   unf  = implementation's report without any selector (all rows),
   impl = implementation's report with the selectors `texts` (None = selector rejected).
   bits: 1 = model agrees with implementation (selected and unselected report);
         2 = implementation output satisfies the specification oracle;
         4 = inside the exact decimal domain; 8 = texts are the printed, well-formed ASTs *)
Definition c11_bal_case (ps : list bpost) (equity : bool) (pats : list re) (texts : list (list N))
           (unf impl : option bal_report) : N :=
  let agree :=
    match selected_balance_det equity pats ps, impl,
          selected_balance_det false [] ps, unf with
    | Some m, Some i, Some mu, Some iu => rep_eqb m i && rep_eqb mu iu
    | _, _, _, _ => false
    end in
  let spec_ok :=
    match unf, impl with
    | Some u, Some i => select_oracle equity pats (b_rows u) i
    | _, _ => false
    end in
  ((if agree then 1 else 0) + (if spec_ok then 2 else 0)
   + (if in_domain ps then 4 else 0) + (if texts_ok pats texts then 8 else 0))%N.

Definition reg_eqb (a b : list (list rrow)) : bool := list_eqb (list_eqb rrow_same) a b.

(* register: unf / impl = rows per transaction without / with the selectors *)
Definition c11_reg_case (txns : list (list bpost)) (pats : list re) (texts : list (list N))
           (unf impl : option (list (list rrow))) : N :=
  let agree :=
    match impl, unf with
    | Some i, Some u => reg_eqb (selected_register pats txns) i && reg_eqb (selected_register [] txns) u
    | _, _ => false
    end in
  let spec_ok :=
    match unf, impl with
    | Some u, Some i => reg_oracle pats u i
    | _, _ => false
    end in
  ((if agree then 1 else 0) + (if spec_ok then 2 else 0)
   + (if in_domain (concat txns) then 4 else 0) + (if texts_ok pats texts then 8 else 0))%N.
