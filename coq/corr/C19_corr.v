From TkModel Require Import Base Config.

Definition strs_eqb (a b : list (list N)) : bool := list_eqb str_eqb a b.
Definition ns_eqb (a b : list N) : bool := list_eqb N.eqb a b.

Definition eff_eqb (a b : eff) : bool :=
  Bool.eqb (e_strict a) (e_strict b) && Bool.eqb (e_audit a) (e_audit b)
  && ns_eqb (e_reports a) (e_reports b) && ns_eqb (e_exports a) (e_exports b)
  && opt_eqb str_eqb (e_commodity a) (e_commodity b) && N.eqb (e_lookup a) (e_lookup b)
  && N.eqb (e_group_by a) (e_group_by b)
  && strs_eqb (e_ras_bal a) (e_ras_bal b) && strs_eqb (e_ras_balgrp a) (e_ras_balgrp b)
  && strs_eqb (e_ras_reg a) (e_ras_reg b) && strs_eqb (e_ras_eq a) (e_ras_eq b).

(* the property, key by key, directly on the observed effective settings *)
Definition pick {A} (o : option A) (d : A) : A := match o with Some x => x | None => d end.
Definition nonempty (l : list (list N)) : list (list N) := filter (fun s => match s with [] => false | _ => true end) l.
Definition want_sel (f : file_cfg) (c : cli_opts) (per : option (list (list N))) : list (list N) :=
  match c_accounts c with
  | Some g => nonempty g
  | None => match per with Some l => l | None => pick (f_accounts f) [] end
  end.
Definition prec_ok (f : file_cfg) (c : cli_opts) (e : eff) : bool :=
  Bool.eqb (e_strict e) (pick (c_strict c) (f_strict f))
  && Bool.eqb (e_audit e) (pick (c_audit c) (f_audit f))
  && ns_eqb (e_reports e) (pick (c_reports c) (f_reports f))
  && ns_eqb (e_exports e) (pick (c_exports c) (f_exports f))
  && opt_eqb str_eqb (e_commodity e) (match c_commodity c with Some x => Some x | None => f_commodity f end)
  && N.eqb (e_lookup e) (pick (c_lookup c) (f_lookup f))
  && N.eqb (e_group_by e) (pick (c_group_by c) (f_group_by f))
  && strs_eqb (e_ras_bal e) (want_sel f c (f_bal_acc f))
  && strs_eqb (e_ras_balgrp e) (want_sel f c (f_balgrp_acc f))
  && strs_eqb (e_ras_reg e) (want_sel f c (f_reg_acc f))
  && strs_eqb (e_ras_eq e) (want_sel f c (f_eq_acc f)).
(* combinations the property says must be rejected *)
Definition must_reject (f : file_cfg) (c : cli_opts) : bool :=
  let lookup := pick (c_lookup c) (f_lookup f) in
  (negb (N.eqb lookup 0) && match c_commodity c, f_commodity f with None, None => true | _, _ => false end)
  || (negb (N.eqb lookup 3) && match c_before c with Some _ => true | None => false end)
  || (N.eqb lookup 3 && match c_before c with Some _ => false | None => true end)
  || (pick (c_strict c) (f_strict f) && existsb (N.eqb 0) (pick (c_exports c) (f_exports f)) && negb (f_eq_declared f)).

(* impl: None = rejected. bits: 1 model agrees, 2 property holds on the observation *)
Definition c19_case (f : file_cfg) (c : cli_opts) (impl : option eff) : N :=
  let agree := match effective f c, impl with
               | Err _, None => true
               | Ok m, Some i => eff_eqb m i
               | _, _ => false
               end in
  let ok := match impl with
            | None => true
            | Some i => prec_ok f c i && negb (must_reject f c)
            end in
  ((if agree then 1 else 0) + (if ok then 2 else 0))%N.
