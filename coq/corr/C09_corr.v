(* C09_corr.v — per-case functions of the C09 correspondence.
   The model is parametric in the digest H; instantiating H with the identity makes it return
   the pre-image itself, which is compared with the bytes whose digest (independent
   implementation of the configured algorithm) equals the implementation's reported value. *)
From TkModel Require Import Base Audit.
From TkSpec Require Import Audit_spec.

Definition c09_id (x : list N) : list N := x.

Definition c09_bits (agree spec_ok dom : bool) : N :=
  ((if agree then 1 else 0) + (if spec_ok then 2 else 0) + (if dom then 4 else 0))%N.

(* j: per transaction (journal order) the uuid text as written (None = no uuid line) and
      whether the filter selects the transaction (observed with audit mode off);
   o: what the implementation did in this run.
   bits: 1 model agrees, 2 observation satisfies the specification, 4 in domain (always) *)
Definition c09_case (audit : bool) (hash : list N) (j : list (option (list N) * bool)) (o : c09_obs) : N :=
  let supported := hash_supported hash in
  let raws := map fst j in
  let m := audit_pipeline c09_id audit j in
  let agree :=
    match o with
    | ObsConfigErr => negb supported
    | _ =>
        supported &&
        match m, o with
        | Err c, ObsLoadErr => N.eqb c E_audit_no_uuid || N.eqb c E_uuid_syntax
        | Err c, ObsSetErr => N.eqb c E_no_uuid || N.eqb c E_dup_uuid
        | Ok None, ObsNoChecksum => true
        | Ok (Some (n, pre)), ObsChecksum n' _ P => N.eqb n n' && list_eqb N.eqb pre P
        | _, _ => false
        end
    end in
  let reject := journal_must_be_rejected_b audit raws in
  let uuids := map (fun r => match r with Some s => uuid_parse s | None => None end) raws in
  let spec_ok :=
    match o with
    | ObsConfigErr => negb supported
    | ObsLoadErr => supported && reject
    | ObsNoChecksum => supported && negb reject && negb audit
    | _ => supported && negb reject && audit && observed_b (selected uuids (map snd j)) o
    end in
  c09_bits agree spec_ok true.

(* selector patterns are byte strings (UTF-8) *)
Definition c09_sel_case (audit equity : bool) (pats : list (list N)) (o : sel_obs) : N :=
  let m := report_selector_md c09_id audit equity pats in
  let agree :=
    match m, o with
    | SelNoItem, SObsNoItem => true
    | SelAll, SObsAll => true
    | SelAllNonZero, SObsAllNonZero => true
    | SelSum v, SObsSum _ P => list_eqb N.eqb v P
    | _, _ => false
    end in
  c09_bits agree (sel_observed_b audit equity pats o) true.

(* canonical text of a written uuid (None = not a valid uuid text); compared with the
   implementation's transaction dump *)
Definition c09_text_case (s impl : list N) : N :=
  let agree := match uuid_parse s with Some u => str_eqb (uuid_print u) impl | None => false end in
  c09_bits agree (valid_uuid_text_b s && str_eqb (lower_text s) impl) true.
