(* C02_corr.v — per-case comparison functions evaluated by the correspondence check. *)
From TkModel Require Import Base Dec Acct Balance.
From TkSpec Require Import Balance_spec.

Definition brow_repr_eqb (tree_by_value : bool) (a b : brow) : bool :=
  key_eqb (r_key a) (r_key b) && drepr_eqb (r_own a) (r_own b)
  && (if tree_by_value then deqb (r_tree a) (r_tree b) else drepr_eqb (r_tree a) (r_tree b)).

Definition delta_eqb (a b : str * dec) : bool := str_eqb (fst a) (fst b) && drepr_eqb (snd a) (snd b).

Definition by_comm (l : list (str * dec)) : list (str * dec) :=
  sort_by (fun a b => cmp_leb (str_cmp (fst a) (fst b))) l.

Definition sel_names (names : list acct) (r : brow) : bool :=
  match names with [] => true | _ => existsb (acct_eqb (r_acc r)) names end.

(* sufficient condition for "every intermediate and final sum is representable":
   the sum of the absolute values, at the largest scale that occurs, fits in 96 bits *)
Definition max_scale (ps : list bpost) : N := fold_right N.max 0%N (map (fun p => ds (bp_amt p)) ps).
Definition in_domain (ps : list bpost) : bool :=
  let s := max_scale ps in
  (N.leb s 28)
  && Z.ltb (zsum (map (fun p => Z.abs (rescale (bp_amt p) s)) ps)) (2 ^ 96)%Z.

(* result bits: 1 = model and implementation agree; 2 = implementation satisfies the
   specification; 4 = the case is inside the exact domain (no posting outside 96 bit / 28) *)
Definition c02_case (ps : list bpost) (names : list acct) (impl : option bal_report) : N :=
  let model := balance_report_det (fun _ => true) (sel_names names) ps in
  let agree :=
    match model, impl with
    | None, None => true
    | Some m, Some i =>
        list_eqb (brow_repr_eqb false) (b_rows m) (b_rows i)
        && list_eqb delta_eqb (by_comm (b_deltas m)) (by_comm (b_deltas i))
    | _, _ => false
    end in
  let spec_ok :=
    match impl with
    | None => false
    | Some i =>
        match names with
        | [] => report_all_ok ps i
        | _ => rows_ok ps (b_rows i) && deltas_ok (b_rows i) (b_deltas i)
               && forallb (fun r => sel_names names r) (b_rows i)
        end
    end in
  ((if agree then 1 else 0) + (if spec_ok then 2 else 0)
   + (if in_domain ps then 4 else 0))%N.

Definition c02_model (ps : list bpost) (names : list acct) : option bal_report :=
  balance_report_det (fun _ => true) (sel_names names) ps.
