From TkModel Require Import Base Dec Acct Txn.

Definition txn_id (t : txn) : N := hd 0%N (hd [] (h_comments (t_hdr t))).

Fixpoint distinct_headers (l : list txn) : bool :=
  match l with
  | [] => true
  | t :: l' => forallb (fun u => match header_cmp (t_hdr t) (t_hdr u) with Eq => false | _ => true end) l'
               && distinct_headers l'
  end.

(* file: transactions in file order, tagged with their index; impl: order of the
   implementation's transaction set. bit 1: model order = implementation order;
   bit 2: the distinctness claim of the generator holds for the parsed headers *)
Definition c04_case (file : list txn) (impl : list N) (claim_distinct : bool) : N :=
  ((if list_eqb N.eqb (map txn_id (sort_txns file)) impl then 1 else 0)
   + (if implb claim_distinct (distinct_headers file) then 2 else 0))%N.
