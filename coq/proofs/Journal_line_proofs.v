(* Journal_line_proofs.v — C06 stages 2 and 3: posting line, header line, metadata and comment lines. *)
From TkModel Require Import Base Dec Acct Txn Accept Journal.
From TkSpec Require Import Journal_spec.
From TkProofs Require Import Journal_base_proofs Journal_time_proofs.
Local Open Scope Z_scope.

(* ------------------------------------------------------------------ character classes *)
Ltac char_cases H :=
  repeat match goal with
         | |- context [(?c =? ?k)%N] =>
             destruct (N.eqb_spec c k) as [->|]; [vm_compute in H; discriminate|]
         end.

Lemma id_start_char c : id_start c = true -> id_char c = true.
Proof. intro H. unfold id_char. rewrite H. reflexivity. Qed.
Lemma id_char_not_sp c : id_char c = true -> is_sp c = false.
Proof. intro H. unfold is_sp. char_cases H. reflexivity. Qed.
Lemma id_char_not_colon c : id_char c = true -> (c =? 58)%N = false.
Proof. intro H. char_cases H. reflexivity. Qed.
Lemma id_char_not_comma c : id_char c = true -> (c =? 44)%N = false.
Proof. intro H. char_cases H. reflexivity. Qed.
Lemma id_char_no_eol c : id_char c = true -> negb ((c =? 10)%N || (c =? 13)%N) = true.
Proof. intro H. char_cases H. reflexivity. Qed.
Lemma id_start_not_hash c : id_start c = true -> (c =? 35)%N = false.
Proof. intro H. char_cases H. reflexivity. Qed.
Lemma id_start_not_semi c : id_start c = true -> (c =? 59)%N = false.
Proof. intro H. char_cases H. reflexivity. Qed.
Lemma dec_char_not_sp c : dec_char c = true -> is_sp c = false.
Proof. intro H. unfold is_sp. char_cases H. reflexivity. Qed.
Lemma dec_char_not_semi c : dec_char c = true -> (c =? 59)%N = false.
Proof. intro H. char_cases H. reflexivity. Qed.
Lemma dec_char_no_eol c : dec_char c = true -> negb ((c =? 10)%N || (c =? 13)%N) = true.
Proof. intro H. char_cases H. reflexivity. Qed.
Lemma code_char_not_close c : code_char c = true -> (c =? 41)%N = false.
Proof. intro H. char_cases H. reflexivity. Qed.
Lemma code_char_no_eol c : code_char c = true -> negb ((c =? 10)%N || (c =? 13)%N) = true.
Proof. intro H. char_cases H. reflexivity. Qed.
Lemma ts_char_no_eol c : ts_char c = true -> negb ((c =? 10)%N || (c =? 13)%N) = true.
Proof. intro H. char_cases H. reflexivity. Qed.
Lemma is_hex_no_eol c : is_hex c = true -> negb ((c =? 10)%N || (c =? 13)%N) = true.
Proof. intro H. char_cases H. reflexivity. Qed.

(* a piece of a line that is empty or starts with a blank *)
Definition sp_head (X : list N) : Prop := X = [] \/ exists X', X = 32%N :: X'.
Lemma sp_head_app A B : sp_head A -> sp_head B -> sp_head (A ++ B).
Proof. intros [->|[A' ->]] HB; [exact HB|]. right. eexists. reflexivity. Qed.
Lemma sp_head_num_stop X : sp_head X -> num_stop X = true.
Proof. intros [->|[X' ->]]; reflexivity. Qed.
Lemma sp_head_id_stop X : sp_head X -> stopb id_char X = true.
Proof. intros [->|[X' ->]]; reflexivity. Qed.
Lemma sp_head_name_stop X : sp_head X -> stopb (fun c => id_char c || (c =? 58)%N) X = true.
Proof. intros [->|[X' ->]]; reflexivity. Qed.

Lemma span_sp1 c r : is_sp c = false -> span is_sp (32%N :: c :: r) = ([32%N], c :: r).
Proof. intro H. cbn [span]. change (is_sp 32) with true. cbv iota. rewrite H. reflexivity. Qed.
Lemma span_sp0 c r : is_sp c = false -> span is_sp (c :: r) = ([], c :: r).
Proof. intro H. cbn [span]. rewrite H. reflexivity. Qed.
Lemma span_indent c r : is_sp c = false -> span is_sp (indent ++ c :: r) = (indent, c :: r).
Proof. intro H. apply span_app; [reflexivity|]. cbn [stopb]. rewrite H. reflexivity. Qed.

(* ------------------------------------------------------------------ identifiers and names *)
Lemma ident_ok_inv s : ident_ok s = true ->
  exists c r, s = c :: r /\ id_start c = true /\ forallb id_char s = true.
Proof.
  destruct s as [|c r]; [discriminate|]. cbn [ident_ok]. intro H. apply andb_true_iff in H as [H1 H2].
  exists c, r. repeat split; assumption.
Qed.

Lemma comm_ok_inv s : comm_ok s = true -> ident_ok s = true /\ comm_sem_ok s = true.
Proof. unfold comm_ok. intro H. apply andb_true_iff in H. exact H. Qed.

Lemma take_ident_app s rest : ident_ok s = true -> stopb id_char rest = true ->
  take_ident (s ++ rest) = Some (s, rest).
Proof.
  intros Hs Hr. destruct (ident_ok_inv s Hs) as (c & r & -> & Hc & Hall).
  unfold take_ident. cbn [app]. rewrite Hc.
  change (c :: r ++ rest) with ((c :: r) ++ rest). rewrite (span_app id_char _ _ Hall Hr). reflexivity.
Qed.

Lemma split_on_nosep sep a : forallb (fun c => negb (c =? sep)%N) a = true -> split_on sep a = [a].
Proof.
  induction a as [|c a IH]; [reflexivity|]. cbn [forallb split_on]. intro H.
  apply andb_true_iff in H as [Hc Ha]. apply negb_true_iff in Hc. rewrite Hc, (IH Ha). reflexivity.
Qed.
Lemma split_on_app sep a b : forallb (fun c => negb (c =? sep)%N) a = true ->
  split_on sep (a ++ sep :: b) = a :: split_on sep b.
Proof.
  induction a as [|c a IH]; cbn [forallb app split_on]; intro H.
  - rewrite N.eqb_refl. reflexivity.
  - apply andb_true_iff in H as [Hc Ha]. apply negb_true_iff in Hc. rewrite Hc, (IH Ha). reflexivity.
Qed.

Definition comp_ok (p : list N) : bool := negb (is_nil p) && forallb id_char p.

Lemma comp_nosep p : comp_ok p = true -> forallb (fun c => negb (c =? 58)%N) p = true.
Proof.
  unfold comp_ok. intro H. apply andb_true_iff in H as [_ H]. revert H. apply forallb_impl.
  intros c Hc. rewrite (id_char_not_colon c Hc). reflexivity.
Qed.

Lemma split_join_colon comps : comps <> [] -> forallb comp_ok comps = true ->
  split_on 58 (join_colon comps) = comps.
Proof.
  induction comps as [|p comps IH]; [congruence|]. intros _ H. cbn [forallb] in H.
  apply andb_true_iff in H as [Hp Hc].
  destruct comps as [|q comps'].
  - cbn [join_colon]. apply split_on_nosep, comp_nosep, Hp.
  - change (join_colon (p :: q :: comps')) with (p ++ colon :: join_colon (q :: comps')).
    unfold colon. rewrite (split_on_app 58 p _ (comp_nosep p Hp)). f_equal. apply IH; [discriminate|exact Hc].
Qed.

Lemma join_colon_chars comps : forallb comp_ok comps = true ->
  forallb (fun c => id_char c || (c =? 58)%N) (join_colon comps) = true.
Proof.
  induction comps as [|p comps IH]; [reflexivity|]. cbn [forallb]. intro H.
  apply andb_true_iff in H as [Hp Hc].
  assert (Hp' : forallb (fun c => id_char c || (c =? 58)%N) p = true).
  { unfold comp_ok in Hp. apply andb_true_iff in Hp as [_ Hp]. revert Hp. apply forallb_impl.
    intros c ->. reflexivity. }
  destruct comps as [|q comps']; [exact Hp'|].
  change (join_colon (p :: q :: comps')) with (p ++ colon :: join_colon (q :: comps')).
  rewrite forallb_app, Hp'. cbn [forallb]. rewrite (IH Hc). reflexivity.
Qed.

Lemma name_ok_inv comps : name_ok comps = true ->
  exists c r comps', comps = (c :: r) :: comps' /\ id_start c = true /\ forallb comp_ok comps = true.
Proof.
  destruct comps as [|[|c r] comps']; try discriminate. cbn [name_ok]. intro H.
  apply andb_true_iff in H as [H1 H2]. exists c, r, comps'. repeat split; assumption.
Qed.

Lemma take_name_app comps rest : name_ok comps = true ->
  stopb (fun c => id_char c || (c =? 58)%N) rest = true ->
  take_name (join_colon comps ++ rest) = Some (comps, rest).
Proof.
  intros Hn Hr. destruct (name_ok_inv comps Hn) as (c & r & comps' & E & Hc & Hall).
  unfold take_name. rewrite (span_app _ _ _ (join_colon_chars comps Hall) Hr).
  assert (Hne0 : comps <> []) by (rewrite E; discriminate).
  rewrite (split_join_colon comps Hne0 Hall).
  assert (Hne : forallb (fun p => negb (is_nil p)) comps = true).
  { revert Hall. apply forallb_impl. intros p Hp. unfold comp_ok in Hp. apply andb_true_iff in Hp as [Hp _]. exact Hp. }
  subst comps. rewrite Hc, Hne. reflexivity.
Qed.

Lemma join_colon_head comps : name_ok comps = true ->
  exists c r, join_colon comps = c :: r /\ id_start c = true.
Proof.
  intro Hn. destruct (name_ok_inv comps Hn) as (c & r & comps' & -> & Hc & _).
  destruct comps' as [|q comps'']; cbn [join_colon app]; eexists _, _; (split; [reflexivity|exact Hc]).
Qed.

Lemma join_colon_no_eol comps : name_ok comps = true -> no_eol (join_colon comps) = true.
Proof.
  intro Hn. destruct (name_ok_inv comps Hn) as (c & r & comps' & _ & _ & Hall).
  pose proof (join_colon_chars comps Hall) as H. revert H. apply forallb_impl.
  intros x Hx. apply orb_true_iff in Hx as [Hx|Hx]; [apply id_char_no_eol, Hx|].
  apply N.eqb_eq in Hx. subst. reflexivity.
Qed.

Lemma ident_no_eol s : ident_ok s = true -> no_eol s = true.
Proof.
  intro H. destruct (ident_ok_inv s H) as (c & r & _ & _ & Hall). revert Hall. apply forallb_impl.
  intros x Hx. apply id_char_no_eol, Hx.
Qed.

(* ------------------------------------------------------------------ comment part of a line *)
Definition cpart (oc : option (list N)) : list N :=
  match oc with Some c => [32; 59; 32]%N ++ c | None => [] end.
Lemma cpart_sp_head oc : sp_head (cpart oc).
Proof. destruct oc; [right; eexists; reflexivity|left; reflexivity]. Qed.
Lemma take_comment_cpart oc : take_comment (snd (span is_sp (cpart oc))) = Some oc.
Proof. destruct oc as [c|]; [|reflexivity]. cbn [cpart app]. rewrite span_sp1 by reflexivity. reflexivity. Qed.

(* ------------------------------------------------------------------ value positions *)
Lemma take_opening_skip X :
  (X = [] \/ exists c r, X = 32%N :: c :: r /\ is_sp c = false /\ (c =? 123)%N = false) ->
  take_opening X = Some (None, X).
Proof.
  intros [->|(c & r & -> & Hsp & Hc)]; [reflexivity|].
  unfold take_opening. rewrite (span_sp1 c r Hsp). rewrite Hc. rewrite andb_false_r. reflexivity.
Qed.
Lemma take_closing_skip X :
  (X = [] \/ exists c r, X = 32%N :: c :: r /\ is_sp c = false /\ (c =? 64)%N = false /\ (c =? 61)%N = false) ->
  take_closing X = Some (None, X).
Proof.
  intros [->|(c & r & -> & Hsp & Hc & Hc')]; [reflexivity|].
  unfold take_closing. rewrite (span_sp1 c r Hsp). rewrite Hc, Hc'. rewrite andb_false_r. reflexivity.
Qed.

Lemma print_dec_app_head d X : exists c r, print_dec d ++ X = c :: r /\ dec_char c = true.
Proof. destruct (print_dec_head d) as (c & r & -> & Hc). eexists _, _. split; [reflexivity|exact Hc]. Qed.

Lemma take_closing_price (k : N) v tc C :
  ((k =? 64)%N || (k =? 61)%N = true) -> fits v = true -> ident_ok tc = true -> sp_head C ->
  take_closing ([32; k; 32]%N ++ print_dec v ++ 32%N :: tc ++ C)
  = Some (Some (if (k =? 64)%N then UnitPrice else TotalPrice, v, tc), C).
Proof.
  intros Hk Hv Htc HC. unfold take_closing. cbn [app].
  assert (Hksp : is_sp k = false).
  { apply orb_true_iff in Hk as [Hk|Hk]; apply N.eqb_eq in Hk; subst; reflexivity. }
  rewrite (span_sp1 k _ Hksp). rewrite Hk. cbn [is_nil negb andb].
  destruct (print_dec_app_head v (32%N :: tc ++ C)) as (c0 & r0 & E & Hc0).
  rewrite E. rewrite (span_sp1 c0 r0 (dec_char_not_sp _ Hc0)). cbn [is_nil]. rewrite <- E.
  rewrite (dec_roundtrip v (32%N :: tc ++ C) Hv eq_refl).
  destruct (ident_ok_inv tc Htc) as (t0 & tr & Et & Ht0 & _).
  rewrite Et. cbn [app]. rewrite (span_sp1 t0 _ (id_char_not_sp _ (id_start_char _ Ht0))). cbn [is_nil].
  change (t0 :: tr ++ C) with ((t0 :: tr) ++ C). rewrite <- Et.
  rewrite (take_ident_app tc C Htc (sp_head_id_stop _ HC)). reflexivity.
Qed.

(* ------------------------------------------------------------------ the posting line *)
Definition price_part (p : posting) : list N :=
  if is_nil (p_txn_comm p) then []
  else if str_eqb (p_txn_comm p) (p_comm p) then []
  else if p_total p then [32; 61; 32]%N ++ print_dec (p_txn_amount p) ++ 32%N :: p_txn_comm p
  else [32; 64; 32]%N
       ++ match ddiv (p_txn_amount p) (p_amount p) with Some q => print_dec q | None => [63%N] end
       ++ 32%N :: p_txn_comm p.

Lemma print_posting_eq jp :
  print_posting jp =
  join_colon (p_acc (jp_p jp)) ++ [32; 32]%N ++ (if is_neg (p_amount (jp_p jp)) then [] else [32%N])
  ++ print_dec (p_amount (jp_p jp))
  ++ (if is_nil (p_comm (jp_p jp)) then [] else 32%N :: p_comm (jp_p jp))
  ++ price_part (jp_p jp) ++ cpart (jp_comment jp).
Proof. reflexivity. Qed.

Lemma str_eqb_true a b : str_eqb a b = true -> a = b.
Proof.
  revert b. induction a as [|x a IH]; intros [|y b]; cbn [str_eqb]; try discriminate; [reflexivity|].
  intro H. apply andb_true_iff in H as [H1 H2]. apply N.eqb_eq in H1. subst. f_equal. apply IH, H2.
Qed.
Lemma str_eqb_same a : str_eqb a a = true.
Proof. induction a as [|x a IH]; cbn [str_eqb]; [reflexivity|]. rewrite N.eqb_refl, IH. reflexivity. Qed.
Lemma drepr_eqb_true a b : drepr_eqb a b = true -> a = b.
Proof.
  unfold drepr_eqb. intro H. apply andb_true_iff in H as [H1 H2].
  apply Z.eqb_eq in H1. apply N.eqb_eq in H2. destruct a, b; cbn in *; subst; reflexivity.
Qed.

Lemma take_value_plain amt C : fits amt = true ->
  (C = [] \/ exists c r, C = 32%N :: c :: r /\ is_sp c = false /\ id_start c = false) ->
  take_value (print_dec amt ++ C) = Some (amt, None, C).
Proof.
  intros Hf HC. unfold take_value.
  assert (Hs : num_stop C = true) by (destruct HC as [->|(c & r & -> & _)]; reflexivity).
  rewrite (dec_roundtrip amt C Hf Hs).
  destruct HC as [->|(c & r & -> & Hsp & Hid)]; [reflexivity|].
  rewrite (span_sp1 c r Hsp). cbn [is_nil]. unfold take_ident. rewrite Hid. reflexivity.
Qed.

Lemma take_value_unit amt cm R op R1 cl R' : fits amt = true -> ident_ok cm = true -> sp_head R ->
  take_opening R = Some (op, R1) -> take_closing R1 = Some (cl, R') ->
  take_value (print_dec amt ++ 32%N :: cm ++ R) = Some (amt, Some (mkUnit cm op cl), R').
Proof.
  intros Hf Hcm HR Hop Hcl. unfold take_value.
  rewrite (dec_roundtrip amt (32%N :: cm ++ R) Hf eq_refl).
  destruct (ident_ok_inv cm Hcm) as (c0 & r0 & E & Hc0 & _).
  rewrite E. cbn [app]. rewrite (span_sp1 c0 _ (id_char_not_sp _ (id_start_char _ Hc0))). cbn [is_nil].
  change (c0 :: r0 ++ R) with ((c0 :: r0) ++ R). rewrite <- E.
  rewrite (take_ident_app cm R Hcm (sp_head_id_stop _ HR)). rewrite Hop, Hcl. reflexivity.
Qed.

Definition unit_tail (p : posting) : list N :=
  (if is_nil (p_comm p) then [] else 32%N :: p_comm p) ++ price_part p.

Lemma cpart_skip_open oc :
  cpart oc = [] \/ exists c r, cpart oc = 32%N :: c :: r /\ is_sp c = false /\ (c =? 123)%N = false.
Proof. destruct oc; [right; eexists _, _; repeat split; reflexivity|left; reflexivity]. Qed.
Lemma cpart_skip_close oc :
  cpart oc = [] \/ exists c r, cpart oc = 32%N :: c :: r /\ is_sp c = false /\ (c =? 64)%N = false /\ (c =? 61)%N = false.
Proof. destruct oc; [right; eexists _, _; repeat split; reflexivity|left; reflexivity]. Qed.
Lemma cpart_plain oc :
  cpart oc = [] \/ exists c r, cpart oc = 32%N :: c :: r /\ is_sp c = false /\ id_start c = false.
Proof. destruct oc; [right; eexists _, _; repeat split; reflexivity|left; reflexivity]. Qed.

Lemma take_value_posting p oc : posting_shape_b p = true -> posting_price_b p = true ->
  take_value (print_dec (p_amount p) ++ unit_tail p ++ cpart oc)
  = Some (p_amount p, rp_unit (jpost_raw (mkJPost p oc)), cpart oc).
Proof.
  intros Hshape Hprice.
  unfold posting_shape_b in Hshape. repeat (apply andb_true_iff in Hshape; destruct Hshape as [Hshape ?]).
  rename H into Hcomm. rename H1 into Hfits.
  unfold posting_price_b in Hprice. unfold unit_tail, price_part, jpost_raw. cbn [jp_p rp_unit].
  destruct (str_eqb (p_txn_comm p) (p_comm p)) eqn:Eeq.
  - (* no closing price *)
    assert (Hpp : (if is_nil (p_txn_comm p) then [] else @nil N) = []) by (destruct (is_nil (p_txn_comm p)); reflexivity).
    rewrite Hpp, app_nil_r, orb_true_r.
    destruct (is_nil (p_comm p)) eqn:Enil.
    + cbn [app]. apply take_value_plain; [exact Hfits|apply cpart_plain].
    + cbn [orb] in Hcomm. cbn [app]. destruct (comm_ok_inv _ Hcomm) as [Hcomm' _].
      apply (take_value_unit _ _ _ None (cpart oc) None (cpart oc) Hfits Hcomm' (cpart_sp_head oc)).
      * apply take_opening_skip, cpart_skip_open.
      * apply take_closing_skip, cpart_skip_close.
  - apply andb_true_iff in Hprice as [Hprice Hkind]. apply andb_true_iff in Hprice as [Hprice Hfta].
    apply andb_true_iff in Hprice as [Hc1 Hc2].
    apply comm_ok_inv in Hc1 as [Hc1 _]. apply comm_ok_inv in Hc2 as [Hc2 _].
    destruct (ident_ok_inv _ Hc1) as (a0 & ar & Ea & _ & _).
    destruct (ident_ok_inv _ Hc2) as (b0 & br & Eb & _ & _).
    assert (Hn1 : is_nil (p_comm p) = false) by (rewrite Ea; reflexivity).
    assert (Hn2 : is_nil (p_txn_comm p) = false) by (rewrite Eb; reflexivity).
    rewrite Hn1, Hn2. cbn [orb]. rewrite <- !app_assoc. cbn [app].
    destruct (p_total p) eqn:Etot.
    + change (32%N :: 61%N :: 32%N :: print_dec (p_txn_amount p) ++ (32%N :: p_txn_comm p) ++ cpart oc)
        with ([32; 61; 32]%N ++ print_dec (p_txn_amount p) ++ (32%N :: p_txn_comm p) ++ cpart oc).
      eapply (take_value_unit _ _ _ None _ _ (cpart oc) Hfits Hc1).
      * right. eexists. reflexivity.
      * apply take_opening_skip. right. eexists _, _. repeat split; reflexivity.
      * cbn [app]. rewrite <- app_assoc. cbn [app]. exact (take_closing_price 61 _ _ _ eq_refl Hfta Hc2 (cpart_sp_head oc)).
    + unfold unit_priced_b in Hkind. destruct (ddiv (p_txn_amount p) (p_amount p)) as [q|] eqn:Ediv; [|discriminate].
      apply andb_true_iff in Hkind as [Hkind _]. apply andb_true_iff in Hkind as [_ Hfq].
      change (32%N :: 64%N :: 32%N :: print_dec q ++ (32%N :: p_txn_comm p) ++ cpart oc)
        with ([32; 64; 32]%N ++ print_dec q ++ (32%N :: p_txn_comm p) ++ cpart oc).
      eapply (take_value_unit _ _ _ None _ _ (cpart oc) Hfits Hc1).
      * right. eexists. reflexivity.
      * apply take_opening_skip. right. eexists _, _. repeat split; reflexivity.
      * cbn [app]. rewrite <- app_assoc. cbn [app]. exact (take_closing_price 64 _ _ _ eq_refl Hfq Hc2 (cpart_sp_head oc)).
Qed.

Lemma unit_sem_ok_raw p oc : posting_shape_b p = true -> posting_price_b p = true ->
  unit_sem_ok (rp_unit (jpost_raw (mkJPost p oc))) = true.
Proof.
  intros Hshape Hprice. unfold posting_shape_b in Hshape. apply andb_true_iff in Hshape as [_ Hcomm].
  unfold posting_price_b in Hprice. unfold jpost_raw. cbn [jp_p rp_unit].
  destruct (is_nil (p_comm p)) eqn:Enil; [reflexivity|]. cbn [orb] in Hcomm.
  destruct (comm_ok_inv _ Hcomm) as [_ Hs]. cbn [unit_sem_ok u_comm u_closing]. rewrite Hs. cbn [andb].
  destruct (str_eqb (p_txn_comm p) (p_comm p)) eqn:Eeq; [rewrite orb_true_r; reflexivity|].
  apply andb_true_iff in Hprice as [Hprice _]. apply andb_true_iff in Hprice as [Hprice _].
  apply andb_true_iff in Hprice as [_ Hc2]. destruct (comm_ok_inv _ Hc2) as [_ Hs2].
  destruct (is_nil (p_txn_comm p)); [reflexivity|]. cbn [orb].
  destruct (p_total p); [exact Hs2|]. destruct (ddiv _ _); [exact Hs2|reflexivity].
Qed.

Lemma unit_tail_sp_head p : sp_head (unit_tail p).
Proof.
  unfold unit_tail, price_part. destruct (is_nil (p_comm p)); [|right; eexists; reflexivity].
  cbn [app]. destruct (is_nil _); [left; reflexivity|]. destruct (str_eqb _ _); [left; reflexivity|].
  destruct (p_total p); right; eexists; reflexivity.
Qed.

(* STAGE 2: the printed posting line parses back to its syntax *)
Theorem posting_line_roundtrip jp : jpost_wf jp = true ->
  parse_posting_line (indent ++ print_posting jp) = Some (PL_post (jpost_raw jp) (jp_comment jp)).
Proof.
  intro Hwf. unfold jpost_wf in Hwf. apply andb_true_iff in Hwf as [Hwf _].
  apply andb_true_iff in Hwf as [Hshape Hprice].
  pose proof (take_value_posting (jp_p jp) (jp_comment jp) Hshape Hprice) as Hval.
  pose proof Hshape as Hshape'.
  unfold posting_shape_b in Hshape'. repeat (apply andb_true_iff in Hshape'; destruct Hshape' as [Hshape' ?]).
  rename Hshape' into Hname. rename H2 into Hsem.
  rewrite print_posting_eq.
  destruct (join_colon_head _ Hname) as (c0 & r0 & E0 & Hc0).
  unfold parse_posting_line.
  set (after := [32; 32]%N ++ (if is_neg (p_amount (jp_p jp)) then [] else [32%N]) ++ print_dec (p_amount (jp_p jp))
                ++ (if is_nil (p_comm (jp_p jp)) then [] else 32%N :: p_comm (jp_p jp))
                ++ price_part (jp_p jp) ++ cpart (jp_comment jp)).
  rewrite E0. cbn [app]. rewrite (span_indent c0 _ (id_char_not_sp _ (id_start_char _ Hc0))).
  change (is_nil indent) with false. cbv iota.
  change (c0 :: r0 ++ after) with ((c0 :: r0) ++ after). rewrite <- E0.
  assert (Hafter_stop : stopb (fun c => id_char c || (c =? 58)%N) after = true) by reflexivity.
  rewrite (take_name_app _ _ Hname Hafter_stop). rewrite Hsem. cbn [negb].
  (* blanks, then the amount *)
  set (tail := unit_tail (jp_p jp) ++ cpart (jp_comment jp)).
  assert (Hafter : exists sp, sp <> [] /\ span is_sp after = (sp, print_dec (p_amount (jp_p jp)) ++ tail)).
  { destruct (print_dec_app_head (p_amount (jp_p jp)) tail) as (d0 & dr & Ed & Hd0).
    unfold after, tail, unit_tail. rewrite <- !app_assoc.
    destruct (is_neg _).
    - exists [32; 32]%N. split; [discriminate|]. cbn [app].
      unfold tail, unit_tail in Ed. rewrite <- !app_assoc in Ed. rewrite Ed.
      apply (span_app is_sp [32; 32]%N); [reflexivity|]. cbn [stopb]. rewrite (dec_char_not_sp _ Hd0). reflexivity.
    - exists [32; 32; 32]%N. split; [discriminate|]. cbn [app].
      unfold tail, unit_tail in Ed. rewrite <- !app_assoc in Ed. rewrite Ed.
      apply (span_app is_sp [32; 32; 32]%N); [reflexivity|]. cbn [stopb]. rewrite (dec_char_not_sp _ Hd0). reflexivity. }
  destruct Hafter as (sp & Hsp & Espan). rewrite Espan.
  destruct (print_dec_app_head (p_amount (jp_p jp)) tail) as (d0 & dr & Ed & Hd0).
  rewrite Ed. rewrite (dec_char_not_semi _ Hd0).
  destruct sp as [|s0 sp']; [congruence|]. cbn [is_nil]. rewrite <- Ed.
  unfold tail. rewrite Hval. rewrite (unit_sem_ok_raw _ (jp_comment jp) Hshape Hprice). cbn [negb].
  rewrite take_comment_cpart.
  unfold jpost_raw. reflexivity.
Qed.
