(* Journal_base_proofs.v — C06 stage 1: strings, digits, the decimal literal round trip. *)
From TkModel Require Import Base Dec Acct Txn Accept Journal.
From TkSpec Require Import Journal_spec.
Local Open Scope Z_scope.

(* ------------------------------------------------------------------ span / stop *)
Definition stopb (p : N -> bool) (r : list N) : bool :=
  match r with [] => true | c :: _ => negb (p c) end.

Lemma span_app p a r : forallb p a = true -> stopb p r = true -> span p (a ++ r) = (a, r).
Proof.
  induction a as [|c a IH]; cbn [app forallb]; intros Ha Hr.
  - destruct r as [|x r]; cbn [span]; [reflexivity|]. cbn [stopb] in Hr.
    destruct (p x); [discriminate|reflexivity].
  - apply andb_true_iff in Ha as [Hc Ha]. cbn [span]. rewrite Hc, (IH Ha Hr). reflexivity.
Qed.

Lemma span_stop p r : stopb p r = true -> span p r = ([], r).
Proof. intro H. exact (span_app p [] r eq_refl H). Qed.

Lemma span_all p a : forallb p a = true -> span p a = (a, []).
Proof. intro H. rewrite <- (app_nil_r a) at 1. apply span_app; [exact H|reflexivity]. Qed.

Lemma forallb_impl {A} (p q : A -> bool) l :
  (forall x, p x = true -> q x = true) -> forallb p l = true -> forallb q l = true.
Proof.
  intros Hpq. induction l as [|x l IH]; cbn [forallb]; [reflexivity|].
  intro H. apply andb_true_iff in H as [Hx Hl]. rewrite (Hpq _ Hx), (IH Hl). reflexivity.
Qed.

Lemma forallb_repeat {A} (p : A -> bool) x n : p x = true -> forallb p (repeat x n) = true.
Proof. intro H. induction n; cbn [repeat forallb]; [reflexivity|]. rewrite H, IHn. reflexivity. Qed.

Lemma forallb_firstn {A} (p : A -> bool) n l : forallb p l = true -> forallb p (firstn n l) = true.
Proof.
  revert l. induction n; intros [|x l]; cbn [firstn forallb]; try reflexivity.
  intro H. apply andb_true_iff in H as [Hx Hl]. rewrite Hx, (IHn _ Hl). reflexivity.
Qed.
Lemma forallb_skipn {A} (p : A -> bool) n l : forallb p l = true -> forallb p (skipn n l) = true.
Proof.
  revert l. induction n; intros [|x l]; cbn [skipn forallb]; try reflexivity; try (intro H; exact H).
  intro H. apply andb_true_iff in H as [Hx Hl]. exact (IHn _ Hl).
Qed.
Lemma forallb_rev {A} (p : A -> bool) l : forallb p (rev l) = forallb p l.
Proof.
  induction l as [|x l IH]; cbn [rev forallb]; [reflexivity|].
  rewrite forallb_app, IH. cbn [forallb]. rewrite andb_true_r. apply andb_comm.
Qed.

Lemma take_prefix_app p r : take_prefix p (p ++ r) = Some r.
Proof. induction p as [|c p IH]; cbn [take_prefix app]; [reflexivity|]. rewrite N.eqb_refl. exact IH. Qed.

(* drop_while / trims on strings whose ends are not in the class *)
Lemma drop_while_stop p s : stopb p s = true -> drop_while p s = s.
Proof. destruct s as [|c s]; cbn [drop_while stopb]; [reflexivity|]. destruct (p c); [discriminate|reflexivity]. Qed.

Lemma trim_end_fix_iff s : trim_end s = s <-> stopb is_ws (rev s) = true.
Proof.
  unfold trim_end. split.
  - intro H. destruct (rev s) as [|c r] eqn:E; [reflexivity|].
    cbn [stopb]. cbn [drop_while] in H. destruct (is_ws c) eqn:Ec; [|reflexivity].
    exfalso. assert (Hl : (length (drop_while is_ws r) <= length r)%nat).
    { clear. induction r as [|x r IH]; cbn [drop_while length]; [lia|]. destruct (is_ws x); cbn [length]; lia. }
    apply (f_equal (@length N)) in H. rewrite rev_length in H.
    assert (length s = S (length r)) by (rewrite <- (rev_length s), E; reflexivity). lia.
  - intro H. rewrite (drop_while_stop _ _ H). apply rev_involutive.
Qed.

(* ------------------------------------------------------------------ digits *)
Lemma digs_val_app acc a b : digs_val acc (a ++ b) = digs_val (digs_val acc a) b.
Proof. revert acc. induction a as [|c a IH]; intro acc; cbn [app digs_val]; [reflexivity|]. apply IH. Qed.

Lemma digs_val_zeros acc k : digs_val acc (repeat 48%N k) = (acc * 10 ^ N.of_nat k)%N.
Proof.
  revert acc. induction k as [|k IH]; intro acc.
  - cbn [repeat digs_val]. change (N.of_nat 0) with 0%N. rewrite N.pow_0_r. lia.
  - cbn [repeat digs_val]. rewrite IH. rewrite Nat2N.inj_succ, N.pow_succ_r'. change (48 - 48)%N with 0%N. nia.
Qed.

Lemma digs_val_lead0 k s : digs_val 0 (repeat 48%N k ++ s) = digs_val 0 s.
Proof. rewrite digs_val_app, digs_val_zeros. reflexivity. Qed.

Lemma digits_fuel_acc f : forall n acc, digits_fuel f n acc = digits_fuel f n [] ++ acc.
Proof.
  induction f as [|f IH]; intros n acc; cbn [digits_fuel]; [reflexivity|].
  destruct (n =? 0)%N; [reflexivity|].
  rewrite (IH _ (_ :: acc)), (IH _ [_]). rewrite <- app_assoc. reflexivity.
Qed.

Lemma digit_of_mod n : is_digit (48 + n mod 10)%N = true /\ (48 + n mod 10 - 48 = n mod 10)%N.
Proof.
  assert (H : (n mod 10 < 10)%N) by (apply N.mod_lt; discriminate).
  generalize dependent (n mod 10)%N. intros r H.
  unfold is_digit, in_rng. split; [|lia].
  apply andb_true_iff. split; apply N.leb_le; lia.
Qed.

Lemma digits_fuel_spec f : forall n, (n < 2 ^ N.of_nat f)%N ->
  digs_val 0 (digits_fuel f n []) = n /\ forallb is_digit (digits_fuel f n []) = true.
Proof.
  induction f as [|f IH]; intros n Hn.
  - change (N.of_nat 0) with 0%N in Hn. rewrite N.pow_0_r in Hn.
    assert (n = 0%N) by lia. subst. cbn. split; reflexivity.
  - cbn [digits_fuel]. destruct (N.eqb_spec n 0) as [->|Hz]; [split; reflexivity|].
    rewrite digits_fuel_acc.
    assert (Hd : (n / 10 < 2 ^ N.of_nat f)%N).
    { rewrite Nat2N.inj_succ, N.pow_succ_r' in Hn.
      apply N.div_lt_upper_bound; [discriminate|]. lia. }
    destruct (IH _ Hd) as [Hv Hf]. destruct (digit_of_mod n) as [Hdig Hsub].
    split.
    + rewrite digs_val_app, Hv. cbn [digs_val]. rewrite Hsub.
      pose proof (N.div_mod n 10 ltac:(discriminate)). lia.
    + rewrite forallb_app, Hf. cbn [forallb]. rewrite Hdig. reflexivity.
Qed.

Lemma digits_N_spec n : digs_val 0 (digits_N n) = n /\ forallb is_digit (digits_N n) = true.
Proof.
  unfold digits_N. apply digits_fuel_spec. rewrite N2Nat.id. apply N.size_gt.
Qed.

(* number of digits: n < 10^k -> at most k digits *)
Lemma digits_fuel_len f : forall n k, (n < 10 ^ N.of_nat k)%N -> (length (digits_fuel f n []) <= k)%nat.
Proof.
  induction f as [|f IH]; intros n k Hn; cbn [digits_fuel]; [cbn; lia|].
  destruct (N.eqb_spec n 0) as [->|Hz]; [cbn; lia|].
  rewrite digits_fuel_acc, app_length. cbn [length].
  destruct k as [|k].
  - change (N.of_nat 0) with 0%N in Hn. rewrite N.pow_0_r in Hn. lia.
  - assert (n / 10 < 10 ^ N.of_nat k)%N.
    { rewrite Nat2N.inj_succ, N.pow_succ_r' in Hn. apply N.div_lt_upper_bound; [discriminate|]. lia. }
    specialize (IH _ _ H). lia.
Qed.

Lemma pad_left_spec w s : forallb is_digit s = true ->
  digs_val 0 (pad_left w s) = digs_val 0 s /\ forallb is_digit (pad_left w s) = true
  /\ (w <= length (pad_left w s))%nat /\ ((length s <= w)%nat -> length (pad_left w s) = w).
Proof.
  intro H. unfold pad_left. rewrite digs_val_lead0, forallb_app, H, forallb_repeat by reflexivity.
  rewrite app_length, repeat_length. repeat split; lia.
Qed.

(* fixed-width fields *)
Lemma pad_num_spec w z : 0 <= z < 10 ^ Z.of_nat w ->
  length (pad_num w z) = w /\ forallb is_digit (pad_num w z) = true /\ Z.of_N (digs_val 0 (pad_num w z)) = z.
Proof.
  intros [H0 H1]. unfold pad_num. destruct (digits_N_spec (Z.to_N z)) as [Hv Hd].
  destruct (pad_left_spec w _ Hd) as (Hv' & Hd' & _ & Hlen).
  assert (Hl : (length (digits_N (Z.to_N z)) <= w)%nat).
  { unfold digits_N. apply digits_fuel_len.
    apply N2Z.inj_lt. rewrite Z2N.id by lia. rewrite N2Z.inj_pow. rewrite nat_N_Z. exact H1. }
  repeat split; [exact (Hlen Hl)|exact Hd'|]. rewrite Hv', Hv. apply Z2N.id. lia.
Qed.

Lemma firstn_app_len {A} (a r : list A) : firstn (length a) (a ++ r) = a.
Proof. rewrite firstn_app, Nat.sub_diag, firstn_all. cbn [firstn]. apply app_nil_r. Qed.
Lemma skipn_app_len {A} (a r : list A) : skipn (length a) (a ++ r) = r.
Proof. rewrite skipn_app, Nat.sub_diag, skipn_all. reflexivity. Qed.

Lemma take_digits_app w a rest : length a = w -> forallb is_digit a = true ->
  take_digits w (a ++ rest) = Some (Z.of_N (digs_val 0 a), rest).
Proof.
  intros <- Hd. unfold take_digits. rewrite firstn_app_len, skipn_app_len, Nat.eqb_refl, Hd. reflexivity.
Qed.

Lemma take_digits_pad w z rest : 0 <= z < 10 ^ Z.of_nat w ->
  take_digits w (pad_num w z ++ rest) = Some (z, rest).
Proof.
  intro H. destruct (pad_num_spec w z H) as (Hl & Hd & Hv).
  rewrite (take_digits_app w _ rest Hl Hd), Hv. reflexivity.
Qed.

(* ------------------------------------------------------------------ decimal literal *)
(* what may follow a number: end of text, or neither a digit nor '.' *)
Definition num_stop (r : list N) : bool :=
  match r with [] => true | c :: _ => negb (is_digit c) && negb (c =? 46)%N end.

Lemma num_stop_digit r : num_stop r = true -> stopb is_digit r = true.
Proof. destruct r as [|c r]; cbn; [reflexivity|]. intro H. apply andb_true_iff in H as [H _]. exact H. Qed.

Lemma dec_digits_spec d :
  let sc := N.to_nat (ds d) in
  let dg := pad_left (sc + 1) (digits_N (Z.abs_N (dm d))) in
  let k := (length dg - sc)%nat in
  forallb is_digit (firstn k dg) = true /\ forallb is_digit (skipn k dg) = true
  /\ firstn k dg <> [] /\ length (skipn k dg) = sc
  /\ digs_val 0 (firstn k dg ++ skipn k dg) = Z.abs_N (dm d).
Proof.
  intros sc dg k. destruct (digits_N_spec (Z.abs_N (dm d))) as [Hv Hd].
  destruct (pad_left_spec (sc + 1) _ Hd) as (Hv' & Hd' & Hlen & _). fold dg in Hv', Hd', Hlen.
  repeat split.
  - apply forallb_firstn, Hd'.
  - apply forallb_skipn, Hd'.
  - intro E. apply (f_equal (@length N)) in E. rewrite firstn_length in E. cbn [length] in E. subst k. lia.
  - rewrite skipn_length. subst k. lia.
  - rewrite firstn_skipn, Hv', Hv. reflexivity.
Qed.

Lemma fits_bounds d : fits d = true -> Z.abs (dm d) < 2 ^ 96 /\ (ds d <= 28)%N.
Proof.
  unfold fits. intro H. apply andb_true_iff in H as [H1 H2].
  split; [apply Z.ltb_lt, H1|apply N.leb_le, H2].
Qed.

Theorem dec_roundtrip d rest :
  fits d = true -> num_stop rest = true -> take_number (print_dec d ++ rest) = Some (d, rest).
Proof.
  intros Hf Hs. destruct (fits_bounds d Hf) as [Hm Hsc].
  pose proof (dec_digits_spec d) as H. cbv zeta in H.
  unfold print_dec.
  set (sc := N.to_nat (ds d)) in *.
  set (dg := pad_left (sc + 1) (digits_N (Z.abs_N (dm d)))) in *.
  set (k := (length dg - sc)%nat) in *.
  destruct H as (Hip & Hfp & Hne & Hlen & Hval).
  set (ip := firstn k dg) in *. set (fp := skipn k dg) in *.
  assert (Hip1 : exists c ip', ip = c :: ip' /\ is_digit c = true).
  { destruct ip as [|c ip'] eqn:E; [congruence|]. exists c, ip'. split; [reflexivity|].
    cbn [forallb] in Hip. apply andb_true_iff in Hip as [Hc _]. exact Hc. }
  destruct Hip1 as (c0 & ip' & Eip & Hc0).
  assert (Hc45 : (c0 =? 45)%N = false).
  { destruct (N.eqb_spec c0 45) as [->|]; [vm_compute in Hc0; discriminate|reflexivity]. }
  (* the text after the optional sign *)
  set (body := ip ++ (if (sc =? 0)%nat then [] else 46%N :: fp) ++ rest).
  assert (Hbody : forall neg : bool, take_number_body neg body
    = Some (mkDec (if neg : bool then - Z.of_N (Z.abs_N (dm d)) else Z.of_N (Z.abs_N (dm d))) (ds d), rest)).
  { intro neg. unfold take_number_body, body.
    assert (Hm' : (Z.abs_N (dm d) <? 2 ^ 96)%N = true).
    { apply N.ltb_lt. apply N2Z.inj_lt. rewrite N2Z.inj_abs_N. exact Hm. }
    destruct (Nat.eqb_spec sc 0) as [Hz|Hnz].
    - (* no decimals *)
      cbn [app]. rewrite (span_app is_digit ip rest Hip (num_stop_digit _ Hs)).
      rewrite Eip. cbn [is_nil]. rewrite <- Eip.
      assert (Hfp0 : fp = []) by (apply length_zero_iff_nil; lia).
      assert (Hrest : match rest with
                      | c :: r => if (c =? 46)%N then
                                    let '(f, r') := span is_digit r in if is_nil f then ([], rest) else (f, r')
                                  else ([], rest)
                      | [] => ([], rest)
                      end = (@nil N, rest)).
      { destruct rest as [|c r]; [reflexivity|]. cbn [num_stop] in Hs.
        apply andb_true_iff in Hs as [_ H46]. apply negb_true_iff in H46. rewrite H46. reflexivity. }
      rewrite Hrest. rewrite app_nil_r. rewrite Hfp0, app_nil_r in Hval. rewrite Hval.
      cbn [length]. change (N.of_nat 0) with 0%N. rewrite Hm'. cbn [N.leb andb].
      assert (ds d = 0%N) by (subst sc; lia). rewrite H. reflexivity.
    - (* with decimals *)
      assert (Hst : stopb is_digit ((46%N :: fp) ++ rest) = true) by reflexivity.
      rewrite (span_app is_digit ip _ Hip Hst).
      rewrite Eip. cbn [is_nil]. rewrite <- Eip.
      cbn [app]. rewrite N.eqb_refl.
      rewrite (span_app is_digit fp rest Hfp (num_stop_digit _ Hs)).
      assert (Hnn : is_nil fp = false) by (destruct fp; [cbn [length] in Hlen; lia|reflexivity]).
      rewrite Hnn. rewrite Hval, Hlen. subst sc. rewrite N2Nat.id.
      rewrite Hm'. apply N.leb_le in Hsc. rewrite Hsc. reflexivity. }
  unfold take_number. rewrite <- !app_assoc.
  destruct (dm d <? 0) eqn:Eneg.
  - cbn [app]. rewrite N.eqb_refl. fold body. rewrite (Hbody true).
    apply Z.ltb_lt in Eneg. rewrite N2Z.inj_abs_N. rewrite Z.abs_neq by lia.
    rewrite Z.opp_involutive. destruct d; reflexivity.
  - cbn [app]. fold body. assert (Eb : body = c0 :: (ip' ++ (if (sc =? 0)%nat then [] else 46%N :: fp) ++ rest)).
    { unfold body. rewrite Eip. reflexivity. }
    rewrite Eb, Hc45, <- Eb. rewrite (Hbody false).
    apply Z.ltb_ge in Eneg. rewrite N2Z.inj_abs_N. rewrite Z.abs_eq by lia. destruct d; reflexivity.
Qed.

(* print_dec never starts with a blank, and contains only sign, digits and '.' *)
Definition dec_char (c : N) : bool := is_digit c || (c =? 45)%N || (c =? 46)%N.

Lemma print_dec_chars d : forallb dec_char (print_dec d) = true.
Proof.
  pose proof (dec_digits_spec d) as H. cbv zeta in H. destruct H as (Hip & Hfp & _).
  unfold print_dec. rewrite !forallb_app.
  assert (Hd : forall l, forallb is_digit l = true -> forallb dec_char l = true).
  { intro l. apply forallb_impl. intros x Hx. unfold dec_char. rewrite Hx. reflexivity. }
  rewrite (Hd _ Hip). destruct (dm d <? 0); destruct (N.to_nat (ds d) =? 0)%nat; cbn [forallb andb];
    try rewrite (Hd _ Hfp); reflexivity.
Qed.

Lemma print_dec_head d : exists c r, print_dec d = c :: r /\ dec_char c = true.
Proof.
  pose proof (print_dec_chars d) as H.
  pose proof (dec_digits_spec d) as H2. cbv zeta in H2. destruct H2 as (_ & _ & Hne & _).
  unfold print_dec in *. destruct (dm d <? 0).
  - eexists _, _. split; [reflexivity|reflexivity].
  - cbn [app] in *.
    destruct (firstn _ _) as [|c r] eqn:E; [congruence|].
    cbn [app forallb] in H. apply andb_true_iff in H as [Hc _].
    eexists _, _. split; [reflexivity|exact Hc].
Qed.
