(* ReportText_proofs.v — lemmas about the text of the reports (model ReportText.v against
   the reading functions of ReportText_spec.v). Standard library only. *)
From Coq Require Import Permutation Sorted.
From TkModel Require Import Base Dec Acct Txn Balance Register Round ReportText.
From TkSpec Require Import Balance_spec Round_spec ReportText_spec.
From TkProofs Require Import Base_proofs Round_proofs.
Local Open Scope Z_scope.

(* ------------------------------------------------------------------ splitting *)
Lemma split_on_nonnil c s : split_on c s <> [].
Proof.
  destruct s as [|x s]; cbn [split_on]; [discriminate|].
  destruct (N.eqb x c); [discriminate|]. destruct (split_on c s); discriminate.
Qed.

Lemma split_on_none c a : ~ In c a -> split_on c a = [a].
Proof.
  induction a as [|x a IH]; intros H; cbn [split_on]; [reflexivity|].
  destruct (N.eqb_spec x c) as [E|E]; [exfalso; apply H; left; exact E|].
  rewrite IH by (intros X; apply H; right; exact X). reflexivity.
Qed.

Lemma split_on_app c a b : ~ In c a -> split_on c (a ++ c :: b) = a :: split_on c b.
Proof.
  induction a as [|x a IH]; intros H; cbn [split_on app].
  - rewrite N.eqb_refl. reflexivity.
  - destruct (N.eqb_spec x c) as [E|E]; [exfalso; apply H; left; exact E|].
    rewrite IH by (intros X; apply H; right; exact X). reflexivity.
Qed.

(* lines *)
Lemma text_lines_nil : text_lines [] = [[]].
Proof. reflexivity. Qed.

Lemma text_lines_line a rest : no_nl a -> text_lines (line a ++ rest) = a :: text_lines rest.
Proof.
  intros H. unfold text_lines, line. rewrite <- app_assoc. cbn [app]. apply split_on_app. exact H.
Qed.

Lemma text_lines_flat_map {A} (f : A -> str) (l : list A) rest :
  Forall (fun x => no_nl (f x)) l ->
  text_lines (flat_map (fun x => line (f x)) l ++ rest) = map f l ++ text_lines rest.
Proof.
  induction 1 as [|x l Hx Hl IH]; cbn [flat_map map app]; [reflexivity|].
  rewrite <- app_assoc, text_lines_line by exact Hx. rewrite IH. reflexivity.
Qed.

(* a text made of complete lines *)
Lemma text_lines_lines (ls : list str) rest :
  Forall no_nl ls -> text_lines (flat_map line ls ++ rest) = ls ++ text_lines rest.
Proof.
  intros H. rewrite <- (map_id ls) at 2. apply (text_lines_flat_map (fun x => x)). exact H.
Qed.

(* words *)
Lemma words_nil : words [] = [].
Proof. reflexivity. Qed.

Lemma words_sp s : words (ch_sp :: s) = words s.
Proof. unfold words. cbn [split_on]. rewrite N.eqb_refl. reflexivity. Qed.

Lemma words_spaces n s : words (spaces n ++ s) = words s.
Proof. induction n as [|n IH]; cbn [spaces repeat app]; [reflexivity|]. rewrite words_sp. exact IH. Qed.

Lemma words_spaces_only n : words (spaces n) = [].
Proof. rewrite <- (app_nil_r (spaces n)), words_spaces. reflexivity. Qed.

Lemma words_word_sp w s : w <> [] -> ~ In ch_sp w -> words (w ++ ch_sp :: s) = w :: words s.
Proof.
  intros NE H. unfold words. rewrite split_on_app by exact H. cbn [filter].
  destruct w; [contradiction|reflexivity].
Qed.

Lemma words_word w : w <> [] -> ~ In ch_sp w -> words w = [w].
Proof.
  intros NE H. unfold words. rewrite split_on_none by exact H. cbn [filter].
  destruct w; [contradiction|reflexivity].
Qed.

Lemma spaces_S n : spaces (S n) = ch_sp :: spaces n.
Proof. reflexivity. Qed.

Lemma spaces_add a b : spaces (a + b) = spaces a ++ spaces b.
Proof. unfold spaces. apply repeat_app. Qed.

Lemma spaces_length n : length (spaces n) = n.
Proof. apply repeat_length. Qed.

(* a field followed by at least one blank *)
Lemma words_word_spaces w n s : w <> [] -> ~ In ch_sp w -> (0 < n)%nat ->
  words (w ++ spaces n ++ s) = w :: words s.
Proof.
  intros NE H Hn. destruct n as [|n]; [lia|]. rewrite spaces_S. cbn [app].
  rewrite words_word_sp by assumption. rewrite words_spaces. reflexivity.
Qed.

(* padding *)
Lemma pad_left_length w s : length (pad_left w s) = Nat.max w (length s).
Proof. unfold pad_left. rewrite app_length, spaces_length. lia. Qed.

Lemma pad_right_length w s : length (pad_right w s) = Nat.max w (length s).
Proof. unfold pad_right. rewrite app_length, spaces_length. lia. Qed.

Lemma pad_left_fits w s : (length s <= w)%nat ->
  pad_left w s = spaces (w - length s) ++ s /\ length (pad_left w s) = w.
Proof. intros H. split; [reflexivity|]. rewrite pad_left_length. lia. Qed.

Lemma pad_left_never_truncates w s : exists k, pad_left w s = spaces k ++ s.
Proof. eexists. reflexivity. Qed.

Lemma in_spaces c n : In c (spaces n) -> c = ch_sp.
Proof. intros H. apply repeat_spec in H. exact H. Qed.

(* ------------------------------------------------------------------ printed figures *)
Lemma is_digit_fig c : is_digit c -> fig_char c = true.
Proof.
  unfold is_digit, fig_char. intros [H1 H2].
  destruct (N.leb_spec 48 c); [|lia]. destruct (N.leb_spec c 57); [|lia]. reflexivity.
Qed.

Lemma fixed_digits_digits k : forall n, Forall is_digit (fixed_digits n k).
Proof.
  induction k as [|k IH]; intros n; cbn [fixed_digits]; [constructor|].
  apply Forall_app. split; [apply IH|]. constructor; [|constructor].
  apply digit_is_digit. pose proof (Z.mod_pos_bound n 10 ltac:(lia)). lia.
Qed.

Lemma fixed_digits_length k : forall n, length (fixed_digits n k) = k.
Proof.
  induction k as [|k IH]; intros n; cbn [fixed_digits]; [reflexivity|].
  rewrite app_length, IH. cbn. lia.
Qed.

Lemma dfmt_int_ok d : Forall is_digit (dfmt_int d) /\ dfmt_int d <> [].
Proof.
  unfold dfmt_int. pose proof (c17_pow10_pos (ds d)).
  destruct (nat_digits_ok (Z.abs (dm d) / pow10 (ds d))) as (F & NE & _).
  - apply Z.div_pos; lia.
  - split; assumption.
Qed.

Lemma dfmt_raw_chars d p : Forall (fun c => fig_char c = true) (dfmt_raw d p) /\ dfmt_raw d p <> [].
Proof.
  unfold dfmt_raw. cbv zeta. destruct (dfmt_int_ok d) as [F NE]. split.
  - apply Forall_app. split; [destruct (dm d <? 0); constructor; [reflexivity|constructor]|].
    apply Forall_app. split.
    + eapply Forall_impl; [|exact F]. intros c. apply is_digit_fig.
    + destruct (p =? 0)%N; [constructor|]. constructor; [reflexivity|].
      eapply Forall_impl; [|apply fixed_digits_digits]. intros c. apply is_digit_fig.
  - intros C. apply app_eq_nil in C. destruct C as [_ C]. apply app_eq_nil in C.
    destruct C as [C _]. contradiction.
Qed.

Lemma shown_text_raw sc d : shown_text sc d = dfmt_raw (shown_dec sc d) (precision sc d).
Proof. unfold shown_text. apply with_decimals_raw. unfold shown_dec. apply ds_dround. Qed.

Lemma shown_text_chars sc d : Forall (fun c => fig_char c = true) (shown_text sc d).
Proof. rewrite shown_text_raw. apply dfmt_raw_chars. Qed.

Lemma shown_text_nonempty sc d : shown_text sc d <> [].
Proof. rewrite shown_text_raw. apply dfmt_raw_chars. Qed.

Lemma fig_chars_no c s : fig_char c = false -> Forall (fun x => fig_char x = true) s -> ~ In c s.
Proof.
  intros Hc F Hin. rewrite Forall_forall in F. specialize (F c Hin). congruence.
Qed.

Lemma shown_text_field sc d : field (shown_text sc d).
Proof.
  split; [apply shown_text_nonempty|].
  split; [apply (fig_chars_no ch_sp _ eq_refl)|apply (fig_chars_no ch_nl _ eq_refl)]; apply shown_text_chars.
Qed.

Lemma dfmt_no_nl d : no_nl (dfmt d).
Proof. apply (fig_chars_no ch_nl _ eq_refl). apply dfmt_raw_chars. Qed.

(* ------------------------------------------------------------------ balance: fields of a line *)
Lemma field_word w : field w -> w <> [] /\ ~ In ch_sp w.
Proof. intros (A & B & _). split; assumption. Qed.

Lemma comm_field_words cml comm acc :
  opt_field comm -> (length comm <= cml)%nat -> field acc ->
  words (comm_field cml comm ++ acc) = opt_word comm ++ [acc].
Proof.
  intros Hc Hl Ha. destruct (field_word _ Ha) as [NA SA].
  unfold comm_field. destruct cml as [|k].
  - destruct comm; [|cbn in Hl; lia]. rewrite words_spaces. cbn [opt_word app].
    apply words_word; assumption.
  - destruct comm as [|c cs].
    + cbn [app opt_word]. rewrite words_sp. rewrite <- app_assoc, !words_spaces.
      apply words_word; assumption.
    + destruct Hc as [Hc|Hc]; [discriminate|]. destruct (field_word _ Hc) as [NC SC].
      cbn [opt_word]. change ((ch_sp :: pad_right (S k) (c :: cs) ++ spaces 2) ++ acc)
        with (ch_sp :: (pad_right (S k) (c :: cs) ++ spaces 2) ++ acc).
      rewrite words_sp. unfold pad_right. rewrite <- !app_assoc.
      rewrite (app_assoc (spaces _) (spaces 2) acc), <- spaces_add.
      rewrite words_word_spaces by (assumption || lia).
      cbn [app]. f_equal. apply words_word; assumption.
Qed.

Lemma bal_row_line_words sc asl fl satsl cml r :
  (0 < fl)%nat -> field (acct_str (r_acc r)) -> opt_field (r_comm r) ->
  (length (r_comm r) <= cml)%nat ->
  words (bal_row_line sc asl fl satsl cml r) = row_words sc r.
Proof.
  intros Hfl Ha Hc Hl. unfold bal_row_line, left_ruler, pad_left, row_words.
  destruct (field_word _ (shown_text_field sc (r_own r))) as [N1 S1].
  destruct (field_word _ (shown_text_field sc (r_tree r))) as [N2 S2].
  rewrite <- !app_assoc. rewrite !words_spaces. cbn [length app]. rewrite Nat.sub_0_r.
  rewrite words_word_spaces by assumption.
  rewrite words_spaces.
  destruct (comm_field cml (r_comm r)) as [|x cf] eqn:CF.
  { exfalso. unfold comm_field in CF. destruct cml; [discriminate|]. destruct (r_comm r); discriminate. }
  assert (x = ch_sp) as ->.
  { unfold comm_field in CF. destruct cml; [cbn in CF; congruence|].
    destruct (r_comm r); cbn in CF; congruence. }
  cbn [app]. rewrite words_word_sp by assumption. cbn [app]. do 2 f_equal.
  rewrite <- (words_sp (cf ++ _)). change (ch_sp :: cf ++ acct_str (r_acc r)) with ((ch_sp :: cf) ++ acct_str (r_acc r)).
  rewrite <- CF. apply comm_field_words; assumption.
Qed.

Lemma bal_delta_line_words sc asl cd : opt_field (fst cd) ->
  words (bal_delta_line sc asl cd) = delta_words sc cd.
Proof.
  intros Hc. unfold bal_delta_line, left_ruler, pad_left, delta_words.
  destruct (field_word _ (shown_text_field sc (snd cd))) as [N1 S1].
  rewrite <- !app_assoc, !words_spaces.
  destruct (fst cd) as [|c cs] eqn:E.
  - cbn [opt_word]. rewrite app_nil_r. apply words_word; assumption.
  - destruct Hc as [Hc|Hc]; [discriminate|]. destruct (field_word _ Hc) as [NC SC].
    rewrite words_word_sp by assumption. cbn [opt_word]. f_equal. apply words_word; assumption.
Qed.

(* no newline inside a line *)
Lemma no_nl_app a b : no_nl a -> no_nl b -> no_nl (a ++ b).
Proof. unfold no_nl. intros A B H. apply in_app_or in H. tauto. Qed.

Lemma no_nl_spaces n : no_nl (spaces n).
Proof. intros H. apply in_spaces in H. discriminate. Qed.

Lemma no_nl_repeat c n : c <> ch_nl -> no_nl (repeat c n).
Proof. intros Hc H. apply repeat_spec in H. congruence. Qed.

Lemma no_nl_cons c a : c <> ch_nl -> no_nl a -> no_nl (c :: a).
Proof. intros Hc A [H|H]; [congruence|contradiction]. Qed.

Lemma no_nl_nil : no_nl [].
Proof. intros []. Qed.

Lemma no_nl_pad_left w s : no_nl s -> no_nl (pad_left w s).
Proof. intros H. apply no_nl_app; [apply no_nl_spaces|exact H]. Qed.

Lemma no_nl_pad_right w s : no_nl s -> no_nl (pad_right w s).
Proof. intros H. apply no_nl_app; [exact H|apply no_nl_spaces]. Qed.

Lemma field_no_nl s : field s -> no_nl s.
Proof. intros (_ & _ & H). exact H. Qed.

Lemma opt_field_no_nl s : opt_field s -> no_nl s.
Proof. intros [->|H]; [apply no_nl_nil|apply field_no_nl; exact H]. Qed.

Lemma shown_text_no_nl sc d : no_nl (shown_text sc d).
Proof. apply field_no_nl, shown_text_field. Qed.

Lemma comm_field_no_nl cml comm : no_nl comm -> no_nl (comm_field cml comm).
Proof.
  intros H. unfold comm_field. destruct cml; [apply no_nl_spaces|].
  destruct comm.
  - apply no_nl_cons; [discriminate|]. apply no_nl_app; apply no_nl_spaces.
  - apply no_nl_cons; [discriminate|]. apply no_nl_app; [apply no_nl_pad_right; exact H|apply no_nl_spaces].
Qed.

Lemma bal_row_line_no_nl sc asl fl satsl cml r :
  no_nl (acct_str (r_acc r)) -> no_nl (r_comm r) -> no_nl (bal_row_line sc asl fl satsl cml r).
Proof.
  intros Ha Hc. unfold bal_row_line.
  repeat apply no_nl_app; try apply no_nl_spaces; try apply no_nl_pad_left;
    try apply shown_text_no_nl; try apply no_nl_nil; try assumption.
  apply comm_field_no_nl. exact Hc.
Qed.

Lemma bal_delta_line_no_nl sc asl cd : no_nl (fst cd) -> no_nl (bal_delta_line sc asl cd).
Proof.
  intros Hc. unfold bal_delta_line.
  repeat apply no_nl_app; try apply no_nl_spaces; try apply no_nl_pad_left; try apply shown_text_no_nl.
  destruct (fst cd); [apply no_nl_nil|]. apply no_nl_cons; [discriminate|exact Hc].
Qed.

(* ------------------------------------------------------------------ widths *)
Lemma max_len_ge_acc l : forall a, (a <= fold_left Nat.max l a)%nat.
Proof. induction l as [|x l IH]; intros a; cbn [fold_left]; [lia|]. specialize (IH (Nat.max a x)). lia. Qed.

Lemma max_len_in_acc l : forall a x, In x l -> (x <= fold_left Nat.max l a)%nat.
Proof.
  induction l as [|y l IH]; intros a x []; cbn [fold_left].
  - subst. pose proof (max_len_ge_acc l (Nat.max a x)). lia.
  - apply IH. assumption.
Qed.

Lemma max_len_in l x : In x l -> (x <= max_len l)%nat.
Proof. apply max_len_in_acc. Qed.

Lemma max_comm_len_in deltas c : In c (map fst deltas) -> (length c <= max_comm_len deltas)%nat.
Proof.
  intros H. unfold max_comm_len. apply max_len_in. apply in_map_iff in H.
  destruct H as (cd & E & Hin). subst. apply in_map_iff. exists cd. split; [reflexivity|exact Hin].
Qed.

Lemma filler_len_pos cml : (3 <= filler_len cml)%nat.
Proof. unfold filler_len. destruct cml; lia. Qed.

(* ------------------------------------------------------------------ balance: lines *)
Lemma title_lines_lines title rest : no_nl title ->
  text_lines (title_lines title ++ rest) = title :: repeat ch_dash (length title) :: text_lines rest.
Proof.
  intros H. unfold title_lines. rewrite <- app_assoc, text_lines_line by exact H.
  rewrite text_lines_line by (apply no_nl_repeat; discriminate). reflexivity.
Qed.

Lemma sort_deltas_forall (P : str * dec -> Prop) deltas : Forall P deltas -> Forall P (sort_deltas deltas).
Proof.
  rewrite !Forall_forall. intros H x Hx. apply H. unfold sort_deltas in Hx.
  apply sort_by_in in Hx. exact Hx.
Qed.

Lemma bal_names_rows_no_nl rows deltas : bal_names_ok rows deltas ->
  Forall (fun r => no_nl (acct_str (r_acc r)) /\ no_nl (r_comm r)) rows
  /\ Forall (fun cd => no_nl (fst cd)) deltas.
Proof.
  intros [Hr Hd]. split.
  - eapply Forall_impl; [|exact Hr]. intros r [A C]. split; [apply field_no_nl|apply opt_field_no_nl]; assumption.
  - eapply Forall_impl; [|exact Hd]. intros cd C. apply opt_field_no_nl. exact C.
Qed.

Lemma bal_body_lines sc rows deltas rest : bal_names_ok rows deltas -> rows <> [] ->
  text_lines (bal_body sc rows deltas ++ rest) = bal_block_lines sc rows deltas ++ text_lines rest.
Proof.
  intros Hn NE. destruct (bal_names_rows_no_nl _ _ Hn) as [Hr Hd].
  unfold bal_body, bal_block_lines. cbv zeta.
  destruct rows as [|r0 rows']; [contradiction|]. set (rows := r0 :: rows') in *.
  rewrite <- !app_assoc.
  rewrite (text_lines_flat_map (bal_row_line sc _ _ _ _)).
  2:{ eapply Forall_impl; [|exact Hr]. intros r [A C]. apply bal_row_line_no_nl; assumption. }
  rewrite text_lines_line by (apply no_nl_repeat; discriminate).
  rewrite (text_lines_flat_map (bal_delta_line sc _)).
  2:{ apply sort_deltas_forall. eapply Forall_impl; [|exact Hd]. intros cd C. apply bal_delta_line_no_nl. exact C. }
  reflexivity.
Qed.

Lemma bal_txt_report_lines_rest title sc rows deltas rest : no_nl title -> bal_names_ok rows deltas ->
  text_lines (bal_txt_report title sc rows deltas ++ rest)
  = bal_lines title sc rows deltas ++ text_lines rest.
Proof.
  intros Ht Hn. unfold bal_txt_report, bal_lines. rewrite <- app_assoc.
  rewrite title_lines_lines by exact Ht. cbn [app]. do 2 f_equal.
  destruct rows as [|r0 rows'] eqn:E; [reflexivity|]. rewrite <- E in *.
  apply bal_body_lines; [exact Hn|]. rewrite E. discriminate.
Qed.

Lemma bal_txt_report_lines title sc rows deltas : no_nl title -> bal_names_ok rows deltas ->
  text_lines (bal_txt_report title sc rows deltas) = bal_lines title sc rows deltas ++ [[]].
Proof.
  intros Ht Hn. rewrite <- (app_nil_r (bal_txt_report _ _ _ _)).
  rewrite bal_txt_report_lines_rest by assumption. reflexivity.
Qed.

(* one line per row, ruler, one line per delta *)
Lemma bal_block_lines_length sc rows deltas :
  length (bal_block_lines sc rows deltas) = bal_block_len rows deltas.
Proof.
  unfold bal_block_lines, bal_block_len. destruct rows as [|r rows']; [reflexivity|].
  rewrite !app_length, !map_length. unfold sort_deltas. rewrite sort_by_length. cbn [length]. lia.
Qed.

Lemma Forall2_map_r {A B} (P : A -> B -> Prop) (f : A -> B) l :
  Forall (fun a => P a (f a)) l -> Forall2 P l (map f l).
Proof. induction 1; cbn [map]; constructor; assumption. Qed.

Lemma is_ruler_repeat c n : (0 < n)%nat -> is_ruler c (repeat c n) = true.
Proof.
  intros Hn. unfold is_ruler. destruct n as [|n]; [lia|]. cbn [repeat nonempty andb].
  apply forallb_forall. intros x Hx. change (c :: repeat c n) with (repeat c (S n)) in Hx.
  apply repeat_spec in Hx. subst. apply N.eqb_refl.
Qed.

Lemma bal_block_lines_spec sc rows deltas : bal_names_ok rows deltas -> covers rows deltas ->
  bal_block_spec sc rows deltas (bal_block_lines sc rows deltas).
Proof.
  intros [Hr Hd] Hc. unfold bal_block_spec, bal_block_lines.
  destruct rows as [|r0 rows'] eqn:E; [reflexivity|]. rewrite <- E in *.
  eexists _, _, _. split; [reflexivity|]. split; [|split].
  - apply Forall2_map_r. rewrite Forall_forall in *. intros r Hin.
    destruct (Hr r Hin) as [A C].
    apply bal_row_line_words; try assumption.
    + pose proof (filler_len_pos (max_comm_len deltas)). lia.
    + apply max_comm_len_in. apply Hc. exact Hin.
  - unfold bal_ruler_len, left_ruler. rewrite spaces_length. apply is_ruler_repeat. lia.
  - apply Forall2_map_r. apply sort_deltas_forall.
    eapply Forall_impl; [|exact Hd]. intros cd C. apply bal_delta_line_words. exact C.
Qed.

Lemma bal_txt_report_spec title sc rows deltas :
  no_nl title -> bal_names_ok rows deltas -> covers rows deltas ->
  bal_text_spec title sc rows deltas (bal_txt_report title sc rows deltas).
Proof.
  intros Ht Hn Hc. exists (bal_block_lines sc rows deltas). split.
  - rewrite bal_txt_report_lines by assumption. reflexivity.
  - apply bal_block_lines_spec; assumption.
Qed.

(* the delta lines: one per commodity, ascending *)
Lemma sort_deltas_sorted deltas :
  StronglySorted (fun a b => str_cmp (fst a) (fst b) <> Gt) (sort_deltas deltas)
  /\ Permutation (sort_deltas deltas) deltas.
Proof.
  split; [|apply sort_by_perm]. unfold sort_deltas.
  eapply StronglySorted_impl; [|apply sort_by_sorted].
  - intros a b _ _ H. apply cmp_leb_true. exact H.
  - intros a b. apply (co_leb_total _ (cmp_ord_preimage fst str_cmp str_cmp_ord)).
  - intros a b c. apply (co_leb_trans _ (cmp_ord_preimage fst str_cmp str_cmp_ord)).
Qed.

Lemma sort_deltas_strict deltas : NoDup (map fst deltas) ->
  StronglySorted (fun a b => str_cmp (fst a) (fst b) = Lt) (sort_deltas deltas).
Proof.
  intros Hn. destruct (sort_deltas_sorted deltas) as [Hs Hp].
  assert (NoDup (map fst (sort_deltas deltas))) as Hn'.
  { eapply Permutation_NoDup; [|exact Hn]. apply Permutation_map, Permutation_sym, Hp. }
  clear Hp Hn. revert Hs Hn'. generalize (sort_deltas deltas). intros l0 Hs Hn'.
  induction Hs as [|x l Hs IH Hf]; constructor.
  - apply IH. cbn [map] in Hn'. inversion Hn'. assumption.
  - cbn [map] in Hn'. inversion Hn' as [|? ? Hni _]; subst.
    rewrite Forall_forall in *. intros z Hz. specialize (Hf z Hz).
    destruct (str_cmp (fst x) (fst z)) eqn:E; [|reflexivity|congruence].
    apply str_cmp_eq in E. exfalso. apply Hni. rewrite E. apply in_map. exact Hz.
Qed.

(* ------------------------------------------------------------------ balance: the oracle *)
Lemma words_eqb_eq a b : words_eqb a b = true <-> a = b.
Proof. apply list_eqb_eq. apply str_eqb_eq. Qed.

Lemma lwords_eqb_eq a b : list_eqb words_eqb a b = true <-> a = b.
Proof. apply list_eqb_eq. apply words_eqb_eq. Qed.

Lemma map_eq_Forall2 {A B C} (f : A -> C) (g : B -> C) la : forall lb,
  map f la = map g lb <-> Forall2 (fun b a => f a = g b) lb la.
Proof.
  induction la as [|a la IH]; intros [|b lb]; cbn [map]; split; intros H;
    try discriminate; try (inversion H; fail); try constructor; try reflexivity.
  - inversion H. reflexivity.
  - apply IH. inversion H. reflexivity.
  - inversion H; subst. f_equal; [assumption|]. apply IH. assumption.
Qed.

Lemma Forall2_length' {A B} (P : A -> B -> Prop) la lb : Forall2 P la lb -> length la = length lb.
Proof. induction 1; cbn; congruence. Qed.

Lemma firstn_app_exact {A} (a b : list A) : firstn (length a) (a ++ b) = a.
Proof. rewrite firstn_app, Nat.sub_diag, firstn_all. cbn. apply app_nil_r. Qed.

Lemma skipn_app_exact {A} (a b : list A) : skipn (length a) (a ++ b) = b.
Proof. rewrite skipn_app, Nat.sub_diag, skipn_all. reflexivity. Qed.

Lemma bal_block_ok_iff sc rows deltas ls :
  bal_block_ok sc rows deltas ls = true <-> bal_block_spec sc rows deltas ls.
Proof.
  unfold bal_block_ok, bal_block_spec. destruct rows as [|r0 rows'] eqn:E.
  { destruct ls; split; congruence. }
  rewrite <- E. clear E r0 rows'. split.
  - intros H. apply andb_true_iff in H. destruct H as [H1 H2].
    destruct (skipn (length rows) ls) as [|ruler dl] eqn:ES; [discriminate|].
    apply andb_true_iff in H2. destruct H2 as [H2 H3].
    exists (firstn (length rows) ls), ruler, dl. split; [|split; [|split]].
    + rewrite <- ES. symmetry. apply firstn_skipn.
    + apply lwords_eqb_eq in H1. apply map_eq_Forall2. exact H1.
    + exact H2.
    + apply lwords_eqb_eq in H3. apply map_eq_Forall2. exact H3.
  - intros (rl & ruler & dl & -> & F1 & R & F2).
    pose proof (Forall2_length' _ _ _ F1) as L. rewrite L.
    rewrite firstn_app_exact, skipn_app_exact. rewrite R. cbn [andb].
    apply andb_true_iff. split; apply lwords_eqb_eq, map_eq_Forall2; assumption.
Qed.

Lemma rev_last_nil {A} (rest : list (list A)) rl : rev rest = [] :: rl <-> rest = rev rl ++ [[]].
Proof.
  split; intros H.
  - rewrite <- (rev_involutive rest), H. reflexivity.
  - rewrite H, rev_app_distr, rev_involutive. reflexivity.
Qed.

Lemma bal_text_ok_iff title sc rows deltas text :
  bal_text_ok title sc rows deltas text = true <-> bal_text_spec title sc rows deltas text.
Proof.
  unfold bal_text_ok, bal_text_spec. split.
  - destruct (text_lines text) as [|t [|u rest]]; try discriminate.
    intros H. apply andb_true_iff in H. destruct H as [H H3]. apply andb_true_iff in H. destruct H as [H1 H2].
    apply str_eqb_eq in H1, H2. subst.
    destruct (rev rest) as [|[|] rl] eqn:ER; try discriminate.
    apply rev_last_nil in ER. exists (rev rl). split; [rewrite ER; reflexivity|].
    apply bal_block_ok_iff. exact H3.
  - intros (ls & -> & S). rewrite !str_eqb_refl. cbn [andb].
    rewrite rev_app_distr. cbn [rev app]. rewrite rev_involutive. apply bal_block_ok_iff. exact S.
Qed.

Lemma bal_text_ok_model title sc rows deltas :
  no_nl title -> bal_names_ok rows deltas -> covers rows deltas ->
  bal_text_ok title sc rows deltas (bal_txt_report title sc rows deltas) = true.
Proof. intros. apply bal_text_ok_iff. apply bal_txt_report_spec; assumption. Qed.

Lemma bal_text_ok_sound title sc rows deltas text :
  bal_text_ok title sc rows deltas text = true -> bal_text_spec title sc rows deltas text.
Proof. apply bal_text_ok_iff. Qed.

(* ------------------------------------------------------------------ balance groups *)
Lemma balgrp_flat_lines sc groups rest : grp_names_ok groups ->
  text_lines (flat_map (fun g => bal_txt_report (bg_title g) sc (bg_rows g) (bg_deltas g)) groups ++ rest)
  = flat_map (fun g => bal_lines (bg_title g) sc (bg_rows g) (bg_deltas g)) groups ++ text_lines rest.
Proof.
  induction 1 as [|g gs (Ht & Hn & _) _ IH]; cbn [flat_map app]; [reflexivity|].
  rewrite <- !app_assoc. rewrite bal_txt_report_lines_rest by assumption. rewrite IH. reflexivity.
Qed.

Lemma balgrp_txt_report_lines title sc groups : no_nl title -> grp_names_ok groups ->
  text_lines (balgrp_txt_report title sc groups) = balgrp_lines title sc groups ++ [[]].
Proof.
  intros Ht Hg. unfold balgrp_txt_report, balgrp_lines. rewrite title_lines_lines by exact Ht.
  cbn [app]. do 2 f_equal.
  rewrite <- (app_nil_r (flat_map _ groups)). rewrite balgrp_flat_lines by exact Hg. reflexivity.
Qed.

Lemma bal_block_spec_length sc rows deltas bl :
  bal_block_spec sc rows deltas bl -> length bl = bal_block_len rows deltas.
Proof.
  unfold bal_block_spec, bal_block_len. destruct rows as [|r0 rows'] eqn:E; [intros ->; reflexivity|].
  rewrite <- E. intros (rl & ruler & dl & -> & F1 & _ & F2).
  rewrite app_length. cbn [length]. rewrite <- (Forall2_length' _ _ _ F1), <- (Forall2_length' _ _ _ F2).
  unfold sort_deltas. rewrite sort_by_length. lia.
Qed.

Lemma grp_body_ok_iff sc groups : forall ls,
  grp_body_ok sc groups ls = true <-> grp_body_spec sc groups ls.
Proof.
  induction groups as [|g gs IH]; intros ls; cbn [grp_body_ok grp_body_spec].
  { destruct ls; split; congruence. }
  split.
  - destruct ls as [|t [|u rest]]; try discriminate. intros H.
    apply andb_true_iff in H. destruct H as [H H4]. apply andb_true_iff in H. destruct H as [H H3].
    apply andb_true_iff in H. destruct H as [H1 H2]. apply str_eqb_eq in H1, H2. subst.
    eexists _, _. split; [|split; [apply bal_block_ok_iff; exact H3|apply IH; exact H4]].
    rewrite firstn_skipn. reflexivity.
  - intros (bl & ls' & -> & S & G). rewrite !str_eqb_refl. cbn [andb].
    rewrite <- (bal_block_spec_length _ _ _ _ S). rewrite firstn_app_exact, skipn_app_exact.
    apply andb_true_iff. split; [apply bal_block_ok_iff; exact S|apply IH; exact G].
Qed.

Lemma grp_text_ok_iff title sc groups text :
  grp_text_ok title sc groups text = true <-> grp_text_spec title sc groups text.
Proof.
  unfold grp_text_ok, grp_text_spec. split.
  - destruct (text_lines text) as [|t [|u rest]]; try discriminate.
    intros H. apply andb_true_iff in H. destruct H as [H H3]. apply andb_true_iff in H. destruct H as [H1 H2].
    apply str_eqb_eq in H1, H2. subst.
    destruct (rev rest) as [|[|] rl] eqn:ER; try discriminate.
    apply rev_last_nil in ER. exists (rev rl). split; [rewrite ER; reflexivity|].
    apply grp_body_ok_iff. exact H3.
  - intros (ls & -> & S). rewrite !str_eqb_refl. cbn [andb].
    rewrite rev_app_distr. cbn [rev app]. rewrite rev_involutive. apply grp_body_ok_iff. exact S.
Qed.

Lemma grp_body_lines_spec sc groups : grp_names_ok groups ->
  grp_body_spec sc groups (flat_map (fun g => bal_lines (bg_title g) sc (bg_rows g) (bg_deltas g)) groups).
Proof.
  induction 1 as [|g gs (Ht & Hn & Hc) _ IH]; cbn [flat_map grp_body_spec]; [reflexivity|].
  eexists _, _. split; [unfold bal_lines; cbn [app]; reflexivity|].
  split; [apply bal_block_lines_spec; assumption|exact IH].
Qed.

Lemma balgrp_txt_report_spec title sc groups : no_nl title -> grp_names_ok groups ->
  grp_text_spec title sc groups (balgrp_txt_report title sc groups).
Proof.
  intros Ht Hg. eexists. split; [rewrite balgrp_txt_report_lines by assumption; unfold balgrp_lines; reflexivity|].
  apply grp_body_lines_spec. exact Hg.
Qed.

Lemma grp_text_ok_sound title sc groups text :
  grp_text_ok title sc groups text = true -> grp_text_spec title sc groups text.
Proof. apply grp_text_ok_iff. Qed.

(* ------------------------------------------------------------------ register: a row line *)
Lemma amount_to_string_shape sc d w :
  exists j, (j <= 1)%nat /\ amount_to_string sc d w = spaces j ++ shown_text sc d.
Proof.
  unfold amount_to_string. cbv zeta.
  destruct (negb (is_neg d) && (w <=? length (shown_text sc d))%nat).
  - exists 1%nat. split; [lia|reflexivity].
  - exists 0%nat. split; [lia|reflexivity].
Qed.

(* what follows indent and account name in a row line without commodity conversion *)
Definition reg_row_rest (sc : scale_cfg) (fw : nat) (r : rrow) : str :=
  let p := rr_post r in
  spaces (33 - length (acct_str (p_acc p)))
  ++ pad_left 18 (amount_to_string sc (p_amount p) 18)
  ++ spaces fw ++ [ch_sp]
  ++ pad_left 18 (amount_to_string sc (rr_total r) 18)
  ++ match p_comm p with [] => [] | c => ch_sp :: c end.

Lemma reg_row_line_split sc fw r : is_conv r = false ->
  reg_row_line sc fw r = indent12 ++ acct_str (p_acc (rr_post r)) ++ reg_row_rest sc fw r.
Proof.
  intros H. unfold reg_row_line, reg_row_rest. cbv zeta. rewrite H. cbn [fst snd].
  unfold pad_right at 1 2. cbn [length app]. rewrite Nat.sub_0_r, <- !app_assoc.
  destruct (p_comm (rr_post r)); reflexivity.
Qed.

Lemma reg_row_rest_words sc fw r : opt_field (p_comm (rr_post r)) ->
  words (reg_row_rest sc fw r) = reg_row_words sc r.
Proof.
  intros Hc. unfold reg_row_rest, reg_row_words. cbv zeta.
  destruct (amount_to_string_shape sc (p_amount (rr_post r)) 18) as (j1 & _ & ->).
  destruct (amount_to_string_shape sc (rr_total r) 18) as (j2 & _ & ->).
  destruct (field_word _ (shown_text_field sc (p_amount (rr_post r)))) as [N1 S1].
  destruct (field_word _ (shown_text_field sc (rr_total r))) as [N2 S2].
  unfold pad_left. rewrite <- !app_assoc. rewrite !words_spaces.
  rewrite (app_assoc (spaces fw) [ch_sp]). change [ch_sp] with (spaces 1). rewrite <- spaces_add.
  rewrite words_word_spaces by (assumption || lia). rewrite !words_spaces.
  cbn [app]. f_equal.
  destruct (p_comm (rr_post r)) as [|c cs] eqn:E.
  - cbn [opt_word]. rewrite app_nil_r. apply words_word; assumption.
  - destruct Hc as [Hc|Hc]; [discriminate|]. destruct (field_word _ Hc) as [NC SC].
    rewrite words_word_sp by assumption. cbn [opt_word]. f_equal. apply words_word; assumption.
Qed.

Lemma reg_row_line_spec sc fw r : is_conv r = false -> opt_field (p_comm (rr_post r)) ->
  reg_row_spec sc r (reg_row_line sc fw r).
Proof.
  intros H Hc. exists (reg_row_rest sc fw r). split; [apply reg_row_line_split; exact H|].
  apply reg_row_rest_words. exact Hc.
Qed.

(* when is the account name separated from the amount by a blank *)
Lemma pad_left_starts_sp w s : (length s < w)%nat \/ (exists s', s = ch_sp :: s') ->
  exists t, pad_left w s = ch_sp :: t.
Proof.
  intros [H|(s' & ->)]; unfold pad_left.
  - destruct (w - length s)%nat as [|k] eqn:E; [lia|]. eexists. reflexivity.
  - destruct (w - length (ch_sp :: s'))%nat as [|k]; eexists; reflexivity.
Qed.

Lemma reg_row_separated sc fw r :
  (length (acct_str (p_acc (rr_post r))) < 33)%nat
  \/ is_neg (p_amount (rr_post r)) = false
  \/ (length (shown_text sc (p_amount (rr_post r))) < 18)%nat ->
  exists t, reg_row_rest sc fw r = ch_sp :: t.
Proof.
  intros H. unfold reg_row_rest. cbv zeta.
  destruct (33 - length (acct_str (p_acc (rr_post r))))%nat as [|k] eqn:E.
  2:{ eexists. reflexivity. }
  cbn [spaces repeat app].
  destruct (pad_left_starts_sp 18 (amount_to_string sc (p_amount (rr_post r)) 18)) as (t & ->).
  2:{ eexists. reflexivity. }
  unfold amount_to_string. cbv zeta.
  destruct (is_neg (p_amount (rr_post r))) eqn:EN; cbn [negb andb].
  - left. destruct H as [H|[H|H]]; [lia|discriminate|exact H].
  - destruct (Nat.leb_spec 18 (length (shown_text sc (p_amount (rr_post r))))) as [L|L].
    + right. eexists. reflexivity.
    + left. exact L.
Qed.

(* amounts and totals end in fixed columns whenever they fit *)
Lemma reg_row_columns sc fw r :
  is_conv r = false ->
  let acc := acct_str (p_acc (rr_post r)) in
  let a := amount_to_string sc (p_amount (rr_post r)) 18 in
  let t := amount_to_string sc (rr_total r) 18 in
  (length acc <= 33)%nat -> (length a <= 18)%nat -> (length t <= 18)%nat ->
  exists tail,
    reg_row_line sc fw r = indent12 ++ acc ++ spaces (33 - length acc + (18 - length a)) ++ a
                           ++ spaces (fw + 1 + (18 - length t)) ++ t ++ tail
    /\ length (indent12 ++ acc ++ spaces (33 - length acc + (18 - length a)) ++ a) = 63%nat
    /\ length (spaces (fw + 1 + (18 - length t)) ++ t) = (fw + 19)%nat.
Proof.
  intros H acc a t La Lt Lc. eexists. split; [|split].
  - rewrite reg_row_line_split by exact H. unfold reg_row_rest. cbv zeta. fold acc a t.
    unfold pad_left. rewrite !spaces_add. change (spaces 1) with [ch_sp]. rewrite <- !app_assoc. reflexivity.
  - rewrite !app_length, !spaces_length. unfold indent12. rewrite spaces_length. lia.
  - rewrite app_length, spaces_length. lia.
Qed.

(* ------------------------------------------------------------------ register: lines *)
Lemma no_nl_opt_str o : no_nl (opt_str o) -> match o with Some s => no_nl s | None => True end.
Proof. destruct o; cbn [opt_str]; tauto. Qed.

Lemma no_nl_lit (l : str) : forallb (fun c => negb (N.eqb c ch_nl)) l = true -> no_nl l.
Proof.
  intros H Hin. rewrite forallb_forall in H. specialize (H _ Hin). rewrite N.eqb_refl in H. discriminate.
Qed.

Lemma geo_text_no_nl g : no_nl (geo_text g).
Proof.
  unfold geo_text.
  apply no_nl_app; [apply no_nl_lit; reflexivity|].
  apply no_nl_app; [apply dfmt_no_nl|].
  apply no_nl_app; [apply no_nl_lit; reflexivity|].
  apply no_nl_app; [apply dfmt_no_nl|].
  destruct (g_alt g); [apply no_nl_cons; [discriminate|apply dfmt_no_nl]|apply no_nl_nil].
Qed.

Lemma join_with_no_nl sep l : no_nl sep -> Forall no_nl l -> no_nl (join_with sep l).
Proof.
  intros Hs. induction 1 as [|x l Hx Hl IH]; cbn [join_with]; [apply no_nl_nil|].
  destruct l as [|y l']; [exact Hx|]. apply no_nl_app; [exact Hx|]. apply no_nl_app; [exact Hs|exact IH].
Qed.


Lemma header_text_lines indent ts h rest : no_nl indent -> header_names_ok ts h ->
  text_lines (header_text indent ts h ++ rest) = header_lines indent ts h ++ text_lines rest.
Proof.
  intros Hi (Hts & Hc & Hd & Hu & Ht & Hcm).
  apply no_nl_opt_str in Hc, Hd, Hu.
  unfold header_text, header_lines.
  rewrite <- !app_assoc.
  (* first line *)
  rewrite (app_assoc ts), (app_assoc (ts ++ _)).
  cbn [app]. unfold text_lines at 1. rewrite split_on_app.
  2:{ apply no_nl_app; [apply no_nl_app; [exact Hts|]|].
      - destruct (h_code h); [|apply no_nl_nil].
        do 2 (apply no_nl_cons; [discriminate|]). apply no_nl_app; [exact Hc|apply no_nl_lit; reflexivity].
      - destruct (h_desc h); [|apply no_nl_nil].
        do 2 (apply no_nl_cons; [discriminate|]). exact Hd. }
  rewrite <- !app_assoc. cbn [app]. f_equal. fold (text_lines).
  change (split_on ch_nl) with text_lines.
  (* uuid *)
  assert (E1 : forall X, text_lines (match h_uuid h with
            | Some u => line (indent ++ [35; 32; 117; 117; 105; 100; 58; 32]%N ++ u) | None => [] end ++ X)
          = match h_uuid h with Some u => [indent ++ [35; 32; 117; 117; 105; 100; 58; 32]%N ++ u] | None => [] end
            ++ text_lines X).
  { intros X. destruct (h_uuid h); [|reflexivity]. rewrite text_lines_line; [reflexivity|].
    apply no_nl_app; [exact Hi|]. apply no_nl_app; [apply no_nl_lit; reflexivity|exact Hu]. }
  rewrite E1. f_equal.
  assert (E2 : forall X, text_lines (match h_loc h with
            | Some g => line (indent ++ [35; 32; 108; 111; 99; 97; 116; 105; 111; 110; 58; 32]%N ++ geo_text g)
            | None => [] end ++ X)
          = match h_loc h with
            | Some g => [indent ++ [35; 32; 108; 111; 99; 97; 116; 105; 111; 110; 58; 32]%N ++ geo_text g]
            | None => [] end ++ text_lines X).
  { intros X. destruct (h_loc h); [|reflexivity]. rewrite text_lines_line; [reflexivity|].
    apply no_nl_app; [exact Hi|]. apply no_nl_app; [apply no_nl_lit; reflexivity|apply geo_text_no_nl]. }
  rewrite E2. f_equal.
  assert (E3 : forall X, text_lines (match h_tags h with
            | [] => []
            | ts => line (indent ++ [35; 32; 116; 97; 103; 115; 58; 32]%N ++ join_with [44; 32]%N ts) end ++ X)
          = match h_tags h with
            | [] => []
            | ts => [indent ++ [35; 32; 116; 97; 103; 115; 58; 32]%N ++ join_with [44; 32]%N ts] end
            ++ text_lines X).
  { intros X. destruct (h_tags h) as [|t0 tl] eqn:ET; [reflexivity|]. rewrite text_lines_line; [reflexivity|].
    apply no_nl_app; [exact Hi|]. apply no_nl_app; [apply no_nl_lit; reflexivity|].
    apply join_with_no_nl; [apply no_nl_lit; reflexivity|exact Ht]. }
  rewrite E3. f_equal.
  apply (text_lines_flat_map (fun c => indent ++ [59; 32]%N ++ c)).
  eapply Forall_impl; [|exact Hcm]. intros c Hcn.
  apply no_nl_app; [exact Hi|]. apply no_nl_app; [apply no_nl_lit; reflexivity|exact Hcn].
Qed.

Lemma reg_row_line_no_nl sc fw r : reg_row_names_ok r -> no_nl (reg_row_line sc fw r).
Proof.
  intros (Ha & Hc & H). rewrite reg_row_line_split by exact H. unfold reg_row_rest. cbv zeta.
  apply opt_field_no_nl in Hc.
  destruct (amount_to_string_shape sc (p_amount (rr_post r)) 18) as (j1 & _ & ->).
  destruct (amount_to_string_shape sc (rr_total r) 18) as (j2 & _ & ->).
  apply no_nl_app; [apply no_nl_spaces|].
  apply no_nl_app; [exact Ha|].
  apply no_nl_app; [apply no_nl_spaces|].
  apply no_nl_app; [apply no_nl_pad_left; apply no_nl_app; [apply no_nl_spaces|apply shown_text_no_nl]|].
  apply no_nl_app; [apply no_nl_spaces|].
  apply no_nl_app; [apply no_nl_lit; reflexivity|].
  apply no_nl_app; [apply no_nl_pad_left; apply no_nl_app; [apply no_nl_spaces|apply shown_text_no_nl]|].
  destruct (p_comm (rr_post r)); [apply no_nl_nil|]. apply no_nl_cons; [discriminate|exact Hc].
Qed.

Lemma reg_entry_out_lines sc fw ts e rest :
  header_names_ok ts (t_hdr (re_txn e)) -> Forall reg_row_names_ok (re_rows e) ->
  text_lines (reg_entry_out sc fw ts e ++ rest) = reg_entry_lines sc fw ts e ++ text_lines rest.
Proof.
  intros Hh Hr. unfold reg_entry_out, reg_entry_lines.
  destruct (re_rows e) as [|r0 rows'] eqn:E; [reflexivity|]. rewrite <- E in *.
  unfold reg_entry_text. rewrite E. rewrite <- E. cbv zeta.
  rewrite <- !app_assoc. rewrite header_text_lines; [|apply no_nl_spaces|exact Hh].
  f_equal. rewrite text_lines_lines.
  2:{ rewrite Forall_map. eapply Forall_impl; [|exact Hr]. intros r. apply reg_row_line_no_nl. }
  f_equal. rewrite text_lines_line by (apply no_nl_repeat; discriminate). reflexivity.
Qed.

Lemma reg_flat_lines sc fw es rest : reg_names_ok es ->
  text_lines (flat_map (fun te => reg_entry_out sc fw (fst te) (snd te)) es ++ rest)
  = flat_map (fun te => reg_entry_lines sc fw (fst te) (snd te)) es ++ text_lines rest.
Proof.
  induction 1 as [|te es' [Hh Hr] _ IH]; cbn [flat_map app]; [reflexivity|].
  rewrite <- !app_assoc. rewrite reg_entry_out_lines by assumption. rewrite IH. reflexivity.
Qed.

Lemma reg_txt_report_lines title sc fw es : no_nl title -> reg_names_ok es ->
  text_lines (reg_txt_report_with title sc fw es) = reg_lines title sc fw es ++ [[]].
Proof.
  intros Ht Hn. unfold reg_txt_report_with, reg_lines. rewrite title_lines_lines by exact Ht.
  cbn [app]. do 2 f_equal. rewrite <- (app_nil_r (flat_map _ es)).
  rewrite reg_flat_lines by exact Hn. reflexivity.
Qed.

(* the dashed line is as long as the longest row line *)
Lemma reg_dash_length sc fw e r :
  In r (re_rows e) ->
  (length (reg_row_line sc fw r)
   <= max_len (map (@length N) (map (reg_row_line sc fw) (re_rows e))))%nat.
Proof. intros H. apply max_len_in. apply in_map, in_map. exact H. Qed.

(* ------------------------------------------------------------------ register: the oracle *)
Lemma strip_prefix_app p : forall rest, strip_prefix p (p ++ rest) = Some rest.
Proof. induction p as [|x p IH]; intros rest; cbn [strip_prefix app]; [reflexivity|]. rewrite N.eqb_refl. apply IH. Qed.

Lemma strip_prefix_some p : forall l rest, strip_prefix p l = Some rest -> l = p ++ rest.
Proof.
  induction p as [|x p IH]; intros l rest H; cbn [strip_prefix] in H.
  - inversion H. reflexivity.
  - destruct l as [|y l]; [discriminate|]. destruct (N.eqb_spec x y) as [E|E]; [|discriminate].
    subst. cbn [app]. f_equal. apply IH. exact H.
Qed.

Lemma reg_row_ok_iff sc r l : reg_row_ok sc r l = true <-> reg_row_spec sc r l.
Proof.
  unfold reg_row_ok, reg_row_spec. split.
  - destruct (strip_prefix _ l) as [rest|] eqn:E; [|discriminate]. intros H.
    apply strip_prefix_some in E. exists rest. split; [rewrite E, <- app_assoc; reflexivity|].
    apply words_eqb_eq. exact H.
  - intros (rest & -> & W). rewrite app_assoc, strip_prefix_app. apply words_eqb_eq. exact W.
Qed.

Lemma forall2b_iff {A B} (p : A -> B -> bool) (P : A -> B -> Prop) :
  (forall a b, p a b = true <-> P a b) ->
  forall la lb, forall2b p la lb = true <-> Forall2 P la lb.
Proof.
  intros Hp. induction la as [|a la IH]; intros [|b lb]; cbn [forall2b]; split; intros H;
    try discriminate; try (inversion H; fail); try constructor.
  - apply andb_true_iff in H. apply Hp. tauto.
  - apply andb_true_iff in H. apply IH. tauto.
  - inversion H; subst. apply andb_true_iff. split; [apply Hp|apply IH]; assumption.
Qed.

Lemma lstr_eqb_eq a b : list_eqb str_eqb a b = true <-> a = b.
Proof. apply list_eqb_eq. apply str_eqb_eq. Qed.

Lemma reg_body_ok_iff sc es : forall ls,
  reg_body_ok sc es ls = true <-> reg_body_spec sc es ls.
Proof.
  induction es as [|[ts e] es IH]; intros ls; cbn [reg_body_ok reg_body_spec].
  { destruct ls; split; congruence. }
  destruct (re_rows e) as [|r0 rows'] eqn:E; [apply IH|].
  set (rows := r0 :: rows'). set (hl := header_lines indent12 ts (t_hdr (re_txn e))).
  cbv zeta. split.
  - intros H. apply andb_true_iff in H. destruct H as [H H3]. apply andb_true_iff in H. destruct H as [H1 H2].
    destruct (skipn (length rows) (skipn (length hl) ls)) as [|d ls'] eqn:ES; [discriminate|].
    apply andb_true_iff in H3. destruct H3 as [H3 H4].
    apply lstr_eqb_eq in H1.
    exists (firstn (length rows) (skipn (length hl) ls)), d, ls'. split; [|split; [|split]].
    + rewrite <- (firstn_skipn (length hl) ls) at 1. rewrite H1. f_equal.
      rewrite <- ES. symmetry. apply firstn_skipn.
    + apply (forall2b_iff _ _ (reg_row_ok_iff sc)). exact H2.
    + exact H3.
    + apply IH. exact H4.
  - intros (rl & d & ls' & -> & F & R & S).
    pose proof (Forall2_length' _ _ _ F) as L.
    rewrite firstn_app_exact, skipn_app_exact. rewrite L, firstn_app_exact, skipn_app_exact.
    rewrite R. cbn [andb]. apply andb_true_iff. split; [apply andb_true_iff; split|].
    + apply lstr_eqb_eq. reflexivity.
    + apply (forall2b_iff _ _ (reg_row_ok_iff sc)). exact F.
    + apply IH. exact S.
Qed.

Lemma reg_text_ok_iff title sc es text :
  reg_text_ok title sc es text = true <-> reg_text_spec title sc es text.
Proof.
  unfold reg_text_ok, reg_text_spec. split.
  - destruct (text_lines text) as [|t [|u rest]]; try discriminate.
    intros H. apply andb_true_iff in H. destruct H as [H H3]. apply andb_true_iff in H. destruct H as [H1 H2].
    apply str_eqb_eq in H1, H2. subst.
    destruct (rev rest) as [|[|] rl] eqn:ER; try discriminate.
    apply rev_last_nil in ER. exists (rev rl). split; [rewrite ER; reflexivity|].
    apply reg_body_ok_iff. exact H3.
  - intros (ls & -> & S). rewrite !str_eqb_refl. cbn [andb].
    rewrite rev_app_distr. cbn [rev app]. rewrite rev_involutive. apply reg_body_ok_iff. exact S.
Qed.

Lemma reg_row_line_length sc fw r : (12 <= length (reg_row_line sc fw r))%nat.
Proof. unfold reg_row_line. cbv zeta. rewrite app_length. unfold indent12. rewrite spaces_length. lia. Qed.

Lemma reg_body_lines_spec sc fw es : reg_names_ok es ->
  reg_body_spec sc es (flat_map (fun te => reg_entry_lines sc fw (fst te) (snd te)) es).
Proof.
  induction 1 as [|[ts e] es' [Hh Hr] _ IH]; cbn [flat_map reg_body_spec fst snd]; [reflexivity|].
  cbn [fst snd] in Hr, Hh.
  destruct (re_rows e) as [|r0 rows'] eqn:E.
  { unfold reg_entry_lines at 1. rewrite E. cbn [app]. exact IH. }
  unfold reg_entry_lines at 1. rewrite E.
  set (rows := r0 :: rows') in *. cbv zeta.
  rewrite <- !app_assoc. cbn [app].
  eexists _, _, _. split; [reflexivity|]. split; [|split].
  - apply Forall2_map_r. eapply Forall_impl; [|exact Hr]. intros r (_ & Hc & H).
    apply reg_row_line_spec; assumption.
  - apply is_ruler_repeat.
    pose proof (reg_row_line_length sc fw r0).
    assert (length (reg_row_line sc fw r0) <= max_len (map (@length N) (map (reg_row_line sc fw) rows)))%nat.
    { apply max_len_in. apply in_map, in_map. left. reflexivity. }
    lia.
  - exact IH.
Qed.

Lemma reg_txt_report_spec title sc fw es : no_nl title -> reg_names_ok es ->
  reg_text_spec title sc es (reg_txt_report_with title sc fw es).
Proof.
  intros Ht Hn. eexists. split; [rewrite reg_txt_report_lines by assumption; unfold reg_lines; reflexivity|].
  apply reg_body_lines_spec. exact Hn.
Qed.

Lemma reg_text_ok_sound title sc es text :
  reg_text_ok title sc es text = true -> reg_text_spec title sc es text.
Proof. apply reg_text_ok_iff. Qed.

(* ------------------------------------------------------------------ balance: columns *)
Lemma bal_row_columns sc asl fl satsl cml r :
  let o := shown_text sc (r_own r) in
  let t := shown_text sc (r_tree r) in
  (length o <= asl)%nat -> (length t <= satsl)%nat ->
  bal_row_line sc asl fl satsl cml r
  = spaces (9 + (asl - length o)) ++ o ++ spaces (fl + (satsl - length t)) ++ t
    ++ comm_field cml (r_comm r) ++ acct_str (r_acc r)
  /\ length (spaces (9 + (asl - length o)) ++ o) = (9 + asl)%nat
  /\ length (spaces (fl + (satsl - length t)) ++ t) = (fl + satsl)%nat.
Proof.
  intros o t Lo Lt. split; [|split].
  - unfold bal_row_line, left_ruler, pad_left. fold o t. cbn [length]. rewrite Nat.sub_0_r.
    rewrite !spaces_add, <- !app_assoc. cbn [app]. reflexivity.
  - rewrite app_length, spaces_length. lia.
  - rewrite app_length, spaces_length. lia.
Qed.

Lemma bal_delta_columns sc asl cd :
  let t := shown_text sc (snd cd) in
  (length t <= asl)%nat ->
  exists tail, bal_delta_line sc asl cd = spaces (9 + (asl - length t)) ++ t ++ tail
               /\ length (spaces (9 + (asl - length t)) ++ t) = (9 + asl)%nat.
Proof.
  intros t Lt. eexists. split.
  - unfold bal_delta_line, left_ruler, pad_left. fold t. rewrite spaces_add, <- !app_assoc. reflexivity.
  - rewrite app_length, spaces_length. lia.
Qed.

(* ------------------------------------------------------------------ widths: how many digits *)
Lemma nat_fuel_ok n : 0 <= n -> n < 10 ^ Z.of_nat (S (Z.to_nat (Z.log2 n))).
Proof.
  intros Hn. destruct (Z.eq_dec n 0) as [->|NZ]; [cbn; lia|].
  pose proof (Z.log2_spec n ltac:(lia)) as [_ U].
  pose proof (Z.log2_nonneg n) as L0.
  rewrite Nat2Z.inj_succ, Z2Nat.id by assumption.
  eapply Z.lt_le_trans; [exact U|]. apply Z.pow_le_mono_l. lia.
Qed.

Lemma int_digits_len_ub fuel : forall n k, (0 < fuel)%nat -> (0 < k)%nat ->
  0 <= n < 10 ^ Z.of_nat k -> (length (int_digits fuel n) <= k)%nat.
Proof.
  induction fuel as [|f IH]; intros n k Hf Hk Hn; [lia|].
  cbn [int_digits]. rewrite app_length. cbn [length].
  destruct (Z.ltb_spec n 10) as [Hs|Hs]; [cbn [length]; lia|].
  destruct f as [|f']; [cbn [int_digits length]; lia|].
  destruct k as [|[|k']]; [lia| cbn in Hn; lia |].
  assert (length (int_digits (S f') (n / 10)) <= S k')%nat; [|lia].
  apply IH; [lia|lia|]. split; [apply Z.div_pos; lia|].
  apply Z.div_lt_upper_bound; [lia|].
  replace (Z.of_nat (S (S k'))) with (Z.succ (Z.of_nat (S k'))) in Hn by lia.
  rewrite Z.pow_succ_r in Hn by lia. lia.
Qed.

Lemma int_digits_len_lb fuel : forall n k, 0 <= n < 10 ^ Z.of_nat fuel ->
  10 ^ Z.of_nat k <= n -> (k < length (int_digits fuel n))%nat.
Proof.
  induction fuel as [|f IH]; intros n k Hn Hk.
  - cbn in Hn. pose proof (Z.pow_pos_nonneg 10 (Z.of_nat k) ltac:(lia) ltac:(lia)). lia.
  - cbn [int_digits]. rewrite app_length. cbn [length].
    destruct k as [|k']; [lia|].
    replace (Z.of_nat (S k')) with (Z.succ (Z.of_nat k')) in Hk by lia.
    rewrite Z.pow_succ_r in Hk by lia.
    pose proof (Z.pow_pos_nonneg 10 (Z.of_nat k') ltac:(lia) ltac:(lia)) as PP.
    destruct (Z.ltb_spec n 10) as [Hs|Hs]; [lia|].
    assert (k' < length (int_digits f (n / 10)))%nat; [|lia].
    apply IH.
    + split; [apply Z.div_pos; lia|]. apply Z.div_lt_upper_bound; [lia|].
      replace (Z.of_nat (S f)) with (Z.succ (Z.of_nat f)) in Hn by lia.
      rewrite Z.pow_succ_r in Hn by lia. lia.
    + apply Z.div_le_lower_bound; lia.
Qed.

Lemma nat_digits_lt_pow n : 0 <= n -> n < 10 ^ Z.of_nat (length (nat_digits n)).
Proof.
  intros Hn. destruct (Z.lt_ge_cases n (10 ^ Z.of_nat (length (nat_digits n)))) as [L|G]; [exact L|].
  exfalso. unfold nat_digits in G.
  pose proof (int_digits_len_lb _ n _ (conj Hn (nat_fuel_ok n Hn)) G). lia.
Qed.

Lemma nat_digits_succ n : 0 <= n -> (length (nat_digits (n + 1)) <= length (nat_digits n) + 1)%nat.
Proof.
  intros Hn. pose proof (nat_digits_lt_pow n Hn) as U.
  set (L := length (nat_digits n)) in *.
  unfold nat_digits at 1. apply int_digits_len_ub; [lia|lia|].
  split; [lia|]. replace (Z.of_nat (L + 1)) with (Z.succ (Z.of_nat L)) by lia.
  rewrite Z.pow_succ_r by lia. lia.
Qed.

Lemma dfmt_raw_length d p :
  length (dfmt_raw d p)
  = ((if (dm d <? 0)%Z then 1 else 0) + length (dfmt_int d)
     + (if (p =? 0)%N then 0 else S (N.to_nat p)))%nat.
Proof.
  unfold dfmt_raw. cbv zeta. rewrite !app_length.
  destruct (dm d <? 0); destruct (p =? 0)%N; cbn [length]; rewrite ?fixed_digits_length; lia.
Qed.

Lemma div_succ_cases q P : 0 <= q -> 0 < P -> (q + 1) / P = q / P \/ (q + 1) / P = q / P + 1.
Proof.
  intros Hq HP. pose proof (Z.div_mod q P ltac:(lia)) as E.
  pose proof (Z.mod_pos_bound q P HP) as B.
  destruct (Z_lt_dec (q mod P + 1) P) as [L|L].
  - left. symmetry. apply (Z.div_unique (q + 1) P (q / P) (q mod P + 1)); lia.
  - right. symmetry. apply (Z.div_unique (q + 1) P (q / P + 1) 0); lia.
Qed.

Lemma dig_step q q' P : 0 <= q -> 0 < P -> q' = q \/ q' = q + 1 ->
  (length (nat_digits (q' / P)) <= length (nat_digits (q / P)) + 1)%nat.
Proof.
  intros Hq HP [->| ->]; [lia|].
  destruct (div_succ_cases q P Hq HP) as [->| ->]; [lia|].
  apply nat_digits_succ. apply Z.div_pos; lia.
Qed.

(* rounding adds at most one character to the truncated text *)
Lemma raw_len_step (neg : bool) q q' p : 0 <= q -> q' = q \/ q' = q + 1 ->
  (length (dfmt_raw (mkDec (if neg then - q' else q') p) p)
   <= length (dfmt_raw (mkDec (if neg then - q else q) p) p) + 1)%nat.
Proof.
  intros Hq Hq'. rewrite !dfmt_raw_length. unfold dfmt_int. cbn [dm ds].
  pose proof (c17_pow10_pos p) as HP.
  assert (0 <= q') as Hq0 by lia.
  destruct neg.
  - rewrite !Z.abs_opp, !Z.abs_eq by lia.
    pose proof (dig_step q q' (pow10 p) Hq HP Hq') as D.
    destruct (Z.eq_dec q 0) as [Z0|NZ].
    + subst q. destruct Hq' as [->| ->].
      * lia.
      * cbn [Z.add Z.opp]. rewrite Z.div_0_l by lia.
        destruct (div_succ_cases 0 (pow10 p) ltac:(lia) HP) as [E|E]; cbn [Z.add] in E; rewrite E;
          rewrite Z.div_0_l by lia; cbn; lia.
    + destruct (Z.ltb_spec (- q') 0); destruct (Z.ltb_spec (- q) 0); lia.
  - rewrite !Z.abs_eq by lia.
    pose proof (dig_step q q' (pow10 p) Hq HP Hq') as D.
    destruct (Z.ltb_spec q' 0); destruct (Z.ltb_spec q 0); lia.
Qed.

Lemma ds_dtrunc d k : (ds (dtrunc d k) <= k)%N.
Proof. unfold dtrunc. destruct (N.leb_spec (ds d) k); [assumption|]. cbn [ds]. lia. Qed.

Lemma shown_len_trunc sc d :
  (length (shown_text sc d)
   <= length (with_decimals (dtrunc d (precision sc d)) (precision sc d)) + 1)%nat.
Proof.
  rewrite shown_text_raw. unfold shown_dec. set (p := precision sc d).
  rewrite (with_decimals_raw _ p) by apply ds_dtrunc.
  destruct (N.leb_spec (ds d) p) as [L|L].
  - rewrite dround_small by exact L. unfold dtrunc.
    destruct (N.leb_spec (ds d) p); [lia|lia].
  - unfold dround_hafz, dtrunc. destruct (N.leb_spec (ds d) p) as [L'|_]; [lia|]. cbv zeta.
    set (a := Z.abs (dm d)). set (T := pow10 (ds d - p)). set (q := a / T).
    set (q' := match a - q * T ?= 5 * pow10 (ds d - p - 1) with Lt => q | _ => q + 1 end).
    assert (0 <= q) as Hq.
    { unfold q. apply Z.div_pos; [unfold a; lia|]. unfold T. apply c17_pow10_pos. }
    assert (q' = q \/ q' = q + 1) as Hq'.
    { unfold q'. destruct (_ ?= _); [right|left|right]; reflexivity. }
    apply (raw_len_step (dm d <? 0) q q' p Hq Hq').
Qed.

(* a figure that is not negative never exceeds the width computed for its column; a negative
   one may exceed it by one character (when rounding carries into a new digit, or makes a
   figure that truncates to zero visible as -1 unit) *)
Lemma shown_len_bound sc d :
  (length (shown_text sc d) <= sum_len sc d + (if is_neg d then 1 else 0))%nat.
Proof.
  pose proof (shown_len_trunc sc d). unfold sum_len. destruct (is_neg d); lia.
Qed.

Lemma own_fits sc rows deltas r : In r rows -> is_neg (r_own r) = false ->
  (length (shown_text sc (r_own r)) <= left_sum_len sc rows deltas)%nat.
Proof.
  intros Hin Hn. pose proof (shown_len_bound sc (r_own r)) as B. rewrite Hn in B.
  assert (sum_len sc (r_own r) <= max_sum_len sc r_own rows)%nat.
  { unfold max_sum_len. apply max_len_in. apply in_map_iff. exists r. split; [reflexivity|exact Hin]. }
  unfold left_sum_len. lia.
Qed.

Lemma tree_fits sc rows r : In r rows -> is_neg (r_tree r) = false ->
  (length (shown_text sc (r_tree r)) <= tree_sum_len sc rows)%nat.
Proof.
  intros Hin Hn. pose proof (shown_len_bound sc (r_tree r)) as B. rewrite Hn in B.
  assert (sum_len sc (r_tree r) <= max_sum_len sc r_tree rows)%nat.
  { unfold max_sum_len. apply max_len_in. apply in_map_iff. exists r. split; [reflexivity|exact Hin]. }
  unfold tree_sum_len. lia.
Qed.

(* the misalignment exists: -9.995 at scale (2,2) is shown as -10.00 (6 characters) in a
   column computed for -9.99 (5 characters) *)
Lemma negative_carry_exceeds :
  let sc := mkScale 2 2 in
  let d := mkDec (-9995) 3 in
  shown_text sc d = [45; 49; 48; 46; 48; 48]%N /\ sum_len sc d = 5%nat.
Proof. vm_compute. split; reflexivity. Qed.

(* ------------------------------------------------------------------ ties to the engines *)
(* Balance.deltas lists every commodity of the rows *)
Lemma delta_acc_covers l : forall cur acc,
  In cur (map fst (delta_acc cur acc l))
  /\ forall r, In r l -> In (r_comm r) (map fst (delta_acc cur acc l)).
Proof.
  induction l as [|x l IH]; intros cur acc; cbn [delta_acc].
  - split; [left; reflexivity|intros r []].
  - destruct (str_eqb (r_comm x) cur) eqn:E.
    + destruct (IH cur (dadd acc (r_own x))) as [H1 H2]. split; [exact H1|].
      intros r [->|Hr]; [|apply H2; exact Hr]. apply str_eqb_eq in E. rewrite E. exact H1.
    + destruct (IH (r_comm x) (dadd dzero (r_own x))) as [H1 H2]. cbn [map fst In]. split; [left; reflexivity|].
      intros r [->|Hr]; right; [exact H1|apply H2; exact Hr].
Qed.

Lemma deltas_covers rows : covers rows (deltas rows).
Proof.
  unfold covers, deltas. destruct rows as [|r0 rows']; [intros r []|].
  destruct (delta_acc_covers rows' (r_comm r0) (dadd dzero (r_own r0))) as [H1 H2].
  intros r [<-|Hr]; [exact H1|apply H2; exact Hr].
Qed.

Lemma balance_report_covers known ord sel ps rep :
  balance_report known ord sel ps = Some rep -> covers (b_rows rep) (b_deltas rep).
Proof.
  unfold balance_report. destruct (balance known ord ps); [|discriminate].
  intros H. inversion H. cbn [b_rows b_deltas]. apply deltas_covers.
Qed.

(* the text of a balance report computed by the model of the engine *)
Lemma balance_report_text known ord sel ps rep title sc :
  balance_report known ord sel ps = Some rep ->
  no_nl title -> bal_names_ok (b_rows rep) (b_deltas rep) ->
  bal_text_spec title sc (b_rows rep) (b_deltas rep)
                (bal_txt_report title sc (b_rows rep) (b_deltas rep)).
Proof.
  intros H Ht Hn. apply bal_txt_report_spec; try assumption.
  eapply balance_report_covers. exact H.
Qed.

(* register report with the time stamp formatter as a parameter *)
Lemma reg_txt_report_ts_spec title sc fw ts_text es :
  no_nl title -> reg_names_ok (with_ts ts_text es) ->
  reg_text_spec title sc (with_ts ts_text es) (reg_txt_report title sc fw ts_text es).
Proof. intros. unfold reg_txt_report. apply reg_txt_report_spec; assumption. Qed.

(* ------------------------------------------------------------------ non-vacuity *)
Definition ex_title : str := [66; 65; 76]%N.                     (* "BAL" *)
Definition ex_rows : list brow :=
  [ mkBrow [[97]]%N [] (mkDec 0 0) (mkDec (-25) 1);              (* a        0    -2.5 *)
    mkBrow [[97]; [98]]%N [] (mkDec (-25) 1) (mkDec (-25) 1);    (* a:b   -2.5    -2.5 *)
    mkBrow [[120]]%N [8364]%N (mkDec 1005 3) (mkDec 1005 3) ].   (* x  1.005 € *)
Definition ex_deltas : list (str * dec) := [([8364]%N, mkDec 1005 3); ([], mkDec (-25) 1)].

Lemma text_example :
  let sc := mkScale 2 2 in
  covers ex_rows ex_deltas
  /\ bal_text_ok ex_title sc ex_rows ex_deltas (bal_txt_report ex_title sc ex_rows ex_deltas) = true
  /\ map words (text_lines (bal_txt_report ex_title sc ex_rows ex_deltas))
     = [ [[66; 65; 76]]; [[45; 45; 45]];
         [[48; 46; 48; 48]; [45; 50; 46; 53; 48]; [97]];
         [[45; 50; 46; 53; 48]; [45; 50; 46; 53; 48]; [97; 58; 98]];
         [[49; 46; 48; 49]; [49; 46; 48; 49]; [8364]; [120]];
         [repeat 61 23];
         [[45; 50; 46; 53; 48]];
         [[49; 46; 48; 49]; [8364]];
         [] ]%N.
Proof.
  cbv zeta. split; [|split; vm_compute; reflexivity].
  intros r Hr. cbn in Hr. destruct Hr as [<-|[<-|[<-|[]]]]; cbn; tauto.
Qed.
