(* Store_proofs.v — proofs for C08: the git tree walk selects exactly the wanted files. *)
From TkModel Require Import Base Store.
From TkSpec Require Import Store_spec.
From TkProofs Require Import Base_proofs.

(* ------------------------------------------------------------------ *)
(* extension of a file name *)

Lemma ald_nodot acc s : ~ In dot s -> after_last_dot acc s = acc.
Proof.
  revert acc; induction s as [|c s IH]; intros acc H; cbn [after_last_dot]; [reflexivity|].
  destruct (N.eqb c dot) eqn:E.
  - apply N.eqb_eq in E. exfalso. apply H. left. exact E.
  - apply IH. intros Hin. apply H. right. exact Hin.
Qed.

Lemma ald_app acc pre e : ~ In dot e -> after_last_dot acc (pre ++ dot :: e) = Some e.
Proof.
  intros H. revert acc; induction pre as [|c pre IH]; intros acc; cbn [app after_last_dot].
  - rewrite N.eqb_refl. apply ald_nodot. exact H.
  - destruct (N.eqb c dot); apply IH.
Qed.

Lemma ald_inv acc s e : after_last_dot acc s = Some e ->
  (acc = Some e /\ ~ In dot s) \/ (exists pre, s = pre ++ dot :: e /\ ~ In dot e).
Proof.
  revert acc; induction s as [|c s IH]; intros acc H; cbn [after_last_dot] in H.
  - left. split; [exact H|intros []].
  - destruct (N.eqb c dot) eqn:E.
    + apply N.eqb_eq in E. subst c. right.
      destruct (IH _ H) as [[Ha Hn]|[pre [Hs Hn]]].
      * inversion Ha. subst e. exists []. split; [reflexivity|exact Hn].
      * exists (dot :: pre). split; [rewrite Hs; reflexivity|exact Hn].
    + apply N.eqb_neq in E.
      destruct (IH _ H) as [[Ha Hn]|[pre [Hs Hn]]].
      * left. split; [exact Ha|]. intros [Hc|Hin]; [apply E; exact Hc|exact (Hn Hin)].
      * right. exists (c :: pre). split; [rewrite Hs; reflexivity|exact Hn].
Qed.

Lemma extension_named ext name : ext_ok ext -> named_with_ext ext name -> extension name = Some ext.
Proof.
  intros Hok [stem [Hne Hn]]. subst name.
  destruct stem as [|c stem]; [contradiction Hne; reflexivity|].
  unfold extension. cbn [app]. destruct (N.eqb c dot).
  - apply ald_app. exact Hok.
  - apply (ald_app None (c :: stem) ext). exact Hok.
Qed.

Lemma extension_inv ext name : extension name = Some ext -> named_with_ext ext name /\ ext_ok ext.
Proof.
  unfold extension. destruct name as [|c rest]; [discriminate|].
  destruct (N.eqb c dot) eqn:E; intros H.
  - destruct (ald_inv _ _ _ H) as [[Ha _]|[pre [Hs Hn]]]; [discriminate|].
    split; [|exact Hn]. exists (c :: pre). split; [discriminate|]. rewrite Hs. reflexivity.
  - destruct (ald_inv _ _ _ H) as [[Ha _]|[pre [Hs Hn]]]; [discriminate|].
    split; [|exact Hn]. exists pre. split; [|exact Hs].
    intros ->. cbn [app] in Hs. inversion Hs. subst c. rewrite N.eqb_refl in E. discriminate.
Qed.

(* the core characterisation *)
Lemma has_ext_spec ext name : ext_ok ext -> has_ext ext name = true <-> named_with_ext ext name.
Proof.
  intros Hok. unfold has_ext. split.
  - destruct (extension name) as [e|] eqn:E; [|discriminate].
    intros H. apply str_eqb_eq in H. subst e. apply extension_inv in E. apply E.
  - intros H. rewrite (extension_named _ _ Hok H). apply str_eqb_refl.
Qed.

(* ------------------------------------------------------------------ *)
(* directory prefix on components *)

Lemma comps_prefix_spec d q : comps_prefix d q = true <-> exists r, q = d ++ r.
Proof.
  revert q; induction d as [|x d IH]; intros q; cbn [comps_prefix app].
  - split; [intros _; exists q; reflexivity|reflexivity].
  - destruct q as [|y q].
    + split; [discriminate|intros [r Hr]; discriminate].
    + rewrite andb_true_iff, str_eqb_eq, IH. split.
      * intros [-> [r ->]]. exists r. reflexivity.
      * intros [r Hr]. inversion Hr. split; [reflexivity|exists r; reflexivity].
Qed.

Lemma under_spec dir p : p <> [] -> comps_prefix dir (dir_of p) = true <-> under dir p.
Proof.
  intros Hp. unfold dir_of, under. rewrite comps_prefix_spec. split.
  - intros [r Hr]. exists (r ++ [last p []]). split.
    + intros H. apply app_eq_nil in H. destruct H as [_ H]. discriminate.
    + rewrite app_assoc, <- Hr. apply app_removelast_last. exact Hp.
  - intros [rest [Hne ->]]. exists (removelast rest). apply removelast_app. exact Hne.
Qed.

(* ------------------------------------------------------------------ *)
(* selection *)

Definition sel (dir : list (list N)) (ext : list N) (e : entry) : bool :=
  is_regular (en_kind e) && comps_prefix dir (dir_of (en_path e)) && has_ext ext (file_name (en_path e)).

Lemma is_regular_spec k : is_regular k = true <-> (k = Blob \/ k = BlobExec).
Proof.
  destruct k; cbn; split; intros H; try discriminate; auto;
    destruct H as [H|H]; discriminate.
Qed.

Lemma sel_wanted dir ext e : ext_ok ext -> en_path e <> [] ->
  sel dir ext e = true <-> wanted dir ext e.
Proof.
  intros Hok Hp. unfold sel, wanted.
  rewrite !andb_true_iff, is_regular_spec, (under_spec _ _ Hp), (has_ext_spec _ _ Hok).
  tauto.
Qed.

Definition is_link (e : entry) : bool := match en_kind e with Link => true | _ => false end.

Lemma select_git_unfold dir ext t :
  select_git dir ext t = if existsb is_link t then None else Some (filter (sel dir ext) t).
Proof. reflexivity. Qed.

Lemma no_links_existsb t : no_links t -> existsb is_link t = false.
Proof.
  intros H. destruct (existsb is_link t) eqn:E; [|reflexivity].
  apply existsb_exists in E. destruct E as [e [Hin Hl]].
  exfalso. apply (H e Hin). unfold is_link in Hl. destruct (en_kind e); try discriminate. reflexivity.
Qed.

Lemma filter_none {A} (f : A -> bool) l : (forall x, In x l -> f x = false) -> filter f l = [].
Proof.
  induction l as [|x l IH]; intros H; cbn [filter]; [reflexivity|].
  rewrite (H x (or_introl eq_refl)). apply IH. intros y Hy. apply H. right. exact Hy.
Qed.

Lemma select_git_wanted : forall dir ext t l,
  ext_ok ext -> paths_ok t -> select_git dir ext t = Some l ->
  forall e, In e l <-> (In e t /\ wanted dir ext e).
Proof.
  intros dir ext t l Hok Hp H e. rewrite select_git_unfold in H.
  destruct (existsb is_link t); [discriminate|]. inversion H. subst l. clear H.
  rewrite filter_In. split.
  - intros [Hin Hs]. split; [exact Hin|]. apply sel_wanted; auto.
  - intros [Hin Hw]. split; [exact Hin|]. apply sel_wanted; auto.
Qed.

Lemma select_git_eq_fs : forall dir ext t,
  no_links t -> select_git dir ext t = Some (select_fs dir ext t).
Proof.
  intros dir ext t H. rewrite select_git_unfold, (no_links_existsb _ H). reflexivity.
Qed.

Lemma select_git_frame : forall dir ext t extra l,
  no_links (t ++ extra) -> ext_ok ext -> paths_ok extra ->
  (forall e, In e extra -> ~ wanted dir ext e) ->
  select_git dir ext t = Some l -> select_git dir ext (t ++ extra) = Some l.
Proof.
  intros dir ext t extra l Hnl Hok Hp Hnw H.
  rewrite select_git_unfold in *. rewrite (no_links_existsb _ Hnl).
  destruct (existsb is_link t); [discriminate|]. inversion H. subst l. clear H.
  rewrite filter_app, (filter_none (sel dir ext) extra), app_nil_r; [reflexivity|].
  intros e Hin. destruct (sel dir ext e) eqn:E; [|reflexivity].
  exfalso. apply (Hnw e Hin). apply sel_wanted; auto.
Qed.

(* ------------------------------------------------------------------ *)
(* repository *)

Lemma load_git_frame : forall r r' s dir ext id,
  resolve r s = Some id -> resolve r' s = Some id ->
  lookup_commit (commits r) id = lookup_commit (commits r') id ->
  load_git r s dir ext = load_git r' s dir ext.
Proof.
  intros r r' s dir ext id H H' Hc. unfold load_git. rewrite H, H', Hc. reflexivity.
Qed.

Lemma load_ref_eq_commit : forall r name id dir ext,
  lookup_ref (refs r) name = Some id ->
  load_git r (ByRef name) dir ext = load_git r (ByCommit id) dir ext
  /\ (forall id' l, load_git r (ByRef name) dir ext = Some (id', l) -> id' = id).
Proof.
  intros r name id dir ext H. unfold load_git, resolve. rewrite H. split; [reflexivity|].
  intros id' l. destruct (lookup_commit (commits r) id); [|discriminate].
  destruct (select_git dir ext l0); cbn [option_map]; [|discriminate].
  intros E. inversion E. reflexivity.
Qed.

(* ------------------------------------------------------------------ *)
(* the selection before the repair: "txnsfile.txn" at the top of the tree is picked up
   for dir = "txns" *)

Lemma old_selection_refuted :
  exists dir dirs ext t l, select_git_old dirs ext t = Some l /\ dirs = join_slash dir
    /\ exists e, (In e l /\ ~ wanted dir ext e) \/ (In e t /\ wanted dir ext e /\ ~ In e l).
Proof.
  pose (e := mkEntry [[116;120;110;115;102;105;108;101;46;116;120;110]]%N Blob 4).
  exists [[116;120;110;115]]%N, [116;120;110;115]%N, [116;120;110]%N, [e], [e].
  split; [vm_compute; reflexivity|]. split; [reflexivity|].
  exists e. left. split; [left; reflexivity|].
  intros [_ [[rest [_ Hr]] _]]. cbn in Hr. inversion Hr.
Qed.

Lemma store_example :
  let t := [ mkEntry [[116;120;110;115]; [97;46;116;120;110]]%N Blob 1;
             mkEntry [[116;120;110;115]; [101;46;116;120;110]]%N BlobExec 2;
             mkEntry [[116;120;110;115;45;111;108;100]; [98;46;116;120;110]]%N Blob 3;
             mkEntry [[116;120;110;115;102;105;108;101;46;116;120;110]]%N Blob 4;
             mkEntry [[116;120;110;115]; [99;46;120;116;120;110]]%N Blob 5;
             mkEntry [[116;120;110;115]; [46;116;120;110]]%N Blob 6 ] in
  option_map (map en_blob) (select_git [[116;120;110;115]]%N [116;120;110]%N t) = Some [1; 2]%N.
Proof. vm_compute. reflexivity. Qed.
